"""
Demo for refactor 4: the wiring step (pybufrkit/templatedata.py TemplateData.wire / wire_members).

Run as:  cd /tmp/tw_C09 && /venv/bin/python _out/4/demo.py
"""
import os, sys; sys.path.insert(0, os.getcwd())

import logging

logging.disable(logging.CRITICAL)

import pybufrkit
assert os.path.dirname(os.path.abspath(pybufrkit.__file__)) == os.path.join(os.getcwd(), 'pybufrkit'), pybufrkit.__file__

from pybufrkit.errors import PyBufrKitError
from pybufrkit.decoder import Decoder
from pybufrkit.encoder import Encoder
from pybufrkit.descriptors import (Descriptor, ElementDescriptor, OperatorDescriptor, SequenceDescriptor,
                                   FixedReplicationDescriptor, SkippedLocalDescriptor,
                                   UndefinedElementDescriptor, BufrTemplate)
from pybufrkit.renderer import FlatJsonRenderer, NestedJsonRenderer, NestedTextRenderer
from pybufrkit.templatedata import (TemplateData, NoValueDataNode, ValueDataNode, SequenceNode,
                                    FixedReplicationNode, DelayedReplicationNode, AssociatedFieldNode,
                                    QualityInfoNode, FirstOrderStatsNode)
from pybufrkit.utils import nested_json_to_flat_json

decoder = Decoder()
encoder = Encoder()


def build(descriptors, subsets, compressed=False):
    return [
        ['BUFR', 0, 4],
        [0, 0, 0, 0, 0, False, '0000000', 0, 0, 0, 25, 0, 2020, 1, 2, 3, 4, 5],
        [0, '00000000', len(subsets), True, compressed, '000000', list(descriptors)],
        [0, '00000000', [list(s) for s in subsets]],
        ['7777'],
    ]


def raises(exc_type, func, *args):
    try:
        func(*args)
    except Exception as e:
        assert type(e) is exc_type, (type(e), e)
        return e
    raise AssertionError('no exception')


def walk(nodes, out, members_seen):
    """
    In-order walk of the hierarchical view: the flat indices in the order
    associated field, owner; replication factor, members.
    """
    for node in nodes:
        if isinstance(node, NoValueDataNode):
            assert not hasattr(node, 'index')
            if isinstance(node, DelayedReplicationNode):
                walk_value(node.factor, out, members_seen)
            if isinstance(node, (SequenceNode, FixedReplicationNode, DelayedReplicationNode)):
                walk(node.members, out, members_seen)
        else:
            walk_value(node, out, members_seen)


def walk_value(node, out, members_seen):
    assert isinstance(node, ValueDataNode)
    for attr in getattr(node, 'attributes', ()):
        if isinstance(attr, AssociatedFieldNode):
            out.append(attr.index)
            members_seen[id(attr)] = attr
    out.append(node.index)
    members_seen[id(node)] = node


def check_attributes(node, members_seen, links, label):
    """Attributes other than associated fields are the very nodes met as members elsewhere"""
    for attr in getattr(node, 'attributes', ()):
        assert id(attr) in members_seen, label
        if not isinstance(attr, AssociatedFieldNode) and attr.index in links \
                and type(attr) is not ValueDataNode:
            # a bit-mapped attribute hangs on the node its link points to
            assert links[attr.index] == node.index, label
        check_attributes(attr, members_seen, links, label)


def check_wiring(message, label):
    td = message.template_data.value
    assert td._is_wired is False
    flat = FlatJsonRenderer().render(message)
    assert message.wire() is None
    assert td._is_wired is True
    assert not hasattr(td, 'index_to_node'), label         # released at the end
    n_wired = 1 if td.is_compressed else td.n_subsets
    for idx_subset in range(td.n_subsets):
        nodes = td.decoded_nodes_all_subsets[idx_subset]
        if td.is_compressed:
            assert nodes is td.decoded_nodes_all_subsets[0], label
        n_values = len(td.decoded_values_all_subsets[idx_subset])
        out, members_seen = [], {}
        walk(nodes, out, members_seen)
        # every flat index exactly once, and in the flat order
        assert out == list(range(n_values)), (label, idx_subset)
        links = td.bitmap_links_all_subsets[idx_subset]
        for node in list(members_seen.values()):
            check_attributes(node, members_seen, links, label)
            assert node.descriptor is td.decoded_descriptors_all_subsets[idx_subset][node.index], label
    # the context left behind is the one of the last subset wired
    if td.n_subsets:
        assert td.decoded_nodes is td.decoded_nodes_all_subsets[n_wired - 1], label
        assert td.decoded_values is td.decoded_values_all_subsets[n_wired - 1], label
        assert td.decoded_descriptors is td.decoded_descriptors_all_subsets[n_wired - 1], label
        assert td.bitmap_links is td.bitmap_links_all_subsets[n_wired - 1], label
        assert td.next_index() == len(td.decoded_values), label      # the counter stands after the last value

    # the hierarchical renderings agree with the flat one
    assert nested_json_to_flat_json(NestedJsonRenderer().render(message)) == flat, label
    assert FlatJsonRenderer().render(message) == flat, label

    # wiring again changes nothing
    snapshot = [list(nodes) for nodes in td.decoded_nodes_all_subsets]
    text = NestedTextRenderer().render(td)
    assert td.wire() is None and message.wire() is None
    assert [list(nodes) for nodes in td.decoded_nodes_all_subsets] == snapshot, label
    assert all(a is b for x, y in zip(td.decoded_nodes_all_subsets, snapshot) for a, b in zip(x, y))
    assert NestedTextRenderer().render(td) == text, label
    return td


# ---------------------------------------------------------------- sample files
SAMPLES = (
    'tests/data/contrived.bufr',
    'tests/data/207003.bufr',            # compressed with delayed replication
    'tests/data/rado_250.bufr',          # uncompressed with 222000, 224000, 236000
    'tests/data/amv2_87.bufr',           # compressed with 222000
    'tests/data/b005_89.bufr',           # compressed with 222000 and 224000
    'tests/data/profiler_european.bufr',  # 204001 associated fields
    'tests/data/uegabe.bufr',            # 204004 associated fields
    'tests/data/jaso_214.bufr',          # compressed, associated fields
    'tests/data/b002_95.bufr',           # skipped local descriptors
    'tests/data/ISMD01_OKPR.bufr',
    'tests/data/IUSK73_AMMC_182300.bufr',
    'tests/data/prepbufr.bufr',
    'tests/benchmark_data/ocea_133.bufr',  # QA info attached to a replication factor
    'tests/benchmark_data/pilo_91.bufr',
    'tests/benchmark_data/temp_101.bufr',
    'tests/benchmark_data/temp_106.bufr',
    'tests/benchmark_data/ship_13.bufr',
    'tests/benchmark_data/syno_1.bufr',
)
for path in SAMPLES:
    with open(path, 'rb') as ins:
        message = decoder.process(ins.read(), wire_template_data=False)
    check_wiring(message, path)

# the nested text dumps kept with the tests
for stub in ('207003', 'rado_250'):
    with open('tests/data/{}.bufr'.format(stub), 'rb') as ins:
        message = decoder.process(ins.read())
    with open('tests/data/{}.datadump.cmp'.format(stub)) as ins:
        expected = ins.read()
    dump = NestedTextRenderer().render(message.template_data.value)
    assert dump.replace('005040 ORBIT NUMBER 5258\n', '005040 ORBIT NUMBER 5258L\n') == expected, stub

# ------------------------------------------------------------ synthetic shapes
CASES = {
    'strings_flags_zero_replication': (
        [1015, 2002, 102000, 31001, 12001, 1015, 20003],
        [[b'A "q" \'s\'  x\xe9\xff', 5, 2, 280.5, b"it's", None, b' lead', 3],
         [None, None, 0, None]], False),
    'compressed': (
        [1015, 2002, 102000, 31001, 12001, 1015, 20003],
        [[b'abc', 5, 2, 280.5, b"it's", None, b' lead', 3],
         [None, None, 2, 1.5, b'x', 2.5, b'y', 7]], True),
    'associated_fields': (
        [204008, 31021, 12001, 10004, 204000, 12001],
        [[1, 3, 280.5, None, 10000.0, 281.5]], False),
    'data_not_present_221': (
        [221003, 4001, 12001, 4002, 12001],
        [[2020, 11, 280.0]], False),
    'data_not_present_221_over_fixed_replication': (
        [221003, 101002, 12001, 4001, 12001],
        [[5, 280.0]], False),
    'data_not_present_221_over_sequence': (
        [221004, 301011, 12001, 12001],
        [[2020, 1, 2, 280.0, 281.0]], False),
    'data_not_present_221_over_delayed_replication': (
        [221002, 102000, 31001, 4001, 12001, 12001],
        [[2, 1, 280.0, 2, 281.0, 282.0]], False),
    'data_not_present_221_class_31_and_8': (
        [221004, 31021, 12001, 8002, 10004, 10004],
        [[1, 3, 100.0]], False),
    'qa_on_elements_and_replication_factor': (
        [1001, 1002, 101000, 31001, 12001, 222000, 236000, 101005, 31031, 1031, 1032, 101005, 33007],
        [[1, 2, 2, 280.0, 281.0, 0, 0, 0, 0, 0, 0, 0, 98, 1, 70, 71, 72, 73, 74]], False),
    'chained_attributes_first_order_stats': (
        [1001, 12001, 224000, 236000, 101002, 31031, 1031, 1032, 8023, 101002, 224255],
        [[1, 280.0, 0, 0, 0, 0, 98, 1, 4, 2, 281.0]], False),
    'nested_replications': (
        [104002, 102000, 31001, 12001, 1015, 20003],
        [[1, 280.0, b'x y', 0, 3],
         [0, 2, 281.0, b'a', 282.0, b'b', None]], False),
    'skipped_local': (
        [206008, 2250, 12001],
        [[12, 280.0], [None, None]], False),
    'operators_without_values': (
        [201130, 12001, 201000, 201132, 202129, 12001, 202000, 201000, 208008, 1015, 208000, 12001],
        [[280.0, 281.0, b'abc', 282.0]], False),
}
wired = {}
for name, (descriptors, subsets, compressed) in CASES.items():
    try:
        encoded = encoder.process(build(descriptors, subsets, compressed), wire_template_data=False)
    except Exception as e:
        raise AssertionError((name, e))
    message = decoder.process(encoded.serialized_bytes, wire_template_data=False)
    wired[name] = check_wiring(message, name)
    # the message built by the encoder is wired the same way
    check_wiring(encoded, name + ' (encoder)')
    assert NestedTextRenderer().render(encoded).count('\n') == NestedTextRenderer().render(message).count('\n')

# shapes of a few of them, literally
td = wired['data_not_present_221']
nodes = td.decoded_nodes_all_subsets[0]
assert [type(n) for n in nodes] == [NoValueDataNode, ValueDataNode, NoValueDataNode, ValueDataNode, ValueDataNode]
assert [str(n.descriptor) for n in nodes] == ['221003', '004001', '012001', '004002', '012001']
assert isinstance(nodes[2].descriptor, ElementDescriptor)          # the skipped element keeps its descriptor
assert [n.index for n in nodes if isinstance(n, ValueDataNode)] == [0, 1, 2]
assert td.data_not_present_count == 0

td = wired['data_not_present_221_over_fixed_replication']
nodes = td.decoded_nodes_all_subsets[0]
assert [type(n) for n in nodes] == [NoValueDataNode, FixedReplicationNode, ValueDataNode, ValueDataNode]
assert [type(n) for n in nodes[1].members] == [NoValueDataNode, NoValueDataNode]

td = wired['data_not_present_221_class_31_and_8']
nodes = td.decoded_nodes_all_subsets[0]
assert [type(n) for n in nodes] == [NoValueDataNode, ValueDataNode, NoValueDataNode, ValueDataNode,
                                    NoValueDataNode, ValueDataNode]

td = wired['qa_on_elements_and_replication_factor']
nodes = td.decoded_nodes_all_subsets[0]
factor = nodes[2].factor
assert type(nodes[2]) is DelayedReplicationNode and factor.index == 2
assert [type(a) for a in factor.attributes] == [QualityInfoNode] and factor.attributes[0].index == 16
assert factor.attributes[0] is nodes[-1].members[2]
assert nodes[0].attributes[0] is nodes[-1].members[0]
assert sorted(k for k in vars(td)) == [
    '_is_wired', 'bitmap_links', 'bitmap_links_all_subsets', 'data_not_present_count', 'decoded_descriptors',
    'decoded_descriptors_all_subsets', 'decoded_nodes', 'decoded_nodes_all_subsets', 'decoded_values',
    'decoded_values_all_subsets', 'is_compressed', 'n_subsets', 'nbits_associated_list', 'next_index',
    'template', 'waiting_for_1st_order_stats_meaning', 'waiting_for_difference_stats_meaning',
    'waiting_for_qa_info_meaning']
assert td.waiting_for_qa_info_meaning is True and td.nbits_associated_list == []

td = wired['chained_attributes_first_order_stats']
nodes = td.decoded_nodes_all_subsets[0]
stats = nodes[1].attributes[0]
assert type(stats) is FirstOrderStatsNode and stats.index == 10
assert stats.attributes == [nodes[7]] and nodes[7].index == 8
assert td.first_order_stats_meaning is nodes[7] and td.waiting_for_1st_order_stats_meaning is False

td = wired['associated_fields']
nodes = td.decoded_nodes_all_subsets[0]
assert type(nodes[2].attributes[0]) is AssociatedFieldNode and nodes[2].attributes[0].index == 1
assert nodes[2].attributes[0].attributes == [nodes[1]] and td.associated_field_meaning is nodes[1]
assert not hasattr(nodes[5], 'attributes')

td = wired['compressed']
assert td.decoded_nodes_all_subsets[0] is td.decoded_nodes_all_subsets[1]
assert len(td.decoded_nodes_all_subsets[0]) == 4                       # wired once, not once per subset

td = wired['strings_flags_zero_replication']
assert td.decoded_nodes_all_subsets[1][2].members == [] and td.decoded_nodes_all_subsets[1][2].factor.index == 2
assert len(td.decoded_nodes_all_subsets[0][2].members) == 4

# ------------------------------------------- hand-made templates and error cases
e1 = ElementDescriptor(12001, 'T', 'K', 1, 0, 12, 'C', 1, 3)
e2 = ElementDescriptor(4001, 'YEAR', 'a', 0, 0, 12, 'a', 0, 4)


def template_data(members, descriptors, values, compressed=False):
    return TemplateData(BufrTemplate(members=members), compressed, [descriptors], [values], [{}])


# no subsets at all: nothing to do, nothing left behind
td = TemplateData(BufrTemplate(members=[e1]), False, [], [], [])
assert td.wire() is None and td._is_wired is True and td.decoded_nodes == []
assert not hasattr(td, 'next_index') and not hasattr(td, 'data_not_present_count')

# undefined element and skipped local descriptors are wired as plain values, also under 221
u, s = UndefinedElementDescriptor(63250), SkippedLocalDescriptor(2250, 8)
td = template_data([OperatorDescriptor(221003), u, s, e1, e1], [u, s, e1], [1, 2, 3])
td.wire()
assert [type(n) for n in td.decoded_nodes] == [NoValueDataNode, ValueDataNode, ValueDataNode,
                                               NoValueDataNode, ValueDataNode]
assert [n.index for n in td.decoded_nodes if isinstance(n, ValueDataNode)] == [0, 1, 2]
assert td.data_not_present_count == 0

# the count of 221 runs on over the end of the template
td = template_data([OperatorDescriptor(221009), e2, e1], [e2], [2020])
td.wire()
assert td.data_not_present_count == 7 and [type(n) for n in td.decoded_nodes] == [NoValueDataNode, ValueDataNode,
                                                                                   NoValueDataNode]

# a member of an unknown type
td = template_data([e1, Descriptor(12001)], [e1], [1.0])
e = raises(PyBufrKitError, td.wire)
assert 'Cannot wire descriptor type' in str(e) and 'Descriptor' in str(e)
# (rebased: since "fix: data are marked as wired only after the wiring went through" the flag stays False
# after a failure and the failure is met again on the next attempt instead of a silent no-op)
assert td._is_wired is False and td.index_to_node == {0: td.decoded_nodes[0]}    # not released on failure
e = raises(PyBufrKitError, td.wire)
assert 'Cannot wire descriptor type' in str(e) and td._is_wired is False
# ... the same while 221 is in effect: it is counted first
td = template_data([OperatorDescriptor(221002), object()], [], [])
raises(PyBufrKitError, td.wire)
assert td.data_not_present_count == 1 and len(td.decoded_nodes) == 1
raises(PyBufrKitError, template_data([None], [], []).wire)
raises(PyBufrKitError, template_data(['012001'], [], []).wire)

# operators that are not implemented
e = raises(NotImplementedError, template_data([OperatorDescriptor(241000)], [], []).wire)
assert '241000' in str(e)
# cancelling associated fields that were never defined
raises(IndexError, template_data([OperatorDescriptor(204000)], [], []).wire)
# fewer values than the template asks for
td = template_data([e1, e1], [e1], [1.0])
raises(IndexError, td.wire)
assert len(td.decoded_nodes) == 1 and td.next_index() == 2
# lists of the subsets that do not match
td = TemplateData(BufrTemplate(members=[e1]), False, [[e1], [e1]], [[1.0]], [{}, {}])
raises(IndexError, td.wire)
assert len(td.decoded_nodes_all_subsets[0]) == 1 and td.decoded_nodes_all_subsets[1] == []
assert td.decoded_nodes is td.decoded_nodes_all_subsets[1] and td.decoded_values == [1.0]
assert not hasattr(td, 'index_to_node')           # released after the first subset, not created for the second
# a template that is not one
raises(AttributeError, TemplateData(None, False, [[e1]], [[1.0]], [{}]).wire)
raises(TypeError, TemplateData(SequenceDescriptor(301001, 'x', members=None), False, [[e1]], [[1.0]], [{}]).wire)

# wire_members can be driven directly once the context is there
td = template_data([e1], [e1, e2, e1], [1.0, 2, 3.0])
td.wire()
td.index_to_node = {}
assert td.wire_members([e2, FixedReplicationDescriptor(101001, members=[e1])]) is None
assert [type(n) for n in td.decoded_nodes] == [ValueDataNode, ValueDataNode, FixedReplicationNode]
assert td.decoded_nodes[2].members[0].index == 2 and sorted(td.index_to_node) == [1, 2]
assert td.wire_members([]) is None and td.wire_members(()) is None and len(td.decoded_nodes) == 3
raises(TypeError, td.wire_members, None)

print('demo 4 OK')
