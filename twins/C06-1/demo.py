"""
Demo for refactor 1 (CoderState.switch_subset_context split into helpers).

Run as:  cd /tmp/tw_C06 && /venv/bin/python _out/1/demo.py
Exits 0 when every assertion holds (with or without the patch).
"""
import os, sys; sys.path.insert(0, os.getcwd())
import itertools
import json

import pybufrkit
assert os.path.dirname(os.path.abspath(pybufrkit.__file__)) == os.path.join(os.getcwd(), 'pybufrkit'), \
    'wrong copy of pybufrkit imported: ' + pybufrkit.__file__

from pybufrkit.coder import (CoderState, BSRModifier, BITMAP_NA, BITMAP_BIT_COUNTING,
                             QA_INFO_NA, QA_INFO_PROCESSING)
from pybufrkit.decoder import Decoder
from pybufrkit.encoder import Encoder
from pybufrkit.errors import PyBufrKitError
from pybufrkit.renderer import NestedJsonRenderer


# ---------------------------------------------------------------------------
# Part 1: the method itself, on hand made states
# ---------------------------------------------------------------------------
NEUTRAL = dict(
    idx_value=0, nbits_offset=0, scale_offset=0, nbits_of_new_refval=0, new_refvals={},
    nbits_of_associated=[], nbits_of_skipped_local_descriptor=0,
    bsr_modifier=BSRModifier(nbits_increment=0, scale_increment=0, refval_factor=1),
    new_nbytes=0, data_not_present_count=0, status_qa_info_follows=QA_INFO_NA,
    bitmap=None, bitmapped_descriptors=None, bitmap_definition_state=BITMAP_NA,
    most_recent_bitmap_is_for_reuse=False, n_031031=0, next_bitmapped_descriptor=None,
    back_reference_boundary=0, back_referenced_descriptors=None,
)


def dirty(state):
    """Put every register that a subset can leave behind into a non neutral value."""
    state.idx_value = 17
    state.nbits_offset = 6
    state.scale_offset = -2
    state.nbits_of_new_refval = 10
    state.new_refvals = {12001: -50}
    state.nbits_of_associated = [8, 4]
    state.nbits_of_skipped_local_descriptor = 9
    state.bsr_modifier = BSRModifier(nbits_increment=4, scale_increment=1, refval_factor=10)
    state.new_nbytes = 4
    state.data_not_present_count = 2
    state.status_qa_info_follows = QA_INFO_PROCESSING
    state.bitmap = [0, 1]
    state.bitmapped_descriptors = [(0, 'x')]
    state.bitmap_definition_state = BITMAP_BIT_COUNTING
    state.most_recent_bitmap_is_for_reuse = True
    state.n_031031 = 2
    state.next_bitmapped_descriptor = lambda: (0, 'x')
    state.back_reference_boundary = 5
    state.back_referenced_descriptors = [(0, 'x'), (1, 'y')]


def assert_neutral(state):
    for name, value in NEUTRAL.items():
        got = getattr(state, name)
        assert got == value and type(got) is type(value), (name, got, value)


def unit_checks():
    for n_subsets in (1, 2, 5):
        state = CoderState(False, n_subsets)
        keys_before = list(vars(state))
        for idx in list(range(n_subsets)) + list(range(n_subsets - 1, -1, -1)):
            dirty(state)
            old_associated, old_refvals = state.nbits_of_associated, state.new_refvals
            result = state.switch_subset_context(idx)
            assert result is None
            assert state.idx_subset == idx
            assert_neutral(state)
            # fresh mutable objects, never the ones of the previous subset
            assert state.nbits_of_associated is not old_associated
            assert state.new_refvals is not old_refvals
            assert old_associated == [8, 4] and old_refvals == {12001: -50}
            # the containers are THE per subset objects, not copies
            assert state.decoded_descriptors is state.decoded_descriptors_all_subsets[idx]
            assert state.decoded_values is state.decoded_values_all_subsets[idx]
            assert state.bitmap_links is state.bitmap_links_all_subsets[idx]
            # no attribute appears, disappears or moves
            assert list(vars(state)) == keys_before
        # the per subset containers stay pairwise distinct for uncompressed data
        for a, b in itertools.combinations(range(n_subsets), 2):
            assert state.decoded_descriptors_all_subsets[a] is not state.decoded_descriptors_all_subsets[b]
            assert state.bitmap_links_all_subsets[a] is not state.bitmap_links_all_subsets[b]
            assert state.decoded_values_all_subsets[a] is not state.decoded_values_all_subsets[b]

    # what is appended after a switch lands in that subset only
    state = CoderState(False, 3)
    for idx in (2, 0, 1):
        state.switch_subset_context(idx)
        state.decoded_values.append(idx)
        state.decoded_descriptors.append('d%d' % idx)
        state.bitmap_links[idx] = idx
    assert state.decoded_values_all_subsets == [[0], [1], [2]]
    assert state.decoded_descriptors_all_subsets == [['d0'], ['d1'], ['d2']]
    assert state.bitmap_links_all_subsets == [{0: 0}, {1: 1}, {2: 2}]

    # negative index: plain python indexing, last subset
    state = CoderState(False, 3)
    state.switch_subset_context(-1)
    assert state.idx_subset == -1 and state.decoded_values is state.decoded_values_all_subsets[2]

    # encoder flavour: the values are the ones handed in
    given = [[1, 2], [3]]
    state = CoderState(False, 2, given)
    state.switch_subset_context(1)
    assert state.decoded_values is given[1] and state.idx_value == 0

    # compressed: every subset shares the same descriptors and links
    state = CoderState(True, 3)
    dirty(state)
    state.switch_subset_context(2)
    assert_neutral(state)
    assert state.decoded_descriptors is state.decoded_descriptors_all_subsets[0]
    assert state.decoded_values is state.decoded_values_all_subsets[2]

    # error: index out of range. The subset index and the new reference values
    # are already changed, nothing else is.
    state = CoderState(False, 2)
    state.switch_subset_context(1)
    dirty(state)
    try:
        state.switch_subset_context(2)
    except IndexError:
        pass
    else:
        raise AssertionError('IndexError expected')
    assert state.idx_subset == 2 and state.new_refvals == {}
    assert state.decoded_descriptors is state.decoded_descriptors_all_subsets[1]
    assert state.decoded_values is state.decoded_values_all_subsets[1]
    assert state.bitmap_links is state.bitmap_links_all_subsets[1]
    assert state.idx_value == 17 and state.nbits_offset == 6 and state.n_031031 == 2
    assert state.bitmap == [0, 1] and state.back_reference_boundary == 5
    assert state.status_qa_info_follows == QA_INFO_PROCESSING

    # error: fewer value lists than subsets (encoder input). The descriptors are
    # switched before the failure, the values and links are not.
    state = CoderState(False, 2, [[1, 2, 3]])
    dirty(state)
    try:
        state.switch_subset_context(1)
    except IndexError:
        pass
    else:
        raise AssertionError('IndexError expected')
    assert state.decoded_descriptors is state.decoded_descriptors_all_subsets[1]
    assert state.decoded_values is state.decoded_values_all_subsets[0]
    assert state.bitmap_links is state.bitmap_links_all_subsets[0]
    assert state.idx_value == 17 and state.data_not_present_count == 2

    # error: no subset at all / nonsensical index
    state = CoderState(False, 0)
    for bad, exc in ((0, IndexError), ('a', TypeError), (None, TypeError), (1.0, TypeError)):
        try:
            state.switch_subset_context(bad)
        except exc:
            assert state.idx_subset == bad or bad != bad
        else:
            raise AssertionError('%s expected for %r' % (exc.__name__, bad))


# ---------------------------------------------------------------------------
# Part 2: whole messages. Every subset alone == the same subset in company.
# ---------------------------------------------------------------------------
def make_message(descriptors, subsets):
    return [["BUFR", 0, 4],
            [22, 0, 1, 0, 0, False, '0000000', 2, 4, 0, 18, 0, 2016, 2, 18, 23, 0, 0],
            [0, '00000000', len(subsets), True, False, '000000', list(descriptors)],
            [0, '00000000', [list(s) for s in subsets]],
            ["7777"]]


def views(msg):
    td = msg.template_data.value
    nested = NestedJsonRenderer().render(msg)[-2][-1]['value']
    assert len(nested) == len(td.decoded_values_all_subsets)
    return [(list(td.decoded_values_all_subsets[i]),
             [(type(d).__name__, d.id) for d in td.decoded_descriptors_all_subsets[i]],
             dict(td.bitmap_links_all_subsets[i]),
             json.dumps(nested[i], sort_keys=True, default=repr))
            for i in range(len(nested))]


def roundtrip(descriptors, subsets, cache=None):
    enc = Encoder(compiled_template_cache_max=cache).process(json.dumps(make_message(descriptors, subsets)))
    dec = Decoder(compiled_template_cache_max=cache).process(enc.serialized_bytes)
    return views(enc), views(dec), enc.serialized_bytes


def check_independence(descriptors, subsets, cache=None, max_orders=40):
    alone = [roundtrip(descriptors, [s], cache) for s in subsets]
    n_orders = 0
    for r in range(2, len(subsets) + 1):
        for order in itertools.permutations(range(len(subsets)), r):
            n_orders += 1
            if n_orders > max_orders:
                return
            enc, dec, _ = roundtrip(descriptors, [subsets[i] for i in order], cache)
            assert len(enc) == len(dec) == len(order)
            for pos, i in enumerate(order):
                assert enc[pos] == alone[i][0][0], ('encoder', descriptors, order, pos)
                assert dec[pos] == alone[i][1][0], ('decoder', descriptors, order, pos)


def ta_subset(temps, bits, temps2=(271.5, 272.5), bits2=(0, 1)):
    z, z2 = list(bits).count(0), list(bits2).count(0)
    return ([len(temps)] + list(temps) + [0, 0, len(bits)] + list(bits) + [1, 2, z] + [50 + k for k in range(z)]
            + [0, 0, 3, 4, 4, z] + [200.5 + k for k in range(z)] + [0]
            + list(temps2) + [0, len(bits2)] + list(bits2) + [5, 6, z2] + [70 + k for k in range(z2)])


# delayed replication before a bitmap, bitmap reuse (236000/237000), first order
# statistics markers, 237255 and 235000 cancellations, then a second, direct bitmap
TA = [101000, 31001, 12001, 222000, 236000, 101000, 31001, 31031, 1031, 1032, 101000, 31001, 33007,
      224000, 237000, 1031, 1032, 8023, 101000, 31001, 224255, 237255, 235000,
      12001, 12001, 222000, 101000, 31001, 31031, 1031, 1032, 101000, 31001, 33007]
TA_SUBSETS = [ta_subset([280.5, 281.5, 282.5], [0, 1, 0]),
              ta_subset([250.0], [0, 0], bits2=(1, 0)),
              ta_subset([260.0, 261.0, 262.0, 263.0, 264.0], [1, 1, 0, 1, 1], bits2=(0, 0)),
              ta_subset([], [0])]

# 203: the new reference value is still in force when the subset ends
TB = [101000, 31001, 12001, 203010, 12001, 203255, 101000, 31001, 12001]
TB_SUBSETS = [[1, 280.0, -50, 2, 10.0, 20.0], [0, 20, 1, 5.5], [3, 1.0, 2.0, 3.0, 0, 0]]

# 201, 202, 208, 204, 207 are all still in force when the subset ends
TC = [12001, 1015, 201134, 202129, 12001, 208004, 1015, 204008, 31021, 12001, 207001, 12001]
TC_SUBSETS = [[280.5, 'STATION A', 250.55, 'ABCD', 1, 3, 260.25, 7, 270.125],
              [180.5, None, None, 'WXYZ', 2, None, None, None, 170.0],
              [None, 'B', 1.0, None, 63, 255, 2.0, 0, None]]

# 221: one "data not present" still to go when the subset ends
TD = [12001, 1001, 221003, 1001, 12001]
TD_SUBSETS = [[280.5, 94, 95], [None, 1, 2], [100.0, None, None]]

# the template ends in the middle of a bitmap definition
TE = [101000, 31001, 12001, 222000, 236000, 101000, 31001, 31031]
TE_SUBSETS = [[2, 280.5, 281.5, 0, 0, 3, 0, 1, 0], [0, 0, 0, 1, 1], [1, 200.0, 0, 0, 0]]

# the template ends while 222000 waits for its class 33 values, and starts with one
TF = [33007, 12001, 12001, 222000, 101000, 31001, 31031, 1031]
TF_SUBSETS = [[10, 280.5, 281.5, 0, 2, 0, 1, 7], [None, 1.0, 2.0, 0, 3, 1, 1, 0, 8], [99, None, None, 0, 1, 0, 9]]


def message_checks():
    check_independence(TA, TA_SUBSETS, max_orders=40)
    check_independence(TA, TA_SUBSETS, cache=4, max_orders=10)
    for descriptors, subsets in ((TB, TB_SUBSETS), (TC, TC_SUBSETS), (TD, TD_SUBSETS),
                                 (TE, TE_SUBSETS), (TF, TF_SUBSETS)):
        check_independence(descriptors, subsets)
        check_independence(descriptors, subsets, cache=4)

    # spot check of absolute results, so that "equal" is not "equally wrong"
    _, dec, _ = roundtrip(TA, TA_SUBSETS)
    assert dec[0][2] == {13: 1, 14: 3, 21: 1, 22: 3, 33: 24}
    assert dec[1][2] == {10: 0, 11: 1, 18: 0, 19: 1, 30: 22}
    assert dec[2][2] == {17: 3, 24: 3, 35: 26, 36: 27}
    assert dec[3][2] == {8: 0, 15: 0, 26: 17}
    _, dec, _ = roundtrip(TB, TB_SUBSETS)
    assert dec[0][0] == [1, 280.0, -50, 2, 10.0, 20.0]
    assert dec[1][0] == [0, 20, 1, 5.5]
    assert dec[2][0] == [3, 1.0, 2.0, 3.0, 0, 0]
    _, dec, _ = roundtrip(TD, TD_SUBSETS)
    assert [v[0] for v in dec] == [[280.5, 94, 95], [None, 1, 2], [100.0, None, None]]
    assert all(len(v[1]) == 3 for v in dec)

    # error cases are errors in any company, and a bad subset does not spoil
    # the ones before it
    good = TA_SUBSETS[0]
    too_long_bitmap = ta_subset([250.0], [0, 0, 0])  # 3 bits, 2 elements to refer to
    no_factor = [None] + good[1:]
    for bad in (too_long_bitmap, no_factor):
        for subsets in ([bad], [good, bad], [bad, good], [good, good, bad]):
            try:
                Encoder().process(json.dumps(make_message(TA, subsets)))
            except PyBufrKitError:
                pass
            else:
                raise AssertionError('PyBufrKitError expected')
    # the decoder is told of one subset more than there is data for: the error
    # comes from the last subset, whatever came before
    for subsets in ([good], [good, TA_SUBSETS[1]], [TA_SUBSETS[2], good, TA_SUBSETS[3]]):
        _, _, data = roundtrip(TA, subsets)
        data = bytearray(data)
        assert data[34:36] == bytes([0, len(subsets)])  # number of subsets in section 3
        data[35] += 1
        for cache in (None, 4):
            try:
                Decoder(compiled_template_cache_max=cache).process(bytes(data))
            except PyBufrKitError:
                pass
            else:
                raise AssertionError('PyBufrKitError expected')
    # a message without subsets
    enc, dec, _ = roundtrip(TA, [])
    assert enc == [] and dec == []
    # sample file with two subsets of different replication counts
    with open(os.path.join('tests', 'data', 'contrived.bufr'), 'rb') as ins:
        msg = Decoder().process(ins.read())
    v = views(msg)
    assert len(v) == 2 and v[0] != v[1] and len(v[0][0]) == len(v[1][0]) == 20


if __name__ == '__main__':
    unit_checks()
    message_checks()
    print('demo 1: OK')
