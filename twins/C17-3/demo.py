import os, sys; sys.path.insert(0, os.getcwd())
import glob
import json
import logging

import pybufrkit
assert os.path.dirname(os.path.abspath(pybufrkit.__file__)) == os.path.join(os.getcwd(), 'pybufrkit'), \
    'run from the worktree root'

from pybufrkit.errors import PyBufrKitError, MetadataExprParsingError
from pybufrkit.bufr import BufrMessage, BufrSection, SectionParameter, SectionConfigurer
from pybufrkit.decoder import Decoder, generate_bufr_message
from pybufrkit.encoder import Encoder
from pybufrkit.mdquery import MetadataExprParser, MetadataQuerent

DEFINITIONS_DIR = os.path.join('pybufrkit', 'definitions')
DATA_DIR = os.path.join('tests', 'data')


def build_message(edition, with_s2, n_subsets=2):
    """Encode a tiny message (descriptors 001001, 001002) of the given edition."""
    s0 = ['BUFR', 0, edition]
    head = [0, 0]  # section_length, master_table_number
    if edition == 2:
        centre = [98]
    elif edition == 3:
        centre = [7, 98]  # sub-centre, centre
    else:
        centre = [98, 7]  # centre, sub-centre
    category = [2, 1, 4] if edition == 4 else [2, 4]
    year = 2024 if edition == 4 else 24
    s1 = head + centre + [3, with_s2, '0000000'] + category + [13, 0, year, 5, 17, 11, 45, 9]
    sections = [s0, s1]
    if with_s2:
        sections.append([0, '00000000', '1010101111001101'])
    sections.append([0, '00000000', n_subsets, True, False, '000000', [1001, 1002]])
    sections.append([0, '00000000', [[(i + 5) % 100, 100 + i] for i in range(n_subsets)]])
    sections.append(['7777'])
    return Encoder().process(json.dumps(sections)).serialized_bytes


def read_data(name):
    with open(os.path.join(DATA_DIR, name), 'rb') as ins:
        return ins.read()


def all_message_bytes():
    """(label, bytes) for editions 2, 3, 4 with and without section 2 plus real samples."""
    out = []
    for edition in (2, 3, 4):
        for with_s2 in (False, True):
            out.append(('built-e{}-s2{}'.format(edition, int(with_s2)), build_message(edition, with_s2)))
    for name in ('jaso_214.bufr', '207003.bufr', 'contrived.bufr', 'uegabe.bufr'):
        out.append((name, read_data(name)))
    return out


def all_parameter_names():
    names = set()
    for path in glob.glob(os.path.join(DEFINITIONS_DIR, 'section*.json')):
        with open(path) as ins:
            for parameter in json.load(ins)['parameters']:
                names.add(parameter['name'])
    assert {'length', 'edition', 'section_length', 'originating_subcentre', 'data_i18n_subcategory',
            'local_bits', 'unexpanded_descriptors', 'template_data', 'stop_signature'} <= names
    return sorted(names)


def oracle(bufr_message, section_index, name):
    """The value the property demands, computed without the library's query code."""
    for section in bufr_message.sections:
        if section_index is not None and section.get_metadata('index') != section_index:
            continue
        if name in section:
            return getattr(section, name).value
    return None


def section_values(section):
    return [(p.name, p.type, p.nbits, p.value) for p in section]


def raises(exc_type, func, *args, **kwargs):
    try:
        func(*args, **kwargs)
    except Exception as e:  # noqa
        assert type(e) is exc_type, 'expected {} got {!r}'.format(exc_type.__name__, e)
        return e
    raise AssertionError('expected {} but nothing was raised'.format(exc_type.__name__))


# ---------------------------------------------------------------- demo 3: SectionConfigurer.get_configuration
import pybufrkit.bufr as bufr_module

configurer = SectionConfigurer()
DEFAULT = bufr_module.DEFAULT_SECTION_EDITION
assert DEFAULT == 0
assert sorted(configurer.configurations) == [0, 1, 2, 3, 4, 5]
assert sorted(configurer.configurations[1]) == [0, 1, 2, 3, 4]
assert configurer.configurations[1][0] is configurer.configurations[1][4]     # edition 4 is the default
for i in (0, 2, 3, 4, 5):
    assert sorted(configurer.configurations[i]) == [0]


class Records(logging.Handler):
    def __init__(self):
        logging.Handler.__init__(self)
        self.records = []

    def emit(self, record):
        self.records.append((record.levelno, record.getMessage()))


handler = Records()
bufr_module.log.addHandler(handler)
old_level = bufr_module.log.level
bufr_module.log.setLevel(logging.DEBUG)


class FakeMessage(object):
    """Only what get_configuration looks at."""

    def __init__(self, edition_value=None, has_edition=True):
        self.edition = SectionParameter('edition', 8, 'uint', None, True, edition_value) if has_edition else None


def expected_key(section_index, edition_value):
    configs = configurer.configurations[section_index]
    return edition_value if edition_value in configs and edition_value else DEFAULT


cases = [(None, False)] + [(v, True) for v in (None, 0, 1, 2, 3, 4, 5, 255, False, True)]
for section_index in range(6):
    for edition_value, has_edition in cases:
        msg = FakeMessage(edition_value, has_edition)
        del handler.records[:]
        config = configurer.get_configuration(msg, section_index)
        key = expected_key(section_index, edition_value)
        # the very object that was loaded from the JSON file, neither a copy nor modified
        assert config is configurer.configurations[section_index][key], (section_index, edition_value)
        assert config['index'] == section_index
        label = 'default' if not edition_value else edition_value
        assert handler.records == [
            (logging.INFO, 'Configure Section {} of edition {}'.format(section_index, label))
        ], handler.records

# edition specific layouts of section 1
layout = {e: [p['name'] for p in configurer.get_configuration(FakeMessage(e), 1)['parameters']]
          for e in (1, 2, 3, 4)}
assert 'section_length' not in layout[1] and layout[2][0] == layout[3][0] == layout[4][0] == 'section_length'
assert 'originating_subcentre' not in layout[2]
assert layout[3].index('originating_subcentre') < layout[3].index('originating_centre')
assert layout[4].index('originating_centre') < layout[4].index('originating_subcentre')
assert 'data_i18n_subcategory' in layout[4] and 'data_i18n_subcategory' not in layout[3]
assert [p['name'] for p in configurer.get_configuration(BufrMessage(), 1)['parameters']] == layout[4]

# unknown section index: KeyError, raised after the log line was written
for bad_index in (6, -1, 9, '1', None):
    del handler.records[:]
    e = raises(KeyError, configurer.get_configuration, FakeMessage(3), bad_index)
    assert e.args == (bad_index,)
    assert handler.records == [(logging.INFO, 'Configure Section {} of edition 3'.format(bad_index))]
# a message object without the attribute at all
raises(AttributeError, configurer.get_configuration, object(), 1)
# a section whose table has no default entry: KeyError(0) even when the edition itself is there
lonely = SectionConfigurer()
lonely.configurations = {1: {3: configurer.configurations[1][3]}}
assert raises(KeyError, lonely.get_configuration, FakeMessage(3), 1).args == (0,)
assert raises(KeyError, lonely.get_configuration, FakeMessage(None, False), 1).args == (0,)
# an unhashable edition value
raises(TypeError, configurer.get_configuration, FakeMessage([3]), 1)

bufr_module.log.removeHandler(handler)
bufr_module.log.setLevel(old_level)

# end to end: metadata-only decode and full decode pick the same layouts
querent = MetadataQuerent(MetadataExprParser())
for label, data in all_message_bytes():
    full = Decoder().process(data)
    info = Decoder().process(data, info_only=True)
    edition = full.edition.value
    assert [p.name for p in full.sections[1]] == layout[edition] == [p.name for p in info.sections[1]]
    assert [s.get_metadata('index') for s in info.sections] == \
           [s.get_metadata('index') for s in full.sections][:-1]
    for s_full, s_info in zip(full.sections, info.sections):
        if s_full.get_metadata('index') <= 3:
            assert section_values(s_full) == section_values(s_info)
    for name in all_parameter_names():
        if name in ('template_data', 'stop_signature'):
            continue
        assert querent.query(full, '%' + name) == querent.query(info, '%' + name) == oracle(full, None, name)

print('demo 3 ok')
