import os, sys; sys.path.insert(0, os.getcwd())
"""
Differential demonstration for refactor 5 (tables.py: template construction from a list of IDs).

Everything the library builds from a list of descriptor IDs is compared with results obtained
without the library's construction code:

 1. an index/slice based expansion of ID lists written here (reads TableD.json itself),
    compared with the trees built by BufrTableGroup.descriptors_from_ids / template_from_ids /
    lookup on hand chosen ID lists (every branch: B, C, D, fixed and delayed replication, nesting,
    zero items, truncated member lists, missing replication factors, IDs given as strings/floats,
    undefined IDs, unparsable IDs) and on every Table D entry of the bundled master table and on
    the templates of all sample messages of tests/data and tests/benchmark_data;
 2. two hand made messages (uncompressed and compressed, nested fixed/delayed replication, zero
    counts) whose expected values and labels are written down by hand from the bits put in.

Exits 0 when everything agrees, 1 otherwise.
"""
import glob
import json
import logging

from pybufrkit.decoder import Decoder
from pybufrkit.errors import PyBufrKitError
from pybufrkit.tables import TableGroupCacheManager
from pybufrkit.descriptors import (ElementDescriptor, FixedReplicationDescriptor,
                                   DelayedReplicationDescriptor, OperatorDescriptor,
                                   SequenceDescriptor, UndefinedElementDescriptor,
                                   UndefinedSequenceDescriptor, BufrTemplate)

logging.getLogger().setLevel(logging.ERROR)  # the fallbacks of the table lookup are of no interest here

FAILURES = []
N_CHECKS = [0]


def check(what, got, expected):
    N_CHECKS[0] += 1
    if got != expected:
        FAILURES.append(what)
        print('FAIL {}\n   got      {!r}\n   expected {!r}'.format(what, got, expected))


# ----------------------------------------------------------------------------------------------
# Independent expansion of ID lists (index and slice based, no iterators)
# ----------------------------------------------------------------------------------------------
class MissingFactor(Exception):
    pass


class Oracle(object):
    def __init__(self, key):
        def load(sn, fname):
            with open(os.path.join(key.tables_root_dir, *(sn + (fname,)))) as ins:
                return dict((int(k), v) for k, v in json.load(ins).items())

        self.b_ids = set(load(key.wmo_tables_sn, 'TableB.json'))
        self.d_wmo = load(key.wmo_tables_sn, 'TableD.json')
        self.d_local = {}
        if key.local_tables_sn:
            self.b_ids |= set(load(key.local_tables_sn, 'TableB.json'))
            self.d_local = load(key.local_tables_sn, 'TableD.json')

    def sequence(self, id_, local_scope):
        """Sequences of the master table only see the master table, local ones see both."""
        if local_scope and id_ in self.d_local:
            return ('S', id_, self.expand([int(i) for i in self.d_local[id_][1]], True))
        if id_ in self.d_wmo:
            return ('S', id_, self.expand([int(i) for i in self.d_wmo[id_][1]], False))
        return ('US', id_)

    def expand(self, ids, local_scope=True):
        out = []
        pos = 0
        while pos < len(ids):
            id_ = ids[pos]
            pos += 1
            if id_ >= 300000:
                out.append(self.sequence(id_, local_scope))
            elif id_ >= 200000:
                out.append(('O', id_))
            elif id_ >= 100000:
                n_items = id_ // 1000 % 100
                factor = None
                if id_ % 1000 == 0:
                    if pos >= len(ids):
                        raise MissingFactor(id_)
                    factor = ids[pos]
                    pos += 1
                group = ids[pos: pos + n_items]
                pos += len(group)
                out.append(('D' if id_ % 1000 == 0 else 'F', id_, factor, self.expand(group, local_scope)))
            else:
                out.append(('E' if id_ in self.b_ids else 'UE', id_))
        return out


def tree(descriptors):
    """What the library built, in the notation of the oracle."""
    out = []
    for d in descriptors:
        t = type(d)
        if t is ElementDescriptor:
            out.append(('E', d.id))
        elif t is UndefinedElementDescriptor:
            out.append(('UE', d.id))
        elif t is OperatorDescriptor:
            out.append(('O', d.id))
        elif t is SequenceDescriptor:
            out.append(('S', d.id, tree(d.members)))
        elif t is UndefinedSequenceDescriptor:
            out.append(('US', d.id))
        elif t is FixedReplicationDescriptor:
            out.append(('F', d.id, None, tree(d.members)))
        elif t is DelayedReplicationDescriptor:
            assert d.factor is None or type(d.factor) in (ElementDescriptor, UndefinedElementDescriptor)
            out.append(('D', d.id, None if d.factor is None else d.factor.id, tree(d.members)))
        else:
            out.append(('?', t.__name__, d.id))
    return out


# ----------------------------------------------------------------------------------------------
# 1. ID lists
# ----------------------------------------------------------------------------------------------
table_group = TableGroupCacheManager.get_table_group()  # bundled master table, version 33
oracle = Oracle(table_group.key)

ID_LISTS = [
    [],
    [1001],
    [1001, 1002, 2001],
    [301001],
    [301025, 302001],  # sequence within sequence
    [201130, 10004, 201000, 202129, 12001, 202000],
    [205008, 206012, 63255, 207002, 208003, 221003, 222000, 236000, 237000, 237255, 235000, 243001],
    [102003, 1001, 1002],  # fixed replication
    [101000, 31001, 1001],  # delayed replication
    [103000, 31001, 1002, 101002, 12001, 301001, 1015],  # fixed within delayed
    [106000, 31001, 1001, 104002, 2001, 101000, 31000, 12001, 1026],  # delayed within fixed within delayed
    [104002, 101000, 31001, 101003, 1001, 1002],  # fixed within delayed within fixed
    [102000, 31002, 301011, 201129, 1001],  # sequence and operator as members
    [100002, 1001],  # fixed replication of zero items
    [100000, 31001, 1001],  # delayed replication of zero items
    [103002, 1001],  # fewer members than announced
    [103002],  # no member at all
    [102000, 31001],  # factor, no members
    [102002, 1001, 103004, 1002],  # the inner replication is cut short by the outer one
    [103002, 1001, 101000, 31001, 2001, 1002],  # inner members fall outside the outer group
    [63255, 399999, 1001],  # undefined element, undefined sequence
    [-5, 400000, 999999],  # out of range IDs
    [131000, 31002] + list(range(1001, 1032)),  # the widest group
]
for ids in ID_LISTS:
    check('descriptors_from_ids{}'.format(ids), tree(table_group.descriptors_from_ids(*ids)),
          oracle.expand(ids))
    template = table_group.template_from_ids(*ids)
    check('template_from_ids{}'.format(ids), (type(template) is BufrTemplate, tree(template.members)),
          (True, oracle.expand(ids)))

# IDs as strings of digits, floats, and a mixture
for ids, as_ints in [
    (['001001', '103000', '031001', '001002', '101002', '012001', '301001'],
     [1001, 103000, 31001, 1002, 101002, 12001, 301001]),
    ([1001.0, '101000', 31001.0, 2001, '399999', '063255'], [1001, 101000, 31001, 2001, 399999, 63255]),
    (('301001',), [301001]),
]:
    check('descriptors_from_ids{}'.format(ids), tree(table_group.descriptors_from_ids(*ids)),
          oracle.expand(as_ints))

# A delayed replication without its factor: at the very end, and at the end of an enclosing group
for ids in [
    [101000],
    [1001, 102000],
    [101002, 101000, 31001, 1001],  # the factor is outside the group of the outer replication
    [102000, 31001, 1001, 101000, 31001, 1002],  # same, delayed within delayed
    ['101000'],
]:
    try:
        oracle.expand([int(i) for i in ids])
        expected = 'no error'
    except MissingFactor as e:
        expected = ('PyBufrKitError', 'Delayed replication descriptor {} is not followed by a replication '
                                      'factor'.format(e.args[0]))
    try:
        got = tree(table_group.descriptors_from_ids(*ids))
    except Exception as e:
        got = (type(e).__name__, getattr(e, 'message', None))
    check('missing factor {}'.format(ids), got, expected)

# IDs that are no numbers: the error of int() comes out, wherever the ID stands
for ids, exc in [
    (['abc'], ValueError), ([1001, 'x1'], ValueError), ([102001, 1001, '1.5'], ValueError),
    ([101000, 'zz'], ValueError), ([102002, 1001, None], TypeError), ([None], TypeError),
    ([301001, [1]], TypeError),
]:
    try:
        got = tree(table_group.descriptors_from_ids(*ids))
    except Exception as e:
        got = type(e)
    check('unparsable {}'.format(ids), got, exc)

# Replication descriptors are made afresh every time, the others are shared
a = table_group.descriptors_from_ids(101000, 31001, 1001, 301001, 201130)
b = table_group.descriptors_from_ids(101000, 31001, 1001, 301001, 201130)
check('identity', (a[0] is b[0], a[0].factor is b[0].factor, a[0].members[0] is b[0].members[0],
                   a[1] is b[1], a[2] is b[2], a[1] is table_group.lookup(301001),
                   a[0].members[0] is table_group.lookup(1001), a[2] is table_group.lookup('201130')),
      (False, True, True, True, True, True, True, True))

# lookup(): one descriptor, no factor, no members
for id_, expected in [
    (1001, ('ElementDescriptor', 1001)), ('001001', ('ElementDescriptor', 1001)),
    (31031, ('ElementDescriptor', 31031)), (99999, ('UndefinedElementDescriptor', 99999)),
    (63255, ('UndefinedElementDescriptor', 63255)), (-1, ('UndefinedElementDescriptor', -1)),
    (0, ('UndefinedElementDescriptor', 0)),
    (100000, ('DelayedReplicationDescriptor', 100000)), (101000, ('DelayedReplicationDescriptor', 101000)),
    ('105000', ('DelayedReplicationDescriptor', 105000)),
    (101001, ('FixedReplicationDescriptor', 101001)), (199999, ('FixedReplicationDescriptor', 199999)),
    (200000, ('OperatorDescriptor', 200000)), (201130, ('OperatorDescriptor', 201130)),
    ('225255', ('OperatorDescriptor', 225255)), (299999, ('OperatorDescriptor', 299999)),
    (300000, ('UndefinedSequenceDescriptor', 300000)), (301001, ('SequenceDescriptor', 301001)),
    ('301001', ('SequenceDescriptor', 301001)), (399999, ('UndefinedSequenceDescriptor', 399999)),
    (400000, ('UndefinedSequenceDescriptor', 400000)), (301001.0, ('SequenceDescriptor', 301001)),
    (True, ('ElementDescriptor', 1)), (False, ('UndefinedElementDescriptor', 0)),
]:
    d = table_group.lookup(id_)
    check('lookup({!r})'.format(id_), (type(d).__name__, d.id), expected)
    if expected[0].endswith('ReplicationDescriptor'):
        check('lookup({!r}) is bare'.format(id_), (d.members, getattr(d, 'factor', None)), (None, None))
for id_, exc in [('abc', ValueError), (None, TypeError), ('', ValueError)]:
    try:
        got = table_group.lookup(id_)
    except Exception as e:
        got = type(e)
    check('lookup({!r})'.format(id_), got, exc)

# Every Table D entry of the bundled master table (built by TableD.__init__ through the same code)
n_sequences = 0
for id_ in sorted(oracle.d_wmo):
    n_sequences += 1
    check('Table D {}'.format(id_), tree([table_group.lookup(id_)]), [oracle.sequence(id_, True)])
check('number of Table D entries', n_sequences, 588)


# ----------------------------------------------------------------------------------------------
# 2. Messages
# ----------------------------------------------------------------------------------------------
def uint_bytes(value, nbytes):
    return bytes(bytearray((value >> (8 * (nbytes - 1 - i))) & 0xff for i in range(nbytes)))


def pack_bits(fields):
    """fields: (value, nbits) with value an unsigned integer or a bytes string."""
    bits = ''
    for value, nbits in fields:
        if isinstance(value, bytes):
            assert len(value) * 8 == nbits
            bits += ''.join('{:08b}'.format(c) for c in bytearray(value))
        else:
            assert 0 <= value < (1 << nbits)
            bits += '{:0{}b}'.format(value, nbits)
    bits += '0' * (-len(bits) % 8)
    return bytes(bytearray(int(bits[i:i + 8], 2) for i in range(0, len(bits), 8)))


def make_message(ids, n_subsets, compressed, fields):
    """An edition 4 message of master table version 33 without section 2."""
    section1 = (uint_bytes(22, 3) + uint_bytes(0, 1) + uint_bytes(0, 2) + uint_bytes(0, 2) + uint_bytes(0, 1) +
                uint_bytes(0, 1) + uint_bytes(0, 1) + uint_bytes(0, 1) + uint_bytes(0, 1) +
                uint_bytes(33, 1) + uint_bytes(0, 1) +
                uint_bytes(2020, 2) + uint_bytes(1, 1) + uint_bytes(2, 1) + uint_bytes(3, 1) +
                uint_bytes(4, 1) + uint_bytes(5, 1))
    descriptors = b''.join(uint_bytes(((i // 100000) << 14) | ((i // 1000 % 100) << 8) | (i % 1000), 2)
                           for i in ids)
    section3 = (uint_bytes(7 + len(descriptors), 3) + uint_bytes(0, 1) + uint_bytes(n_subsets, 2) +
                uint_bytes(0x80 | (0x40 if compressed else 0), 1) + descriptors)
    data = pack_bits(fields)
    section4 = uint_bytes(4 + len(data), 3) + uint_bytes(0, 1) + data
    total = 8 + len(section1) + len(section3) + len(section4) + 4
    return b'BUFR' + uint_bytes(total, 3) + uint_bytes(4, 1) + section1 + section3 + section4 + b'7777'


def decoded(message_bytes, **kwargs):
    message = Decoder(**kwargs).process(message_bytes)
    td = message.template_data.value
    return ([[str(d) for d in ds] for ds in td.decoded_descriptors_all_subsets],
            td.decoded_values_all_subsets,
            tree(message.build_template(Decoder().tables_root_dir)[0].members))


def num(raw, scale, ref=0):
    return (raw + ref) / 10.0 ** scale if scale else raw + ref


# Uncompressed, two subsets, fixed within delayed, second subset with a zero count
ids_1 = [1001, 103000, 31001, 1002, 101002, 12001, 301001, 201130, 10004, 201000, 1015]
name_1, name_2 = b'STATION ONE'.ljust(20), b'\xff' * 20
fields_1 = [
    # subset 1: two repetitions
    (99, 7), (2, 8),
    (512, 10), (2731, 12), (4095, 12),
    (1023, 10), (0, 12), (1, 12),
    (5, 7), (7, 10), (10132, 16), (name_1, 160),
    # subset 2: none
    (127, 7), (0, 8),
    (0, 7), (0, 10), (65535, 16), (name_2, 160),
]
labels_1 = [
    ['001001', '031001', '001002', '012001', '012001', '001002', '012001', '012001',
     '001001', '001002', '010004', '001015'],
    ['001001', '031001', '001001', '001002', '010004', '001015'],
]
values_1 = [
    [99, 2, 512, num(2731, 1), None, None, num(0, 1), num(1, 1), 5, 7, num(10132, -1), name_1],
    [None, 0, 0, 0, None, name_2],
]
tree_1 = [('E', 1001),
          ('D', 103000, 31001, [('E', 1002), ('F', 101002, None, [('E', 12001)])]),
          ('S', 301001, [('E', 1001), ('E', 1002)]),
          ('O', 201130), ('E', 10004), ('O', 201000), ('E', 1015)]
message_1 = make_message(ids_1, 2, False, fields_1)
for kwargs in ({}, {'compiled_template_cache_max': 10}):
    labels, values, built = decoded(message_1, **kwargs)
    check('message 1 labels {}'.format(kwargs), labels, labels_1)
    check('message 1 values {}'.format(kwargs), values, values_1)
    check('message 1 value types {}'.format(kwargs),
          [[type(v) for v in vs] for vs in values], [[type(v) for v in vs] for vs in values_1])
    check('message 1 template {}'.format(kwargs), built, tree_1)
    check('message 1 template, oracle {}'.format(kwargs), built, oracle.expand(ids_1))

# Compressed, three subsets, delayed within fixed within delayed; the second inner count is zero
ids_2 = [106000, 31001, 1001, 104002, 2001, 101000, 31000, 12001, 1026]
storm = [b'ALPHA   ', b'BETA    ', b'\xff' * 8]
fields_2 = [
    (1, 8), (0, 6),  # 031001: one repetition, in all subsets
    (10, 7), (3, 6), (0, 3), (5, 3), (7, 3),  # 001001: 10, 15, missing
    # first repetition of 104002
    (1, 2), (0, 6),  # 002001: all 1
    (1, 1), (0, 6),  # 031000: one repetition
    (2700, 12), (1, 6), (0, 1), (1, 1), (0, 1),  # 012001: one bit increments, 1 is missing
    # second repetition of 104002
    (0, 2), (2, 6), (1, 2), (3, 2), (2, 2),  # 002001: 1, missing, 2
    (0, 1), (0, 6),  # 031000: no repetition
    (b'\0' * 8, 64), (8, 6), (storm[0], 64), (storm[1], 64), (storm[2], 64),  # 001026
]
labels_2 = [['031001', '001001', '002001', '031000', '012001', '002001', '031000', '001026']] * 3
values_2 = [
    [1, 10, 1, 1, num(2700, 1), 1, 0, storm[0]],
    [1, 15, 1, 1, None, None, 0, storm[1]],
    [1, None, 1, 1, num(2700, 1), 2, 0, storm[2]],
]
tree_2 = [('D', 106000, 31001, [('E', 1001),
                                ('F', 104002, None, [('E', 2001),
                                                     ('D', 101000, 31000, [('E', 12001)])])]),
          ('E', 1026)]
message_2 = make_message(ids_2, 3, True, fields_2)
for kwargs in ({}, {'compiled_template_cache_max': 10}):
    labels, values, built = decoded(message_2, **kwargs)
    check('message 2 labels {}'.format(kwargs), labels, labels_2)
    check('message 2 values {}'.format(kwargs), values, values_2)
    check('message 2 template {}'.format(kwargs), built, tree_2)
    check('message 2 template, oracle {}'.format(kwargs), built, oracle.expand(ids_2))

# A template whose delayed replication has no factor: the message cannot be decoded
for ids in ([1001, 101000], [101002, 101000, 31001, 1001]):
    try:
        got = decoded(make_message(ids, 1, False, [(0, 64)]))
    except Exception as e:
        got = (type(e), 'is not followed by a replication factor' in str(e))
    check('message with template {}'.format(ids), got, (PyBufrKitError, True))

# ----------------------------------------------------------------------------------------------
# 3. The templates of the sample messages
# ----------------------------------------------------------------------------------------------
n_files = n_templates = 0
oracles = {}
for path in sorted(glob.glob(os.path.join('tests', 'data', '*.bufr')) +
                   glob.glob(os.path.join('tests', 'benchmark_data', '*.bufr'))):
    n_files += 1
    with open(path, 'rb') as ins:
        s = ins.read()
    try:
        message = Decoder().process(s, info_only=True)
        template, group = message.build_template(Decoder().tables_root_dir)
    except PyBufrKitError:
        continue
    if group.key not in oracles:
        oracles[group.key] = Oracle(group.key)
    n_templates += 1
    check('template of {}'.format(path), tree(template.members),
          oracles[group.key].expand(list(message.unexpanded_descriptors.value)))
print('{} sample files, {} templates compared'.format(n_files, n_templates))
check('sample templates compared', (n_files, n_templates), (17 + 142, 17 + 142))

print('{} checks, {} failures'.format(N_CHECKS[0], len(FAILURES)))
sys.exit(1 if FAILURES else 0)
