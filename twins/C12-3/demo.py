"""
Demo for refactor 3 (pybufrkit/decoder.py: generate_bufr_message - decoding of the message at an index and
the skip-and-continue logic of the except branch).

Run as:  cd /tmp/tw_C12 && /venv/bin/python _out/3/demo.py
"""
import os, sys; sys.path.insert(0, os.getcwd())

import contextlib
import inspect
import io
import itertools

import pybufrkit
import pybufrkit.decoder as decoder_module
from pybufrkit.decoder import Decoder, generate_bufr_message
from pybufrkit.errors import PyBufrKitError, BitReadError, UnknownDescriptor

assert os.path.dirname(os.path.abspath(pybufrkit.__file__)) == os.path.join(os.getcwd(), 'pybufrkit'), \
    'wrong copy of pybufrkit imported: ' + pybufrkit.__file__

DATA = os.path.join(os.getcwd(), 'tests', 'data')


def load(name):
    with open(os.path.join(DATA, name + '.bufr'), 'rb') as ins:
        return ins.read()


class SpyDecoder(Decoder):
    """Records every call of process: (length of the string, info_only, start_signature, extra keywords)"""

    def __init__(self, *args, **kwargs):
        super(SpyDecoder, self).__init__(*args, **kwargs)
        self.calls = []

    def process(self, s, *args, **kwargs):
        self.calls.append((len(s), kwargs.get('info_only'), kwargs.get('start_signature', 'absent'),
                           args, tuple(sorted(k for k in kwargs if k not in ('info_only', 'start_signature')))))
        return super(SpyDecoder, self).process(s, *args, **kwargs)


decoder = SpyDecoder()


def layout(s):
    m = decoder.process(s)
    return {sec.get_metadata('index'): (sec.get_metadata('bitpos_start') // 8,
                                        sec.section_length.value if 'section_length' in sec else None)
            for sec in m.sections}


def content(m):
    td = m.template_data.value
    return (m.serialized_bytes,
            td.decoded_values_all_subsets,
            [[d.id for d in ds] for ds in td.decoded_descriptors_all_subsets])


def info_content(m):
    return (m.serialized_bytes, m.length.value, m.n_subsets.value, m.unexpanded_descriptors.value,
            hasattr(m, '_template_data'))


# --- the kinds of damage; the total length of the message is always intact ---------------------
def damage_stop(s):
    return s[:-4] + b'7770'


def n_descriptors(s):
    off, ln = layout(s)[3]
    return (ln - 7) // 2


def damage_descriptor(s, position, fxy):
    off, _ = layout(s)[3]
    p = off + 7 + 2 * position
    f, x, y = fxy
    return s[:p] + bytes([(f << 6) | x, y]) + s[p + 2:]


def damage_length(s, section_index, delta):
    off, ln = layout(s)[section_index]
    return s[:off] + (ln + delta).to_bytes(3, 'big') + s[off + 3:]


KINDS = [
    ('stop', damage_stop),
    ('elem', lambda s: damage_descriptor(s, 0, (0, 63, 255))),
    ('seq', lambda s: damage_descriptor(s, n_descriptors(s) - 1, (3, 63, 255))),
    ('len1-', lambda s: damage_length(s, 1, -1)),
    ('len1+', lambda s: damage_length(s, 1, 1)),
    ('len3-', lambda s: damage_length(s, 3, -2)),
    ('len3+', lambda s: damage_length(s, 3, 2)),
    ('len4-', lambda s: damage_length(s, 4, -1)),
    ('len4+', lambda s: damage_length(s, 4, 1)),
]
# which kinds leave the metadata sections (0-3 and the head of 4) decodable
INFO_DECODABLE = {'stop', 'elem', 'seq', 'len4-', 'len4+'}

NAMES = ['contrived', '207003', 'profiler_european']
ORIGINAL = [load(name) for name in NAMES]
REFERENCE = [content(decoder.process(s)) for s in ORIGINAL]
# (Decoder.process alone does not see the stop signature when info_only; the generator uses the declared length)
INFO_REFERENCE = [(s,) + info_content(decoder.process(s, info_only=True))[1:] for s in ORIGINAL]
for (sb, ln, _, _, td), s in zip(INFO_REFERENCE, ORIGINAL):
    assert decoder.process(s, info_only=True).serialized_bytes == s[:-4]
    assert ln == len(s) and td is False
VARIANTS = [[(None, s)] + [(kind, f(s)) for kind, f in KINDS] for s in ORIGINAL]
for variants, s in zip(VARIANTS, ORIGINAL):
    for kind, bad in variants[1:]:
        assert len(bad) == len(s) and bad != s and bad[:8] == s[:8]

REPORT = 'Continuing on next message and ignoring error: '


def scan(stream, **kwargs):
    """-> (delivered messages, exception or None, stderr text, calls of Decoder.process)"""
    delivered = []
    error = None
    err = io.StringIO()
    decoder.calls = []
    with contextlib.redirect_stderr(err):
        try:
            for m in generate_bufr_message(decoder, stream, **kwargs):
                delivered.append(m)
        except Exception as e:  # noqa
            error = e
    return delivered, error, err.getvalue(), decoder.calls


# ---------------------------------------------------------------------------------------------
# 0. signature and public names
# ---------------------------------------------------------------------------------------------
assert str(inspect.signature(generate_bufr_message)) == \
    '(decoder, s, info_only=False, continue_on_error=False, filter_expr=None, *args, **kwargs)'
assert inspect.isgeneratorfunction(generate_bufr_message)
assert decoder_module.__all__ == ['Decoder', 'generate_bufr_message']
assert decoder_module.DATA_CATEGORY_DEFINE_BUFR_TABLES == 11

# ---------------------------------------------------------------------------------------------
# 1. intact streams, junk around and between messages, nothing to find
# ---------------------------------------------------------------------------------------------
for stream in (b'', b'junk', b'BUF', b'\x00' * 50, b'7777'):
    for kwargs in ({}, {'continue_on_error': True}, {'info_only': True}):
        delivered, error, text, calls = scan(stream, **kwargs)
        assert (delivered, error, text, calls) == ([], None, '', [])

A, B, C = ORIGINAL
for parts in ((A,), (A, B), (A, B, C), (C, B, A), (A, A, A)):
    for glue in (b'', b'\r\r\n', b'7777', b'BUF', b'\x00\xff'):
        stream = glue + glue.join(parts) + glue
        for continue_on_error in (False, True):
            delivered, error, text, calls = scan(stream, continue_on_error=continue_on_error)
            assert error is None and text == ''
            assert [m.serialized_bytes for m in delivered] == list(parts)
            # one call per message, always on the rest of the stream, never searching for the signature
            offset = len(glue)
            expected_calls = []
            for part in parts:
                expected_calls.append((len(stream) - offset, False, None, (), ()))
                offset += len(part) + len(glue)
            assert calls == expected_calls, (calls, expected_calls)
            delivered, error, text, calls = scan(stream, continue_on_error=continue_on_error, info_only=True)
            assert error is None and text == ''
            assert [m.serialized_bytes for m in delivered] == list(parts)
            assert [c[1] for c in calls] == [True] * len(parts)

# ---------------------------------------------------------------------------------------------
# 2. every subset of the messages of a stream damaged by every kind, streams of 2 and 3 messages,
#    full and info-only scanning, with and without continue-on-error
# ---------------------------------------------------------------------------------------------
n_streams = 0
for n_messages in (2, 3):
    for choice in itertools.product(*[range(len(v)) for v in VARIANTS[:n_messages]]):
        kinds = [VARIANTS[i][c][0] for i, c in enumerate(choice)]
        parts = [VARIANTS[i][c][1] for i, c in enumerate(choice)]
        stream = b''.join(parts)
        offsets = [sum(len(p) for p in parts[:i]) for i in range(n_messages)]
        n_streams += 1

        # ---- full scanning, continue on error
        delivered, error, text, calls = scan(stream, continue_on_error=True)
        assert error is None, (kinds, error)
        # the damaged ones are skipped, every other message is delivered unchanged and in order
        assert [content(m) for m in delivered] == [REFERENCE[i] for i, k in enumerate(kinds) if k is None], kinds
        lines = text.splitlines()
        assert len(lines) == sum(k is not None for k in kinds), (kinds, text)
        assert all(line.startswith(REPORT + 'Error: ') for line in lines)
        for line, kind in zip(lines, [k for k in kinds if k is not None]):
            if kind == 'stop':
                assert line == REPORT + "Error: Value (b'7770') not as expected (b'7777')"
            elif kind == 'elem':
                assert line.startswith(REPORT + 'Error: Cannot process descriptor 063255 of type: Undefined')
            elif kind == 'seq':
                assert line.startswith(REPORT + 'Error: Cannot process descriptor 363255 of type: Undefined')
            elif kind == 'len1-':
                assert line.startswith(REPORT + 'Error: Read exceeds declared section 1 length: ')
        # the exact sequence of decoding attempts: one full attempt per message; after a failure one info
        # only attempt at the same place, which tells the length to skip when it succeeds; when it fails
        # too the search resumes one byte further and finds the next message
        expected_calls = []
        for i, kind in enumerate(kinds):
            rest = len(stream) - offsets[i]
            expected_calls.append((rest, False, None, (), ()))
            if kind is not None:
                expected_calls.append((rest, True, None, (), ()))
        assert calls == expected_calls, (kinds, calls, expected_calls)

        # ---- full scanning, stop at the first error: the preceding messages, then the library's error
        delivered, error, text, calls = scan(stream)
        n_good = ([k is not None for k in kinds] + [True]).index(True)
        assert [content(m) for m in delivered] == REFERENCE[:n_good], kinds
        assert text == ''
        assert len(calls) == min(n_good + 1, n_messages) and all(c[1] is False for c in calls)
        if n_good == n_messages:
            assert error is None
        else:
            assert isinstance(error, PyBufrKitError), (kinds, error)
            kind = kinds[n_good]
            if kind == 'stop':
                assert type(error) is PyBufrKitError
                assert error.message == "Value (b'7770') not as expected (b'7777')"
            elif kind in ('elem', 'seq'):
                assert type(error) is UnknownDescriptor
            elif kind == 'len1-':
                assert type(error) is PyBufrKitError and error.message.startswith('Read exceeds declared')
            elif kind in ('len1+', 'len4+') and n_good == n_messages - 1:
                assert type(error) is BitReadError, (kinds, error)

        # ---- info-only scanning, continue on error: damage outside the metadata sections is not
        # looked at, so those messages are delivered as they are; the others are skipped
        delivered, error, text, calls = scan(stream, continue_on_error=True, info_only=True)
        assert error is None, (kinds, error)
        expected = []
        for i, kind in enumerate(kinds):
            if kind is None:
                expected.append(INFO_REFERENCE[i])
            elif kind in INFO_DECODABLE:
                expected.append((parts[i],) + INFO_REFERENCE[i][1:3])
        got = [info_content(m) if m.serialized_bytes in ORIGINAL else
               (m.serialized_bytes, m.length.value, m.n_subsets.value) for m in delivered]
        assert got == expected, kinds
        assert text.count(REPORT) == sum(k is not None and k not in INFO_DECODABLE for k in kinds), (kinds, text)
        assert len(calls) == n_messages and all(c[1] is True and c[2] is None for c in calls)
        assert [len(stream) - c[0] for c in calls] == offsets

        # ---- info-only scanning, stop at the first error
        delivered, error, text, calls = scan(stream, info_only=True)
        n_good = ([k is not None and k not in INFO_DECODABLE for k in kinds] + [True]).index(True)
        assert [m.serialized_bytes for m in delivered] == parts[:n_good]
        assert text == ''
        assert (error is None) if n_good == n_messages else isinstance(error, PyBufrKitError), (kinds, error)

assert n_streams == 100 + 1000

# ---------------------------------------------------------------------------------------------
# 3. damage that also hides the total length: the metadata cannot be decoded either, the scan goes on
#    one byte further and still finds the following message
# ---------------------------------------------------------------------------------------------
truncated = A[:40]  # cut inside section 3, followed directly by the next message
for continue_on_error in (True, False):
    delivered, error, text, calls = scan(truncated + B + C, continue_on_error=continue_on_error)
    if continue_on_error:
        assert error is None
        assert [content(m) for m in delivered] == REFERENCE[1:]
        assert text.count(REPORT) == 1
        total = len(truncated + B + C)
        assert calls[0] == (total, False, None, (), ()) and calls[1][1] is True
        assert [c[0] for c in calls[-2:]] == [len(B + C), len(C)]
    else:
        assert delivered == [] and isinstance(error, PyBufrKitError) and text == ''
# proper prefixes of the last message of a stream, exhaustive: never delivered; the ones before always are
for n in range(len(A)):
    delivered, error, text, calls = scan(B + A[:n], continue_on_error=True)
    assert error is None and [content(m) for m in delivered] == [REFERENCE[1]], n
    assert text.count(REPORT) == (1 if n >= 4 else 0), (n, text)
    delivered, error, text, calls = scan(B + A[:n])
    assert [content(m) for m in delivered] == [REFERENCE[1]], n
    if n >= 4:
        assert type(error) is BitReadError, (n, error)
    else:
        assert error is None

# ---------------------------------------------------------------------------------------------
# 4. extra arguments are handed to every decoding attempt, including the one that finds the length to skip
# ---------------------------------------------------------------------------------------------
stream = A + damage_stop(B) + C
delivered, error, text, calls = scan(stream, continue_on_error=True, ignore_value_expectation=True)
assert error is None and text == ''
assert [m.serialized_bytes for m in delivered] == [A, damage_stop(B), C]
assert all(c[4] == ('ignore_value_expectation',) for c in calls) and len(calls) == 3

delivered, error, text, calls = scan(stream, continue_on_error=True, wire_template_data=False)
assert error is None and text.count(REPORT) == 1
assert [m.serialized_bytes for m in delivered] == [A, C]
assert [(c[1], c[4]) for c in calls] == [(False, ('wire_template_data',)), (False, ('wire_template_data',)),
                                         (True, ('wire_template_data',)), (False, ('wire_template_data',))]

# a positional extra becomes the file path of every message
decoder.calls = []
delivered = list(generate_bufr_message(decoder, A + B, False, True, None, 'some/path'))
assert [m.filename for m in delivered] == ['some/path', 'some/path']
assert [c[3] for c in decoder.calls] == [('some/path',), ('some/path',)]
# errors of the caller are not library errors and are not swallowed by continue-on-error
for args, kwargs in (((False, True, None, 'p', None), {}), ((), {'continue_on_error': True, 'nosuch': 1})):
    decoder.calls = []
    try:
        list(generate_bufr_message(decoder, A + B, *args, **kwargs))
    except TypeError:
        assert len(decoder.calls) <= 1
    else:
        raise AssertionError('TypeError expected')

# ---------------------------------------------------------------------------------------------
# 5. with a filter expression: metadata first, the full decoding only for the matches
# ---------------------------------------------------------------------------------------------
CATEGORIES = [decoder.process(s, info_only=True).data_category.value for s in ORIGINAL]
assert len(set(CATEGORIES)) > 1
wanted = CATEGORIES[1]
expr = '${%data_category} == ' + str(wanted)
for kind_b, bad_b in VARIANTS[1]:
    stream = A + bad_b + C
    delivered, error, text, calls = scan(stream, continue_on_error=True, filter_expr=expr)
    assert error is None
    matching = [i for i, c in enumerate(CATEGORIES) if c == wanted]
    if kind_b is None:
        assert [content(m) for m in delivered] == [REFERENCE[i] for i in matching]
        assert text == ''
    else:
        assert [content(m) for m in delivered] == [REFERENCE[i] for i in matching if i != 1]
        assert text.count(REPORT) == 1
    # first attempt at each message is info only
    firsts = {}
    for c in calls:
        firsts.setdefault(c[0], c[1])
    assert all(v is True for v in firsts.values()) and len(firsts) == 3, calls

    delivered, error, text, calls = scan(stream, filter_expr=expr)
    if kind_b is None:
        assert error is None and [content(m) for m in delivered] == [REFERENCE[i] for i in matching]
    else:
        assert isinstance(error, PyBufrKitError), (kind_b, error)
        assert [content(m) for m in delivered] == [REFERENCE[i] for i in matching if i < 1]

    # info only with filter: a single info-only attempt per message
    delivered, error, text, calls = scan(stream, continue_on_error=True, filter_expr=expr, info_only=True)
    assert error is None
    assert all(c[1] is True for c in calls) and len(calls) == 3
    if kind_b is None or kind_b in INFO_DECODABLE:
        assert [m.serialized_bytes for m in delivered] == [[A, bad_b, C][i] for i in matching]
    else:
        assert [m.serialized_bytes for m in delivered] == [[A, bad_b, C][i] for i in matching if i != 1]

# ---------------------------------------------------------------------------------------------
# 6. the shipped file of invalid messages
# ---------------------------------------------------------------------------------------------
with open(os.path.join(DATA, 'multi_invalid_messages.bufr'), 'rb') as ins:
    s = ins.read()
assert [i for i in range(len(s)) if s[i:i + 4] == b'BUFR'] == [0, 522, 616]
delivered, error, text, calls = scan(s, continue_on_error=True)
assert error is None and [m.serialized_bytes for m in delivered] == [s[522:616]] == [A]
assert text.count(REPORT) == 2
assert REPORT + 'Error: Cannot process descriptor 301195 of type: UndefinedSequenceDescriptor\n' in text
assert text.endswith(REPORT + 'Error: Needed a length of at least 16 bits, but only 15 bits were available.\n')
# full at 0 (fails), info at 0 (gives the length), full at 522, full at 616 (fails), info at 616 (fails too)
assert [(len(s) - c[0], c[1]) for c in calls] == [(0, False), (0, True), (522, False), (616, False), (616, True)]
delivered, error, text, calls = scan(s)
assert type(error) is UnknownDescriptor and REPORT not in text and delivered == []
assert [(len(s) - c[0], c[1]) for c in calls] == [(0, False)]
delivered, error, text, calls = scan(s, filter_expr='${%data_category} == 2')
assert error is None and len(delivered) == 1 and REPORT not in text
delivered, error, text, calls = scan(s, continue_on_error=True, info_only=True)
# the third one fails only while its data section is interpreted, which info only scanning does not do
assert error is None and [m.serialized_bytes for m in delivered] == [s[:522], s[522:616], s[616:]]
assert [m.length.value for m in delivered] == [522, 94, 119] and len(s) == 735
assert text.count(REPORT) == 0

print('demo 3 OK')
