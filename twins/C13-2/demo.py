import os, sys; sys.path.insert(0, os.getcwd())

import hashlib
import json
import logging
import pickle
import random
import subprocess

logging.disable(logging.WARNING)  # silence the 'fallback' warnings of the tables module

from pybufrkit import tables as tables_module
from pybufrkit.constants import DEFAULT_TABLES_DIR
from pybufrkit.dataquery import NodePathParser, DataQuerent
from pybufrkit.decoder import Decoder
from pybufrkit.encoder import Encoder
from pybufrkit.renderer import (FlatTextRenderer, NestedTextRenderer,
                                FlatJsonRenderer, NestedJsonRenderer)
from pybufrkit.tables import TableGroupCacheManager

assert os.path.dirname(os.path.abspath(tables_module.__file__)) == os.path.join(os.getcwd(), 'pybufrkit'), \
    'run with the current directory = worktree root'

DATA_DIR = os.path.join('tests', 'data')
REAL_LIMIT = 50


def read_bytes(name):
    with open(os.path.join(DATA_DIR, name), 'rb') as ins:
        return ins.read()


def read_text(name):
    with open(os.path.join(DATA_DIR, name)) as ins:
        return ins.read()


# --------------------------------------------------------------------------
# Observation: everything that can be seen of a decoded / encoded message
def describe_descriptor(d):
    return (type(d).__name__, str(d), getattr(d, 'name', None), getattr(d, 'unit', None),
            getattr(d, 'scale', None), getattr(d, 'refval', None), getattr(d, 'nbits', None))


def observe_message(msg):
    """Values, labels, links, renderings and a query of a processed message."""
    td = msg.template_data.value
    parts = [
        repr(msg.table_group_key),
        repr(td.decoded_values_all_subsets),
        repr([[describe_descriptor(d) for d in ds] for ds in td.decoded_descriptors_all_subsets]),
        repr([sorted(links.items()) for links in td.bitmap_links_all_subsets]),
    ]
    for renderer_class in (FlatTextRenderer, NestedTextRenderer, FlatJsonRenderer, NestedJsonRenderer):
        parts.append(repr(renderer_class().render(msg)))
    path = '/{:06d}'.format(msg.unexpanded_descriptors.value[0])
    try:
        result = DataQuerent(NodePathParser()).query(msg, path)
        parts.append(repr(result.subset_indices()))
        parts.append(repr(result.all_values()))
        parts.append(repr(result.all_values(flat=True)))
        parts.append(FlatTextRenderer().render(result))
    except Exception as e:
        parts.append('QUERY-ERR {} {}'.format(type(e).__name__, e))
    return hashlib.sha256('\x00'.join(parts).encode('utf-8', 'backslashreplace')).hexdigest()


def run_item(item, decoder, encoder_by_version):
    """
    Perform the operation of a pool item and return (observation, message or None).
    A failing operation is observed by the type and text of its exception.
    """
    kind = item[0]
    try:
        if kind == 'dec':
            msg = decoder.process(item[2])
            return observe_message(msg), msg
        else:
            msg = encoder_by_version[item[3]].process(item[2])
            digest = hashlib.sha256(msg.serialized_bytes).hexdigest()
            return digest + observe_message(msg), msg
    except Exception as e:
        return 'ERR {} {}'.format(type(e).__name__, e), None


def make_coders(cache_max):
    decoder = Decoder(compiled_template_cache_max=cache_max)
    encoders = {
        None: Encoder(compiled_template_cache_max=cache_max),
        35: Encoder(compiled_template_cache_max=cache_max, master_table_version=35),
        7: Encoder(compiled_template_cache_max=cache_max, master_table_version=7),
    }
    return decoder, encoders


# --------------------------------------------------------------------------
# The pool: more table versions than the caches hold, good and bad messages
def build_pool():
    pool = []
    for stub in ('207003', 'ISMD01_OKPR', 'IUSK73_AMMC_182300', 'b002_95', 'g2nd_208',
                 'profiler_european', 'rado_250', 'uegabe', 'contrived', 'jaso_214'):
        pool.append(('dec', stub, read_bytes(stub + '.bufr')))

    # The same content under other master table versions (other labels, other table groups)
    for stub, versions in (('uegabe', (7, 16, 20, 35, 41)),
                           ('207003', (14, 16, 36)),
                           ('profiler_european', (6, 10)),
                           ('b002_95', (17,))):
        text = read_text(stub + '.json')
        for version in versions:
            data = Encoder(master_table_version=version).process(text).serialized_bytes
            pool.append(('dec', '{}@{}'.format(stub, version), data))

    # Failing decodes
    rado = read_bytes('rado_250.bufr')
    pool.append(('dec', 'invalid', read_bytes('multi_invalid_messages.bufr')))
    pool.append(('dec', 'truncated', rado[:len(rado) // 2]))
    pool.append(('dec', 'garbage', b'BUFR\x00\x00\x10\x04garbage!'))
    pool.append(('dec', 'nosignature', b'no start signature in here'))

    # Encodes, successful and failing (310060 is undefined in version 7)
    for stub, version in (('207003', None), ('uegabe', None), ('uegabe', 35), ('uegabe', 7),
                          ('profiler_european', 35), ('IUSK73_AMMC_182300', None), ('207003', 7)):
        pool.append(('enc', '{}->{}'.format(stub, version), read_text(stub + '.json'), version))
    return pool


def fresh_baselines(pool, demo_file):
    """Observation of each pool item as the FIRST operation of a fresh process."""
    jobs = [(mode, idx) for mode in ('plain', 'compiled') for idx in range(len(pool))]
    baselines = {}
    for start in range(0, len(jobs), 8):  # 8 children at a time
        procs = []
        for mode, idx in jobs[start:start + 8]:
            proc = subprocess.Popen([sys.executable, demo_file, '--fresh', mode],
                                    stdin=subprocess.PIPE, stdout=subprocess.PIPE, cwd=os.getcwd())
            procs.append((mode, idx, proc))
        for mode, idx, proc in procs:
            out, _ = proc.communicate(pickle.dumps(pool[idx]))
            assert proc.returncode == 0, (mode, idx)
            baselines[mode, idx] = out.decode().strip().splitlines()[-1]
    return baselines


def fresh_main(mode):
    """The child: nothing but this one operation has happened in the process."""
    item = pickle.loads(sys.stdin.buffer.read())
    decoder, encoders = make_coders(None if mode == 'plain' else 100)
    observation, _ = run_item(item, decoder, encoders)
    print(observation)


def filler_keys():
    """More than 50 table group keys that no pool message uses."""
    keys = []
    for root in (DEFAULT_TABLES_DIR + os.sep + '.', DEFAULT_TABLES_DIR + os.sep + os.sep):
        for version in range(6, 42):
            keys.append((root, version))
    return keys


def run_interleavings(pool, baselines, seeds=(1, 2), n_ops=26, cache_sizes=(None, 0, 1, 2, 100),
                      limits=(1, 2, 3, REAL_LIMIT), check=None):
    """
    Random interleavings of decode / encode / failing operations / queries and
    renderings of older message objects / table cache fillers, every result
    compared with the result of a fresh process.
    """
    fillers = filler_keys()
    n_checked = 0
    for seed in seeds:
        rng = random.Random(seed)
        for cache_max in cache_sizes:
            mode = 'plain' if cache_max is None else 'compiled'
            for limit in limits:
                tables_module.MAXIMUM_NUMBER_OF_CACHED_TABLE_GROUPS = limit
                decoder, encoders = make_coders(cache_max)
                kept = []  # message objects of earlier operations
                if limit == REAL_LIMIT:
                    # reach the real limit: more distinct table groups than it holds
                    for root, version in rng.sample(fillers, 58):
                        TableGroupCacheManager.get_table_group(tables_root_dir=root, master_table_version=version)
                for _ in range(n_ops):
                    dice = rng.random()
                    if dice < 0.15:
                        root, version = rng.choice(fillers)
                        TableGroupCacheManager.get_table_group(tables_root_dir=root, master_table_version=version)
                    elif dice < 0.35 and kept:
                        # query and render an older message object again
                        idx, msg = rng.choice(kept)
                        tail = observe_message(msg)
                        assert baselines[mode, idx].endswith(tail), \
                            ('old message object changed', pool[idx][1], cache_max, limit, seed)
                        n_checked += 1
                    else:
                        idx = rng.randrange(len(pool))
                        observation, msg = run_item(pool[idx], decoder, encoders)
                        assert observation == baselines[mode, idx], \
                            ('depends on history', pool[idx][1], cache_max, limit, seed)
                        n_checked += 1
                        if msg is not None:
                            kept.append((idx, msg))
                            del kept[:-6]
                    if check is not None:
                        check(decoder, encoders, cache_max, limit)
    tables_module.MAXIMUM_NUMBER_OF_CACHED_TABLE_GROUPS = REAL_LIMIT
    return n_checked


# --------------------------------------------------------------------------
# Checks specific to TemplateData.wire
from pybufrkit.templatedata import TemplateData


def describe_nodes(nodes):
    out = []
    for node in nodes:
        entry = [type(node).__name__, str(node.descriptor), getattr(node, 'index', None)]
        if hasattr(node, 'factor'):
            entry.append(('factor', describe_nodes([node.factor])))
        if hasattr(node, 'members'):
            entry.append(('members', describe_nodes(node.members)))
        if hasattr(node, 'attributes'):
            entry.append(('attributes', describe_nodes(node.attributes)))
        out.append(entry)
    return out


def count_nodes(described):
    return sum(1 + sum(count_nodes(part[1]) for part in entry[3:]) for entry in described)


def raises(exc_type, func, *args):
    try:
        func(*args)
    except Exception as e:
        assert type(e) is exc_type, (type(e), exc_type)
        return e
    raise AssertionError('{} not raised'.format(exc_type))


WIRING_STATE = ('next_index', 'nbits_associated_list', 'data_not_present_count', 'waiting_for_qa_info_meaning',
                'waiting_for_1st_order_stats_meaning', 'waiting_for_difference_stats_meaning')


def check_wire():
    decoder = Decoder()
    stubs = ('207003', 'ISMD01_OKPR', 'IUSK73_AMMC_182300', 'b002_95', 'b005_89', 'g2nd_208', 'amv2_87',
             'profiler_european', 'rado_250', 'uegabe', 'contrived', 'jaso_214', 'mpco_217')
    for stub in stubs:
        data = read_bytes(stub + '.bufr')
        wired_by_decoder = decoder.process(data).template_data.value
        msg = decoder.process(data, wire_template_data=False)
        td = msg.template_data.value
        n_subsets = msg.n_subsets.value
        compressed = msg.is_compressed.value

        # before: nothing wired, nothing of the wiring state exists
        assert td._is_wired is False and wired_by_decoder._is_wired is True
        assert td.n_subsets == n_subsets == len(td.decoded_nodes_all_subsets)
        assert all(nodes == [] for nodes in td.decoded_nodes_all_subsets)
        assert not any(hasattr(td, name) for name in WIRING_STATE + ('index_to_node', 'bitmap_links'))
        lists_before = [id(nodes) for nodes in td.decoded_nodes_all_subsets]

        assert msg.wire() is None
        assert td._is_wired is True
        # the node lists are filled in place; compressed subsets share ONE list
        assert [id(nodes) for nodes in td.decoded_nodes_all_subsets] == lists_before
        if compressed:
            assert all(nodes is td.decoded_nodes_all_subsets[0] for nodes in td.decoded_nodes_all_subsets)
            last = 0
        else:
            assert len(set(lists_before)) == n_subsets
            last = n_subsets - 1
        # what is left on the object: the lists of the last wired subset, no index map
        assert not hasattr(td, 'index_to_node')
        assert all(hasattr(td, name) for name in WIRING_STATE)
        assert td.decoded_nodes is td.decoded_nodes_all_subsets[last]
        assert td.decoded_descriptors is td.decoded_descriptors_all_subsets[last]
        assert td.decoded_values is td.decoded_values_all_subsets[last]
        assert td.bitmap_links is td.bitmap_links_all_subsets[last]

        described = [describe_nodes(nodes) for nodes in td.decoded_nodes_all_subsets]
        assert all(count_nodes(d) > 0 for d in described)
        assert described == [describe_nodes(nodes) for nodes in wired_by_decoder.decoded_nodes_all_subsets]
        # every flat index is reachable from a node (meaning nodes are shared by several)
        for idx_subset in range(1 if compressed else n_subsets):
            seen = []

            def collect(entries):
                for entry in entries:
                    if entry[2] is not None:
                        seen.append(entry[2])
                    for part in entry[3:]:
                        collect(part[1])
            collect(described[idx_subset])
            assert set(seen) == set(range(len(td.decoded_descriptors_all_subsets[idx_subset]))), stub

        # wiring again (directly, through the message, through a renderer) changes nothing
        node_ids = [[id(node) for node in nodes] for nodes in td.decoded_nodes_all_subsets]
        state_before = [getattr(td, name) for name in WIRING_STATE]
        assert td.wire() is None and msg.wire() is None
        NestedTextRenderer().render(msg)
        NestedJsonRenderer().render(msg)
        assert [[id(node) for node in nodes] for nodes in td.decoded_nodes_all_subsets] == node_ids
        assert [describe_nodes(nodes) for nodes in td.decoded_nodes_all_subsets] == described
        assert all(a is b for a, b in zip(state_before, [getattr(td, name) for name in WIRING_STATE]))
        assert not hasattr(td, 'index_to_node')

    # --- edge cases, TemplateData built by hand -------------------------------
    msg = decoder.process(read_bytes('contrived.bufr'), wire_template_data=False)
    good = msg.template_data.value
    template = good.template

    # no subsets at all, uncompressed: nothing to do, but wired all the same
    empty = TemplateData(template, False, [], [], [])
    assert empty.wire() is None and empty._is_wired is True
    assert empty.decoded_nodes == [] and empty.decoded_nodes_all_subsets == []
    assert not any(hasattr(empty, name) for name in WIRING_STATE + ('index_to_node', 'decoded_descriptors'))

    # no subsets, compressed: subset 0 is wired unconditionally -> IndexError
    # (rebased: since "fix: data are marked as wired only after the wiring went through" the flag
    # is not set by a failed wiring, so the second call meets the failure again instead of being silent)
    empty = TemplateData(template, True, [], [], [])
    raises(IndexError, empty.wire)
    assert empty._is_wired is False and not hasattr(empty, 'index_to_node')
    assert not hasattr(empty, 'decoded_descriptors')
    raises(IndexError, empty.wire)
    assert empty._is_wired is False

    # flat lists shorter than the template: fails in the middle of subset 0
    cut = 5
    short = TemplateData(template, False,
                         [ds[:cut] for ds in good.decoded_descriptors_all_subsets],
                         [vs[:cut] for vs in good.decoded_values_all_subsets],
                         [dict(links) for links in good.bitmap_links_all_subsets])
    raises(IndexError, short.wire)
    assert short._is_wired is False  # rebased: was True before the fix
    assert hasattr(short, 'index_to_node')  # not released on failure
    assert short.decoded_nodes is not None and short.decoded_descriptors is short.decoded_descriptors_all_subsets[0]
    assert short.decoded_nodes_all_subsets[1] == []  # subset 1 never started
    raises(IndexError, short.wire)  # rebased: the second attempt fails the same way (was a silent no-op)
    assert short._is_wired is False and short.decoded_nodes_all_subsets[1] == []

    # second subset broken only: subset 0 is complete, subset 1 partial
    broken = TemplateData(template, False,
                          [good.decoded_descriptors_all_subsets[0], good.decoded_descriptors_all_subsets[1][:cut]],
                          [good.decoded_values_all_subsets[0], good.decoded_values_all_subsets[1][:cut]],
                          [{}, {}])
    raises(IndexError, broken.wire)
    good.wire()
    assert describe_nodes(broken.decoded_nodes_all_subsets[0]) == describe_nodes(good.decoded_nodes_all_subsets[0])
    assert broken.decoded_descriptors is broken.decoded_descriptors_all_subsets[1]
    assert hasattr(broken, 'index_to_node') and broken._is_wired is False
    raises(IndexError, broken.wire)  # rebased: met again on the next attempt (was a silent no-op)

    # the lists of the subsets disagree in number: n_subsets follows the descriptors
    odd = TemplateData(template, False, good.decoded_descriptors_all_subsets, good.decoded_values_all_subsets[:1], [{}])
    raises(IndexError, odd.wire)
    assert describe_nodes(odd.decoded_nodes_all_subsets[0]) == describe_nodes(good.decoded_nodes_all_subsets[0])
    assert odd.decoded_nodes is odd.decoded_nodes_all_subsets[1]
    assert odd.decoded_descriptors is odd.decoded_descriptors_all_subsets[1]
    assert odd.decoded_values is odd.decoded_values_all_subsets[0]  # still that of subset 0


if __name__ == '__main__':
    if len(sys.argv) > 2 and sys.argv[1] == '--fresh':
        fresh_main(sys.argv[2])
        sys.exit(0)
    check_wire()
    pool = build_pool()
    baselines = fresh_baselines(pool, os.path.abspath(__file__))
    n_checked = run_interleavings(pool, baselines, seeds=(2,), n_ops=30)
    print('OK: {} operations gave the result of a fresh process'.format(n_checked))
