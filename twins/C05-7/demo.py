import os, sys; sys.path.insert(0, os.getcwd())
__doc__ = """
Differential demonstration for refactor 7 (encoder: one writer for a compressed column,
CompressedColumn tuple from the next-values helper).

Every check compares what Encoder.process_*_compressed writes (and what it leaves in the
CoderState) with the bits predicted by a model of the compressed column format that is written
here from the BUFR regulation and shares no code with pybufrkit.
Exits 0 on the unpatched and on the patched tree.
"""
import hashlib
import itertools
import json
import random

import bitstring

import pybufrkit
assert os.path.dirname(os.path.abspath(pybufrkit.__file__)) == os.path.join(os.getcwd(), 'pybufrkit'), pybufrkit.__file__

from pybufrkit.encoder import Encoder
from pybufrkit.decoder import Decoder
from pybufrkit.coder import CoderState
from pybufrkit.bitops import get_bit_writer
from pybufrkit.descriptors import ElementDescriptor

N_CHECKS = [0]
ENCODER = Encoder()


def check(cond, *what):
    N_CHECKS[0] += 1
    if not cond:
        print('FAILED:', *what)
        sys.exit(1)


# ---------------------------------------------------------------------------------------------
# The model: bits of a compressed column as a string of '0' and '1'
# ---------------------------------------------------------------------------------------------
def ubits(x, n):
    assert 0 <= x < (1 << n) or (n == 0 and x == 0), (x, n)
    return format(x, 'b').zfill(n) if n else ''


def ones(n):
    return '1' * n


def width_for_range(rng):
    """Narrowest width whose all-ones pattern stays free above (range + 1)"""
    k = 0
    while (1 << k) < rng + 3:
        k += 1
    return k


def model_uint_column(raws, nbits, n_declared=None):
    """raws: the packed integers (None = missing) of each subset"""
    n_declared = len(raws) if n_declared is None else n_declared
    equal = all(r == raws[0] for r in raws) and len(raws) == n_declared
    if equal:
        return (ones(nbits) if raws[0] is None else ubits(raws[0], nbits)) + '000000'
    present = [r for r in raws if r is not None]
    mn, mx = min(present), max(present)
    k = width_for_range(mx - mn)
    return (ubits(mn, nbits) + ubits(k, 6) +
            ''.join(ones(k) if r is None else ubits(r - mn, k) for r in raws))


def model_numeric_column(values, nbits, scale_powered, refval):
    raws = [None if v is None else (int(round(v * scale_powered)) if scale_powered != 1 else v) - refval
            for v in values]
    present = [r for r in raws if r is not None]
    if len(present) == len(raws) and len(set(present)) == 1:
        # identical after packing, whatever the original values were
        return ubits(present[0], nbits) + '000000'
    return model_uint_column(raws, nbits)


def text_bits(s, nbytes):
    b = s.encode('latin-1') if not isinstance(s, bytes) else s
    b = b[:nbytes].ljust(nbytes, b' ')
    return ''.join(ubits(c, 8) for c in bytearray(b))


def model_string_column(values, nbytes, n_declared=None):
    n_declared = len(values) if n_declared is None else n_declared
    if all(v == values[0] for v in values) and len(values) == n_declared:
        return (ones(8 * nbytes) if values[0] is None else text_bits(values[0], nbytes)) + '000000'
    if nbytes == 0:
        return '000000'
    return ('0' * (8 * nbytes) + ubits(nbytes, 6) +
            ''.join(ones(8 * nbytes) if v is None else text_bits(v, nbytes) for v in values))


def model_int(x, nbits):
    return ('1' if x < 0 else '0') + ubits(abs(x), nbits - 1)


# ---------------------------------------------------------------------------------------------
# Driving the encoder
# ---------------------------------------------------------------------------------------------
def descriptor(id_=1001, nbits=8, unit='NUMERIC'):
    return ElementDescriptor(id_, 'DEMO', unit, 0, 0, nbits, unit, 0, 3)


def run(method, columns, args, n_declared=None, via_dispatch=False, pre=1):
    """
    Encode ``columns`` (a list of columns, each the list of values of all subsets) with
    ``method``. ``pre`` junk values are placed in front so that idx_value is not zero.
    Returns (bits, state, descriptors used, exception).
    """
    n = len(columns[0])
    n_declared = n if n_declared is None else n_declared
    data = [['junk{}'.format(i)] * pre + [col[i] for col in columns] for i in range(n)]
    state = CoderState(True, n_declared, data)
    state.idx_value = pre
    bit_writer = get_bit_writer()
    descriptors = []
    exc = None
    for _ in columns:
        d = descriptor(1000 + len(descriptors))
        descriptors.append(d)
        name = method if via_dispatch else method + '_compressed'
        try:
            result = getattr(ENCODER, name)(state, bit_writer, d, *args)
            check(result is None, 'return value', method, result)
        except Exception as e:
            exc = e
            break
    return bit_writer.bit_stream.bin, state, descriptors, exc


def expect_bits(method, columns, args, expected, **kwargs):
    bits, state, descriptors, exc = run(method, columns, args, **kwargs)
    check(exc is None, method, columns, args, 'raised', repr(exc))
    check(bits == expected, method, columns, args, '\n got', bits, '\n exp', expected)
    pre = kwargs.get('pre', 1)
    check(state.idx_value == pre + len(columns), 'idx_value', state.idx_value)
    check(len(state.decoded_descriptors) == len(columns) and
          all(a is b for a, b in zip(state.decoded_descriptors, descriptors)), 'descriptors')
    # shared by all subsets, and the input values are left alone
    check(all(ds is state.decoded_descriptors for ds in state.decoded_descriptors_all_subsets), 'shared')
    for i, vals in enumerate(state.decoded_values_all_subsets):
        check(vals == ['junk{}'.format(i)] * pre + [col[i] for col in columns], 'values changed', vals)
    return state


def expect_error(method, columns, args, exc_type, bits_so_far, n_descriptors=1, idx_value=None, **kwargs):
    bits, state, descriptors, exc = run(method, columns, args, **kwargs)
    check(type(exc) is exc_type, method, columns, args, 'expected', exc_type.__name__, 'got', repr(exc))
    check(bits == bits_so_far, method, columns, 'bits at the error', bits, bits_so_far)
    check(len(state.decoded_descriptors) == n_descriptors, 'descriptors at the error')
    if idx_value is not None:
        check(state.idx_value == idx_value, 'idx_value at the error', state.idx_value)
    return state, exc


# ---------------------------------------------------------------------------------------------
# 1. small scope, exhaustively: all columns of up to 4 subsets over {missing, 0..2^w-2}
# ---------------------------------------------------------------------------------------------
def exhaustive():
    rnd = random.Random(5)
    for w in (1, 2, 3, 4):
        domain = [None] + list(range((1 << w) - 1))
        for n in (1, 2, 3, 4):
            cols = list(itertools.product(domain, repeat=n))
            for col in cols:
                col = list(col)
                expected = model_uint_column(col, w)
                expect_bits('process_codeflag', [col], (w,), expected)
                expect_bits('process_numeric', [col], (w, 1, 0), expected)
            # the same columns through the compressed / uncompressed dispatcher, with a reference value
            for col in rnd.sample(cols, min(len(cols), 40)):
                col = list(col)
                shifted = [None if v is None else v - 3 for v in col]
                expect_bits('process_numeric', [shifted], (w, 1, -3), model_uint_column(col, w),
                            via_dispatch=True)
                expect_bits('process_codeflag', [col], (w,), model_uint_column(col, w), via_dispatch=True)


# ---------------------------------------------------------------------------------------------
# 2. randomly: wide fields, many subsets, scale and reference value, several columns in a row
# ---------------------------------------------------------------------------------------------
def randomly():
    rnd = random.Random(7)
    for _ in range(400):
        w = rnd.choice([1, 2, 5, 7, 8, 9, 12, 16, 17, 24, 31, 32, 33, 48, 63, 64])
        n = rnd.choice([1, 2, 3, 5, 8, 13, 40])
        top = (1 << w) - 2
        # the width of the increments has to fit its six bits
        span = min(rnd.choice([0, 1, 2, 3, 6, 7, 14, 15, 62, 63, 254, 255, top]), 2 ** 63 - 3)
        lo = rnd.randint(0, max(0, top - span))
        hi = min(top, lo + span)
        p_missing = rnd.choice([0, 0, 0.2, 0.9])
        columns = []
        for _c in range(rnd.choice([1, 1, 3])):
            kind = rnd.random()
            if kind < 0.15:
                col = [None] * n
            elif kind < 0.3:
                col = [rnd.randint(lo, hi)] * n
            else:
                col = [None if rnd.random() < p_missing else rnd.choice([lo, hi, rnd.randint(lo, hi)])
                       for _i in range(n)]
            columns.append(col)
        expect_bits('process_codeflag', columns, (w,), ''.join(model_uint_column(c, w) for c in columns))
        refval = rnd.choice([0, 0, -1024, 5, -(1 << 20)])
        shifted = [[None if v is None else v + refval for v in c] for c in columns]
        expect_bits('process_numeric', shifted, (w, 1, refval),
                    ''.join(model_uint_column(c, w) for c in columns), pre=rnd.choice([0, 1, 4]))

    # scaled values: packing is round(value * 10^scale) - refval; values that are equal only
    # after packing make a column of width zero
    for scale_powered, refval, nbits, cols in [
        (10, -100, 12, [[1.0, 1.04, 0.96], [1.0, 1.04, None], [-9.9, 20.0, 3.3, None, 3.3],
                        [2.5, 2.5, 2.5], [None, None], [0.1, 0.2], [0.1, 0.3], [7, 7.0, 7]]),
        (100, 0, 16, [[1.234, 1.2341], [1.23, 4.56, None], [None, 0.0], [0.0, 0.01, 0.02, 0.03]]),
        (0.1, 0, 10, [[1000, 1004], [1000, 2000, None], [10, 10]]),
        (1, 7, 10, [[7, 8, 9, 10], [7, None], [1030]]),
    ]:
        for col in cols:
            expect_bits('process_numeric', [col], (nbits, scale_powered, refval),
                        model_numeric_column(col, nbits, scale_powered, refval))

    # explicit landmarks of the width rule: the range r takes the narrowest k with 2^k >= r + 3
    for r, k in [(0, 2), (1, 2), (2, 3), (5, 3), (6, 4), (13, 4), (14, 5), (253, 8), (254, 9), (1021, 10)]:
        if r:
            expect_bits('process_codeflag', [[9, 9 + r]], (12,),
                        ubits(9, 12) + ubits(k, 6) + ubits(0, k) + ubits(r, k))
        expect_bits('process_codeflag', [[None, 9 + r, 9]], (12,),
                    ubits(9, 12) + ubits(k, 6) + ones(k) + ubits(r, k) + ubits(0, k))


# ---------------------------------------------------------------------------------------------
# 3. strings
# ---------------------------------------------------------------------------------------------
def strings():
    rnd = random.Random(11)
    pool = ['', 'A', 'AB', 'ABCD', 'ABCDEFGH', 'x y', ' pad', 'caf\xe9', '\0\0', None]
    for nbytes in (0, 1, 2, 4, 8, 20):
        for n in (1, 2, 3, 6):
            for _ in range(40):
                kind = rnd.random()
                if kind < 0.2:
                    col = [None] * n
                elif kind < 0.4:
                    col = [rnd.choice(pool[:-1])] * n
                else:
                    col = [rnd.choice(pool) for _i in range(n)]
                expect_bits('process_string', [col], (nbytes,), model_string_column(col, nbytes))
                expect_bits('process_string', [col, col[::-1]], (nbytes,),
                            model_string_column(col, nbytes) + model_string_column(col[::-1], nbytes),
                            via_dispatch=True)
    # bytes as well as text
    expect_bits('process_string', [[b'AB', b'CD', None]], (3,), model_string_column([b'AB', b'CD', None], 3))
    expect_bits('process_string', [[b'AB', b'AB']], (3,), text_bits('AB ', 3) + '000000')
    # all missing: all ones and no increments; missing next to values: all-ones increments
    expect_bits('process_string', [[None, None, None]], (2,), ones(16) + '000000')
    expect_bits('process_string', [[None, 'Q']], (2,), '0' * 16 + '000010' + ones(16) + text_bits('Q ', 2))


# ---------------------------------------------------------------------------------------------
# 4. new reference values and constants
# ---------------------------------------------------------------------------------------------
def refvals_and_constants():
    for value, nbits in [(0, 1), (0, 8), (5, 8), (-5, 8), (-127, 8), (127, 8), (-1, 2), (1000, 12), (-(2 ** 20), 22)]:
        for n in (1, 2, 5):
            state = expect_bits('process_new_refval', [[value] * n], (nbits,), model_int(value, nbits) + '000000')
            check(state.new_refvals == {1000: value}, 'new_refvals', state.new_refvals)
    state = expect_bits('process_new_refval', [[3, 3], [-4, -4]], (6,),
                        model_int(3, 6) + '000000' + model_int(-4, 6) + '000000', via_dispatch=True)
    check(state.new_refvals == {1000: 3, 1001: -4}, 'new_refvals', state.new_refvals)

    # different or missing values are refused before anything is written or remembered
    for col in ([1, 2], [1, None], [None, None], [None]):
        state, _ = expect_error('process_new_refval', [col], (8,), AssertionError, '', idx_value=2)
        check(state.new_refvals == {}, 'new_refvals after refusal')
    # a value that does not fit: the sign is out, the magnitude is refused
    state, _ = expect_error('process_new_refval', [[300, 300]], (8,), bitstring.CreationError, '0', idx_value=2)
    check(state.new_refvals == {1000: 300}, 'new_refvals', state.new_refvals)
    expect_error('process_new_refval', [[1, 1]], (1,), ValueError, '', idx_value=2)
    # the second of two columns fails: the first is complete
    expect_error('process_new_refval', [[1, 1], [1, 2]], (8,), AssertionError, model_int(1, 8) + '000000',
                 n_descriptors=2, idx_value=3)

    # constants take a value from every subset and write nothing
    expect_bits('process_constant', [[0, 0, 0]], (0,), '')
    expect_bits('process_constant', [[0, 0.0, False], [0]*3], (0,), '', via_dispatch=True)
    expect_error('process_constant', [[0, 1]], (0,), AssertionError, '', idx_value=2)
    expect_error('process_constant', [[1, 1]], (0,), AssertionError, '', idx_value=2)
    expect_error('process_constant', [[None, None]], (0,), AssertionError, '', idx_value=2)


# ---------------------------------------------------------------------------------------------
# 5. input that does not make a column: same exception, same bits written before it
# ---------------------------------------------------------------------------------------------
def errors():
    # no subset at all
    for method, args in [('process_numeric', (8, 1, 0)), ('process_codeflag', (8,)), ('process_string', (2,)),
                         ('process_new_refval', (8,)), ('process_constant', (0,))]:
        state = CoderState(True, 0, None)
        bit_writer = get_bit_writer()
        try:
            getattr(ENCODER, method + '_compressed')(state, bit_writer, descriptor(), *args)
            check(False, method, 'no error for zero subsets')
        except IndexError:
            check(True)
        check(bit_writer.bit_stream.bin == '' and state.idx_value == 1 and len(state.decoded_descriptors) == 1,
              method, 'state for zero subsets')

        # values exhausted: the descriptor is recorded, the index is not advanced
        state = CoderState(True, 2, [[1], [1]])
        state.idx_value = 1
        bit_writer = get_bit_writer()
        try:
            getattr(ENCODER, method + '_compressed')(state, bit_writer, descriptor(), *args)
            check(False, method, 'no error for exhausted values')
        except IndexError:
            check(True)
        check(bit_writer.bit_stream.bin == '' and state.idx_value == 1 and len(state.decoded_descriptors) == 1,
              method, 'state for exhausted values')

    # fewer lists of values than declared subsets: never "all equal"
    expect_bits('process_numeric', [[5, 5]], (8, 1, 0), ubits(5, 8) + '000000', n_declared=3)
    expect_bits('process_codeflag', [[5, 5]], (8,), ubits(5, 8) + '000010' + '0000', n_declared=3)
    expect_bits('process_string', [['AB', 'AB']], (2,), '0' * 16 + '000010' + text_bits('AB', 2) * 2, n_declared=3)
    expect_bits('process_string', [[None, None]], (2,), '0' * 16 + '000010' + ones(32), n_declared=3)
    expect_error('process_numeric', [[None, None]], (8, 1, 0), TypeError, '', n_declared=3, idx_value=2)
    expect_error('process_codeflag', [[None, None]], (8,), TypeError, '', n_declared=3, idx_value=2)

    # values out of the field
    expect_error('process_codeflag', [[300, 300]], (8,), bitstring.CreationError, '', idx_value=2)
    expect_error('process_codeflag', [[-1, -1]], (8,), bitstring.CreationError, '', idx_value=2)
    expect_error('process_numeric', [[300, 301]], (8, 1, 0), bitstring.CreationError, '', idx_value=2)
    expect_error('process_numeric', [[1, 2]], (8, 1, 5), bitstring.CreationError, '', idx_value=2)
    # ... a width that does not fit six bits: the minimum is written, the width refused
    expect_error('process_codeflag', [[0, 2 ** 64]], (70,), bitstring.CreationError, ubits(0, 70), idx_value=2)
    # values of the wrong type
    expect_error('process_numeric', [['a', 1]], (8, 1, 0), TypeError, '', idx_value=2)
    expect_error('process_codeflag', [['a', 1]], (8,), TypeError, '', idx_value=2)
    # digits are taken as the number they spell
    expect_bits('process_codeflag', [['7', '7']], (8,), ubits(7, 8) + '000000')
    # a number in a column of strings: minimum, width and the increments before it are written
    expect_error('process_string', [['AB', 5, 'CD']], (2,), TypeError,
                 '0' * 16 + '000010' + text_bits('AB', 2), idx_value=2)
    expect_error('process_string', [[5, 5]], (2,), TypeError, '', idx_value=2)
    # a missing value in the middle of increments that fail later
    expect_error('process_string', [[None, 'AB', 5]], (2,), TypeError,
                 '0' * 16 + '000010' + ones(16) + text_bits('AB', 2), idx_value=2)


# ---------------------------------------------------------------------------------------------
# 6. whole messages: bytes as other software wrote them; compressed against uncompressed
# ---------------------------------------------------------------------------------------------
# SHA-256 (first 16 hex digits) of the message the unpatched encoder makes of tests/data/<stub>.json
COMPRESSED_SAMPLES = {
    '207003': '5ca135c4feb83a98',
    'amv2_87': 'fa23bfbdedb58cb9',
    'b005_89': 'ee42e73b632dbdd0',
    'jaso_214': 'e4011e8414fda39e',
    'asr3_190': '8e182fea106097b7',
    'g2nd_208': 'a30981fcb19b5b23',
    'ISMD01_OKPR': 'fcf686e370b355b6',
    'mpco_217': 'c192862b5ab5b105',
}


def normalised(values_all_subsets):
    return [[v.encode('latin-1') if isinstance(v, type(u'')) else v for v in vals] for vals in values_all_subsets]


def messages():
    decoder = Decoder()
    for stub, digest in sorted(COMPRESSED_SAMPLES.items()):
        with open(os.path.join('tests', 'data', stub + '.json')) as ins:
            text = ins.read()
        encoded = ENCODER.process(text)
        check(hashlib.sha256(encoded.serialized_bytes).hexdigest()[:16] == digest, stub, 'octets changed')

        # the same data uncompressed: same values, descriptors and links after decoding
        data = json.loads(text)
        section3 = [s for s in data if isinstance(s[-1], list) and s[-1] and isinstance(s[-1][0], int)][0]
        check(section3[4] is True, stub, 'not compressed?')
        section3[4] = False
        plain = ENCODER.process(json.dumps(data))
        check(plain.serialized_bytes != encoded.serialized_bytes, stub, 'flag ignored')
        a = decoder.process(encoded.serialized_bytes).template_data.value
        b = decoder.process(plain.serialized_bytes).template_data.value
        check(a.decoded_values_all_subsets == b.decoded_values_all_subsets, stub, 'values differ')
        check(a.decoded_values_all_subsets == normalised(json.loads(text)[-2][-1]), stub, 'values not those of JSON')
        check([[d.id for d in ds] for ds in a.decoded_descriptors_all_subsets] ==
              [[d.id for d in ds] for ds in b.decoded_descriptors_all_subsets], stub, 'descriptors differ')
        check(a.bitmap_links_all_subsets == b.bitmap_links_all_subsets, stub, 'links differ')


if __name__ == '__main__':
    exhaustive()
    randomly()
    strings()
    refvals_and_constants()
    errors()
    messages()
    print('demo 7: {} checks passed'.format(N_CHECKS[0]))
