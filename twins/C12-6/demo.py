import os, sys; sys.path.insert(0, os.getcwd())
"""
Differential demonstration for refactor 6 (the path of the descriptor list: section 3
read by a comprehension, the flags of section 3 read once in process_template_data,
the exact-type test hoisted in Coder.process_members, one format for the message of
the unknown descriptor).

Messages are built by hand, octet by octet, so that the expected values are known
before the decoder is run: they are the numbers that were packed. Other
expectations come from the JSON renderings shipped under tests/data and from the
statement of property C12. Exits 0 on the unpatched and on the patched tree.
"""
import contextlib
import io
import itertools
import json
import logging
import shutil
import tempfile
import traceback

import pybufrkit
import pybufrkit.coder
from pybufrkit.decoder import Decoder, generate_bufr_message
from pybufrkit.errors import PyBufrKitError, UnknownDescriptor, BitReadError

DATA = os.path.join('tests', 'data')
N_CHECKS = 0


def check(cond, what):
    global N_CHECKS
    N_CHECKS += 1
    if not cond:
        print('FAILED: {}'.format(what))
        sys.exit(1)


def read(name):
    with open(os.path.join(DATA, name), 'rb') as ins:
        return ins.read()


def u(b):
    return int.from_bytes(b, 'big')


def first(name):
    s = read(name)
    i = s.find(b'BUFR')
    return s[i:i + u(s[i + 4:i + 7])]


# --------------------------------------------------------------------------
# Building a message by hand (edition 4, sections 0 and 1 of tests/data/contrived.bufr:
# master table version 18, no optional section)
# --------------------------------------------------------------------------
SECTION1 = first('contrived.bufr')[8:30]
assert u(SECTION1[:3]) == 22 and SECTION1[9] == 0


def pack(fields):
    """fields: (nbits, value) pairs; value None = all ones. Padded with zeros to an octet."""
    bits = ''
    for nbits, value in fields:
        if value is None:
            value = (1 << nbits) - 1
        assert 0 <= value < (1 << nbits)
        bits += format(value, '0{}b'.format(nbits)) if nbits else ''
    bits += '0' * (-len(bits) % 8)
    return bytes(int(bits[i:i + 8], 2) for i in range(0, len(bits), 8))


def signed(nbits, value):
    """Sign bit and magnitude, the form of a new reference value."""
    return [(1, 1 if value < 0 else 0), (nbits - 1, abs(value))]


def section3(ids, n_subsets=1, compressed=False, declared=None, filler=b''):
    body = b'\x00' + n_subsets.to_bytes(2, 'big') + bytes([0x80 | (0x40 if compressed else 0)])
    for id_ in ids:
        f, x, y = id_ // 100000, id_ // 1000 % 100, id_ % 1000
        body += bytes([(f << 6) | x, y])
    body += filler
    return (len(body) + 3 if declared is None else declared).to_bytes(3, 'big') + body


def message(ids, fields, **kwargs):
    data = pack(fields)
    sec4 = (4 + len(data)).to_bytes(3, 'big') + b'\x00' + data
    rest = SECTION1 + section3(ids, **kwargs) + sec4 + b'7777'
    return b'BUFR' + (8 + len(rest)).to_bytes(3, 'big') + b'\x04' + rest


def values_of(bufr_message):
    return [list(v) for v in bufr_message.template_data.value.decoded_values_all_subsets]


def ids_of(bufr_message):
    return [[d.id for d in ds] for ds in bufr_message.template_data.value.decoded_descriptors_all_subsets]


def plain(v):
    return v.decode('latin-1') if isinstance(v, bytes) else v


interpreting = Decoder()
compiling = Decoder(compiled_template_cache_max=20)
DECODERS = (('interpreted', interpreting), ('compiled', compiling))

# --------------------------------------------------------------------------
# 1. Hand-built messages that decode: (name, descriptors, packed fields, keywords, values, descriptors decoded)
# --------------------------------------------------------------------------
T = 'TEMPERATURE/AIR TEMPERATURE'
GOOD = [
    ('two subsets', [1001, 1002], [(7, 94), (10, 461), (7, 95), (10, 888)], dict(n_subsets=2),
     [[94, 461], [95, 888]], [[1001, 1002]] * 2),
    ('one subset, scaled', [1001, 12001], [(7, 94), (12, 2731)], {},
     [[94, 2731 / 10.0]], [[1001, 12001]]),
    ('missing value', [1001, 12001], [(7, None), (12, None)], {},
     [[None, None]], [[1001, 12001]]),
    ('no subset', [1001, 1002], [], dict(n_subsets=0), [], []),
    ('compressed', [1001, 1002],
     [(7, 90), (6, 3), (3, 4), (3, 5), (3, None), (10, 461), (6, 0)], dict(n_subsets=3, compressed=True),
     [[94, 461], [95, 461], [None, 461]], [[1001, 1002]] * 3),
    ('compressed, one subset', [1001], [(7, 94), (6, 0)], dict(n_subsets=1, compressed=True),
     [[94]], [[1001]]),
    ('no descriptor', [], [], {}, [[]], [[]]),
    ('filler octet in section 3', [1001, 1002], [(7, 94), (10, 461)], dict(filler=b'\x00'),
     [[94, 461]], [[1001, 1002]]),
    ('fixed replication', [102002, 1001, 1002], [(7, 1), (10, 2), (7, 3), (10, 4)], {},
     [[1, 2, 3, 4]], [[1001, 1002, 1001, 1002]]),
    ('delayed replication', [101000, 31001, 1001], [(8, 3), (7, 5), (7, 6), (7, 7)], {},
     [[3, 5, 6, 7]], [[31001, 1001, 1001, 1001]]),
    ('delayed replication, none', [101000, 31001, 1001, 1002], [(8, 0), (10, 9)], {},
     [[0, 9]], [[31001, 1002]]),
    ('delayed replication, per subset', [101000, 31001, 1001], [(8, 2), (7, 5), (7, 6), (8, 0), (8, 1), (7, 9)],
     dict(n_subsets=3), [[2, 5, 6], [0], [1, 9]], [[31001, 1001, 1001], [31001], [31001, 1001]]),
    ('operator 201', [201130, 1001, 201000, 1001], [(9, 300), (7, 94)], {},
     [[300, 94]], [[1001, 1001]]),
    ('sequence', [301001, 301001], [(7, 1), (10, 2), (7, 3), (10, 4)], {},
     [[1, 2, 3, 4]], [[1001, 1002, 1001, 1002]]),
    # 221003: the three descriptors that follow carry no data unless of class 1-9 or 31.
    # The sequence counts for one, its first member for another.
    ('data not present', [1001, 221003, 12001, 301001, 12001, 12001],
     [(7, 94), (7, 95), (10, 461), (12, 2731), (12, 2800)], {},
     [[94, 95, 461, 2731 / 10.0, 2800 / 10.0]], [[1001, 1001, 1002, 12001, 12001]]),
    # the replication descriptor is the one descriptor of the range; not being an element it is processed
    ('data not present, replication in the range', [221001, 101002, 12001, 1001],
     [(12, 2731), (12, 2800), (7, 94)], {},
     [[2731 / 10.0, 2800 / 10.0, 94]], [[12001, 12001, 1001]]),
    # 203012: new reference values of 12 bits for the elements that follow (here inside a sequence,
    # which is itself not an element), up to 203255; cancelled by 203000
    ('new reference values', [203012, 301001, 203255, 301001, 12001, 203000, 1001],
     signed(12, -5) + signed(12, 100) + [(7, 20), (10, 7), (12, 2731), (7, 20)], {},
     [[-5, 100, 15, 107, 2731 / 10.0, 20]], [[1001, 1002, 1001, 1002, 12001, 1001]]),
    # 206008: the local descriptor that follows, whatever it is, takes 8 bits
    ('skipped local descriptor', [206008, 63254, 1001], [(8, 200), (7, 94)], {},
     [[200, 94]], [[63254, 1001]]),
    ('skipped local sequence', [206016, 363254, 1001], [(16, 4660), (7, 94)], {},
     [[4660, 94]], [[363254, 1001]]),
]
for name, ids, fields, kwargs, want_values, want_ids in GOOD:
    m = message(ids, fields, **kwargs)
    for label, decoder in DECODERS:
        # (wiring knows of the undefined element behind 206YYY, not of an undefined sequence there)
        for wire in ((False,) if name == 'skipped local sequence' else (False, True)):
            what = '{} ({}, wire={})'.format(name, label, wire)
            try:
                bm = decoder.process(m + b'trailing', wire_template_data=wire)
            except Exception:
                traceback.print_exc()
                check(False, what + ': does not decode')
            check(bm.unexpanded_descriptors.value == ids, what + ': descriptor list {}'.format(bm.unexpanded_descriptors.value))
            check(values_of(bm) == want_values, what + ': values {}'.format(values_of(bm)))
            check(ids_of(bm) == want_ids, what + ': decoded descriptors {}'.format(ids_of(bm)))
            check(bm.serialized_bytes == m, what + ': octets consumed')
            td = bm.template_data.value
            check(td.is_compressed == bool(kwargs.get('compressed', False)), what + ': compression flag of the data')
            check(td.n_subsets == kwargs.get('n_subsets', 1), what + ': number of subsets of the data')
        # every truncation point
        for n in range(len(m)):
            try:
                decoder.process(m[:n])
                check(False, '{} ({}): prefix of {} octets out of {} decodes'.format(name, label, n, len(m)))
            except PyBufrKitError:
                check(True, '')

# --------------------------------------------------------------------------
# 2. Hand-built messages that must fail, with the type, the text and the place of the error
# --------------------------------------------------------------------------
UNKNOWN = 'Error: Cannot process descriptor {:06d} of type: {}'
BAD = [
    ('undefined element', [1001, 63255], [(7, 94), (8, 0)], {},
     UnknownDescriptor, UNKNOWN.format(63255, 'UndefinedElementDescriptor'), 'process_members'),
    ('undefined element first', [63255], [(8, 0)], {},
     UnknownDescriptor, UNKNOWN.format(63255, 'UndefinedElementDescriptor'), 'process_members'),
    ('undefined sequence', [1001, 363255], [(7, 94), (8, 0)], {},
     UnknownDescriptor, UNKNOWN.format(363255, 'UndefinedSequenceDescriptor'), 'process_members'),
    ('undefined element, compressed', [1001, 63255], [(7, 94), (6, 0), (8, 0)], dict(n_subsets=2, compressed=True),
     UnknownDescriptor, UNKNOWN.format(63255, 'UndefinedElementDescriptor'), 'process_members'),
    ('undefined element in a replication', [101002, 63255], [(16, 0)], {},
     UnknownDescriptor, UNKNOWN.format(63255, 'UndefinedElementDescriptor'), 'process_members'),
    ('undefined sequence in a delayed replication', [101000, 31001, 363255], [(8, 1), (8, 0)], {},
     UnknownDescriptor, UNKNOWN.format(363255, 'UndefinedSequenceDescriptor'), 'process_members'),
    ('undefined element in a data-not-present range', [221001, 63255, 1001], [(7, 94)], {},
     UnknownDescriptor, UNKNOWN.format(63255, 'UndefinedElementDescriptor'), 'process_members'),
    ('undefined element while new reference values are defined', [203012, 63255, 203255], [(12, 0)], {},
     UnknownDescriptor, UNKNOWN.format(63255, 'UndefinedElementDescriptor'), 'process_members'),
    ('undefined replication factor', [101000, 63255, 1001], [(8, 1), (7, 94)], {},
     UnknownDescriptor, UNKNOWN.format(63255, 'UndefinedElementDescriptor'), 'process_element_descriptor'),
    ('undefined replication factor, compressed', [101000, 63255, 1001], [(8, 1), (6, 0), (7, 94), (6, 0)],
     dict(n_subsets=2, compressed=True),
     UnknownDescriptor, UNKNOWN.format(63255, 'UndefinedElementDescriptor'), 'process_element_descriptor'),
    # section 3 declared shorter than its fixed part: 7 octets read, 5 declared
    ('section 3 shorter than its header', [], [], dict(declared=5),
     PyBufrKitError, 'Error: Read exceeds declared section 3 length: 5 by 16 bits', 'process_section'),
    ('section 3 of length zero', [1001], [(7, 94)], dict(declared=0),
     PyBufrKitError, 'Error: Read exceeds declared section 3 length: 0 by 56 bits', 'process_section'),
    ('data missing', [1001, 1002], [(7, 94)], {},
     PyBufrKitError, 'Error: Read exceeds declared section 4 length: 5 by 9 bits', 'process_section'),
]
for name, ids, fields, kwargs, want_type, want_text, want_place in BAD:
    m = message(ids, fields, **kwargs)
    for label, decoder in DECODERS:
        what = '{} ({})'.format(name, label)
        try:
            decoder.process(m)
            check(False, what + ': decodes')
        except PyBufrKitError as e:
            check(type(e) is want_type, what + ': type {}'.format(type(e).__name__))
            check(str(e) == want_text, what + ': text {}'.format(e))
            place = traceback.extract_tb(e.__traceback__)[-1].name
            check(place == want_place, what + ': raised in {}'.format(place))
            check(e.__cause__ is None and e.__context__ is None, what + ': no chained exception')
        # the list of descriptors itself is still readable without the data
        if kwargs.get('declared') is None:
            bm = decoder.process(m, info_only=True)
            check(bm.unexpanded_descriptors.value == ids, what + ': descriptor list, info only')
        else:
            try:
                decoder.process(m, info_only=True)
                check(False, what + ': decodes, info only')
            except PyBufrKitError as e:
                check(type(e) is want_type and str(e) == want_text, what + ': info only: {}'.format(e))

# A declared length of section 3 that leaves room for fewer or more descriptors than there are:
# the list is cut / extended accordingly (two octets per descriptor, an odd octet left over is skipped)
base_ids = [1001, 1002, 12001]
base = message(base_ids, [(7, 94), (10, 461), (12, 2731)])
off3 = 8 + 22
for delta in range(-6, 7):
    declared = 13 + delta
    damaged = base[:off3] + declared.to_bytes(3, 'big') + base[off3 + 3:]
    following = damaged[off3 + 7: off3 + 7 + 40]
    want = [((w >> 14) * 100000 + ((w >> 8) & 0x3f) * 1000 + (w & 0xff))
            for w in (u(following[2 * k: 2 * k + 2]) for k in range((declared - 7) // 2))]
    for label, decoder in DECODERS:
        bm = None
        try:
            bm = decoder.process(damaged)
            ok = True
        except PyBufrKitError:
            ok = False
        check(ok == (delta == 0), 'section 3 declared {:+d} ({}): decodes {}'.format(delta, label, ok))
        # seen through an info-only decoding, when the rest happens to be walkable
        try:
            bm = decoder.process(damaged, info_only=True)
        except PyBufrKitError:
            bm = None
        if bm is not None:
            check(bm.unexpanded_descriptors.value == want,
                  'section 3 declared {:+d} ({}): list {}'.format(delta, label, bm.unexpanded_descriptors.value))
        check(bm is not None or delta != 0, 'section 3 intact: info-only decoding')

# --------------------------------------------------------------------------
# 3. The trace of the walk (logger of pybufrkit.coder at DEBUG level): one line per member
# --------------------------------------------------------------------------
class Collector(logging.Handler):
    def __init__(self):
        logging.Handler.__init__(self)
        self.lines = []

    def emit(self, record):
        self.lines.append(record.getMessage())


def walk_trace(m):
    collector = Collector()
    logger = pybufrkit.coder.log
    old_level, old_propagate = logger.level, logger.propagate
    logger.addHandler(collector)
    logger.setLevel(logging.DEBUG)
    logger.propagate = False
    try:
        try:
            interpreting.process(m, wire_template_data=False)
        except PyBufrKitError:
            pass
    finally:
        logger.removeHandler(collector)
        logger.setLevel(old_level)
        logger.propagate = old_propagate
    return [line for line in collector.lines if line.startswith('Processing ') and line[11:17].isdigit()]


B, S, SEQ = 'WMO BLOCK NUMBER', 'WMO STATION NUMBER', '(WMO block and station numbers)'
trace = walk_trace(message([1001, 221003, 12001, 301001, 12001, 12001],
                           [(7, 94), (7, 95), (10, 461), (12, 2731), (12, 2800)]))
check(trace == ['Processing 001001 ' + B, 'Processing 221003 ', 'Processing 012001 ' + T, 'Processing 301001 ' + SEQ,
                'Processing 001001 ' + B, 'Processing 001002 ' + S, 'Processing 012001 ' + T,
                'Processing 012001 ' + T], 'trace of the data-not-present message: {}'.format(trace))
trace = walk_trace(message([102001, 1001, 363255, 63255], [(7, 94), (10, 461)]))
check(trace == ['Processing 102001 ', 'Processing 001001 ' + B, 'Processing 363255 '],
      'trace up to the undefined sequence: {}'.format(trace))
trace = walk_trace(message([1001, 63255], [(7, 94), (10, 461)]))
check(trace == ['Processing 001001 ' + B, 'Processing 063255 '], 'trace up to the undefined element: {}'.format(trace))

# --------------------------------------------------------------------------
# 4. Sample messages against the shipped JSON renderings (bitmaps, associated fields,
#    compressed strings, skipped local descriptors ...), both ways of running the template
# --------------------------------------------------------------------------
for stub in ['207003', 'uegabe', 'profiler_european', 'b002_95', 'IUSK73_AMMC_182300',
             'jaso_214', 'g2nd_208', 'rado_250', 'mpco_217', 'b005_89']:
    m = first(stub + '.bufr')
    with open(os.path.join(DATA, stub + '.json')) as ins:
        expected = json.load(ins)
    for label, decoder in DECODERS:
        bm = decoder.process(m)
        check(bm.unexpanded_descriptors.value == expected[-3][-1], '{} ({}): descriptor list'.format(stub, label))
        check([[plain(v) for v in subset] for subset in values_of(bm)] == expected[-2][-1],
              '{} ({}): values against json'.format(stub, label))
        check(bm.serialized_bytes == m, '{} ({}): octets'.format(stub, label))

# --------------------------------------------------------------------------
# 5. Streams: a damaged descriptor list or section length is isolated to its message
# --------------------------------------------------------------------------
def undefined_element(m, o3):
    return m[:o3 + 7] + bytes([63, 255]) + m[o3 + 9:]


def undefined_sequence(m, o3):
    return m[:o3 + 7] + bytes([0xc0 | 63, 255]) + m[o3 + 9:]


def shorter3(m, o3):
    return m[:o3] + (u(m[o3:o3 + 3]) - 2).to_bytes(3, 'big') + m[o3 + 3:]


def longer3(m, o3):
    return m[:o3] + (u(m[o3:o3 + 3]) + 2).to_bytes(3, 'big') + m[o3 + 3:]


def stop(m, o3):
    return m[:-4] + b'7778'


DAMAGES = [undefined_element, undefined_sequence, shorter3, longer3, stop]
EXACT_TYPE = {undefined_element: UnknownDescriptor, undefined_sequence: UnknownDescriptor, stop: PyBufrKitError}


def offset3(m):
    off = 8 + u(m[8:11])
    if m[8 + (9 if m[7] == 4 else 7)] & 0x80:
        off += u(m[off:off + 3])
    return off


pool = [first('contrived.bufr'), message([301001, 12001], [(7, 94), (10, 461), (12, 2731)]), first('207003.bufr'),
        first('uegabe.bufr')]
offsets = [offset3(m) for m in pool]
references = [values_of(interpreting.process(m)) for m in pool]


def run(decoder, stream, **kwargs):
    delivered, error = [], None
    err = io.StringIO()
    with contextlib.redirect_stderr(err):
        try:
            for bm in generate_bufr_message(decoder, stream, **kwargs):
                delivered.append(bm)
        except Exception as e:
            error = e
    return delivered, error, err.getvalue()


for order in ((0, 1, 2), (3, 1, 0), (1, 2, 1), (2, 3)):
    n = len(order)
    for damaged in itertools.chain.from_iterable(itertools.combinations(range(n), k) for k in range(n + 1)):
        for damage in (DAMAGES if damaged else DAMAGES[:1]):
            parts = [damage(pool[k], offsets[k]) if pos in damaged else pool[k] for pos, k in enumerate(order)]
            stream = b'\r\r\n'.join(parts) + b'\r\r\n'
            for label, decoder in (DECODERS if len(damaged) < 2 else DECODERS[:1]):
                what = '{} {} {} ({})'.format(order, damaged, damage.__name__, label)
                delivered, error, err = run(decoder, stream, continue_on_error=True)
                want = [pos for pos in range(n) if pos not in damaged]
                check(error is None, what + ': no error escapes: {!r}'.format(error))
                check([bm.serialized_bytes for bm in delivered] == [pool[order[pos]] for pos in want],
                      what + ': delivered messages')
                check([values_of(bm) for bm in delivered] == [references[order[pos]] for pos in want],
                      what + ': delivered values')
                check(err.count('Continuing on next message') == len(damaged), what + ': notices')

                delivered, error, err = run(decoder, stream)
                first_bad = min(damaged) if damaged else n
                check([bm.serialized_bytes for bm in delivered] == [pool[k] for k in order[:first_bad]],
                      what + ': delivered before the failure')
                if damaged:
                    check(isinstance(error, PyBufrKitError), what + ': library error, got {!r}'.format(error))
                    if damage in EXACT_TYPE:
                        check(type(error) is EXACT_TYPE[damage], what + ': type {}'.format(type(error).__name__))
                else:
                    check(error is None, what + ': nothing to report')

# --------------------------------------------------------------------------
# 6. The command line reports the unknown descriptor without a traceback
# --------------------------------------------------------------------------
tmp = tempfile.mkdtemp()
try:
    for damage in DAMAGES:
        path = os.path.join(tmp, damage.__name__ + '.bufr')
        with open(path, 'wb') as outs:
            outs.write(pool[0] + damage(pool[1], offsets[1]) + pool[2])
        for argv, n_ok, n_err in ((['decode', '-m', path], 1, 1),
                                  (['decode', '-m', '--continue-on-error', path], 2, 1),
                                  (['decode', '-m', '--compiled-template-cache-max', '5', path], 1, 1),
                                  (['decode', path], 1, 0)):
            out, err = io.StringIO(), io.StringIO()
            old_argv = sys.argv
            sys.argv = ['pybufrkit'] + argv
            try:
                with contextlib.redirect_stdout(out), contextlib.redirect_stderr(err):
                    pybufrkit.main()  # must return normally
            finally:
                sys.argv = old_argv
            what = '{} {}'.format(damage.__name__, argv[:-1])
            check('Traceback' not in err.getvalue() and 'Traceback' not in out.getvalue(), what + ': no traceback')
            check(out.getvalue().count('<<<<<< section 0 >>>>>>') == n_ok, what + ': messages shown')
            check(err.getvalue().count('Error: ') == n_err, what + ': errors reported: ' + err.getvalue())
            if damage is undefined_element and n_err:
                check('Error: Cannot process descriptor 063255 of type: UndefinedElementDescriptor' in err.getvalue(),
                      what + ': text of the report: ' + err.getvalue())
            if damage is undefined_sequence and n_err:
                check('Error: Cannot process descriptor 363255 of type: UndefinedSequenceDescriptor' in err.getvalue(),
                      what + ': text of the report: ' + err.getvalue())
finally:
    shutil.rmtree(tmp)

print('OK: {} checks'.format(N_CHECKS))
