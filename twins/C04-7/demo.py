import os, sys; sys.path.insert(0, os.getcwd())
"""
Differential demonstration for refactor 7 (encoder side of the length accounting).

Everything the encoder produces is compared with a reference that is computed here with plain string / integer
arithmetic (no pybufrkit, no bitstring): the bits of every section, the octet / even-octet padding, the declared
or computed section lengths, the zero fill of longer declared sections, the refusal of shorter ones and the total
length in section 0.

Run from the worktree root:  /venv/bin/python _out/7/demo.py
"""
import itertools
import logging

import pybufrkit
assert os.path.dirname(os.path.dirname(os.path.abspath(pybufrkit.__file__))) == os.getcwd(), pybufrkit.__file__

from pybufrkit.bitops import get_bit_writer
from pybufrkit.bufr import BufrMessage
from pybufrkit.constants import BITPOS_START
from pybufrkit.decoder import Decoder
from pybufrkit.encoder import Encoder
from pybufrkit.errors import PyBufrKitError

logging.disable(logging.CRITICAL)

N_CHECKS = [0]


def check(cond, *what):
    N_CHECKS[0] += 1
    if not cond:
        print('FAILED:', *what)
        sys.exit(1)


# ---------------------------------------------------------------------------------------------------------------
# Reference model (independent of the library)
# ---------------------------------------------------------------------------------------------------------------
def ubits(value, nbits):
    s = bin(value)[2:]
    assert value >= 0 and len(s) <= nbits, (value, nbits)
    return '0' * (nbits - len(s)) + s


def text_bits(text):
    return ''.join(ubits(ord(c), 8) for c in text)


# (name, kind, nbits) for each section; kind: u = unsigned, b = flag, s = string of 0/1, t = text
SECTION1 = {
    2: [('section_length', 'u', 24), ('master_table_number', 'u', 8), ('originating_centre', 'u', 16),
        ('update_sequence_number', 'u', 8), ('is_section2_presents', 'b', 1), ('flag_bits', 's', 7),
        ('data_category', 'u', 8), ('data_local_subcategory', 'u', 8), ('master_table_version', 'u', 8),
        ('local_table_version', 'u', 8), ('year', 'u', 8), ('month', 'u', 8), ('day', 'u', 8), ('hour', 'u', 8),
        ('minute', 'u', 8), ('second', 'u', 8)],
    3: [('section_length', 'u', 24), ('master_table_number', 'u', 8), ('originating_subcentre', 'u', 8),
        ('originating_centre', 'u', 8), ('update_sequence_number', 'u', 8), ('is_section2_presents', 'b', 1),
        ('flag_bits', 's', 7), ('data_category', 'u', 8), ('data_local_subcategory', 'u', 8),
        ('master_table_version', 'u', 8), ('local_table_version', 'u', 8), ('year', 'u', 8), ('month', 'u', 8),
        ('day', 'u', 8), ('hour', 'u', 8), ('minute', 'u', 8), ('second', 'u', 8)],
    4: [('section_length', 'u', 24), ('master_table_number', 'u', 8), ('originating_centre', 'u', 16),
        ('originating_subcentre', 'u', 16), ('update_sequence_number', 'u', 8), ('is_section2_presents', 'b', 1),
        ('flag_bits', 's', 7), ('data_category', 'u', 8), ('data_i18n_subcategory', 'u', 8),
        ('data_local_subcategory', 'u', 8), ('master_table_version', 'u', 8), ('local_table_version', 'u', 8),
        ('year', 'u', 16), ('month', 'u', 8), ('day', 'u', 8), ('hour', 'u', 8), ('minute', 'u', 8),
        ('second', 'u', 8)],
}
SECTION0 = [('start_signature', 't', 32), ('length', 'u', 24), ('edition', 'u', 8)]
SECTION2 = [('section_length', 'u', 24), ('reserved_bits', 's', 8), ('local_bits', 's', 0)]
SECTION3 = [('section_length', 'u', 24), ('reserved_bits', 's', 8), ('n_subsets', 'u', 16),
            ('is_observation', 'b', 1), ('is_compressed', 'b', 1), ('flag_bits', 's', 6),
            ('unexpanded_descriptors', 'descriptors', 0)]
SECTION4 = [('section_length', 'u', 24), ('reserved_bits', 's', 8), ('template_data', 'data', 0)]
SECTION5 = [('stop_signature', 't', 32)]

NBITS_001001 = 7  # WMO block number: 7 bits, scale 0, reference 0


def layout(index, edition):
    return {0: SECTION0, 1: SECTION1[edition], 2: SECTION2, 3: SECTION3, 4: SECTION4, 5: SECTION5}[index]


def field_bits(kind, nbits, value):
    if kind == 'u':
        return ubits(value, nbits)
    if kind == 'b':
        return '1' if value else '0'
    if kind == 's':
        return value
    if kind == 't':
        return text_bits(value)
    if kind == 'descriptors':
        return ''.join(ubits(d // 100000, 2) + ubits(d // 1000 % 100, 6) + ubits(d % 1000, 8) for d in value)
    if kind == 'data':  # uncompressed subsets of 001001 only
        return ''.join(ubits(v, NBITS_001001) for subset in value for v in subset)
    raise AssertionError(kind)


class Refused(Exception):
    pass


def reference_encode(json_data, ignore_declared_length):
    """
    :return: (bytes, total length, [(section index, start bit, section length or None)])
    """
    edition = json_data[0][2]
    sec2 = json_data[1][{2: 4, 3: 5, 4: 5}[edition]]
    indices = [0, 1] + ([2] if sec2 else []) + [3, 4, 5]
    assert len(indices) == len(json_data)
    out = ''
    sections = []
    for index, values in zip(indices, json_data):
        fields = layout(index, edition)
        assert len(fields) == len(values)
        bits = ''.join(field_bits(kind, nbits, value) for (_, kind, nbits), value in zip(fields, values))
        unit = 16 if edition <= 3 else 8
        bits += '0' * (-len(bits) % unit)
        section_length = None
        if fields[0][0] == 'section_length':
            declared = values[0]
            if declared == 0 or ignore_declared_length:
                section_length = len(bits) // 8
            else:
                section_length = declared
                if declared * 8 < len(bits):
                    nbytes_over = (len(bits) - declared * 8) // 8
                    raise Refused('Writing exceeds declared section length {} by {} bytes'.format(
                        declared, nbytes_over))
                bits += '0' * (declared * 8 - len(bits))
            bits = ubits(section_length, 24) + bits[24:]
        sections.append((index, len(out), section_length))
        out += bits
    assert len(out) % 8 == 0
    nbytes = len(out) // 8
    declared = json_data[0][1]
    if declared == 0 or ignore_declared_length:
        total = nbytes
    elif declared != nbytes:
        raise Refused('Write exceeds declared total length {} by {} bytes'.format(declared, nbytes - declared))
    else:
        total = declared
    out = out[:32] + ubits(total, 24) + out[56:]
    data = bytes(bytearray(int(out[i: i + 8], 2) for i in range(0, len(out), 8)))
    return data, total, sections


def make_json(edition, n_elements, local_bits, lengths, n_subsets=1):
    """lengths: declared lengths of (message, section 1, section 2, section 3, section 4)"""
    has2 = local_bits is not None
    if edition == 2:
        s1 = [lengths[1], 0, 98, 0, has2, '0000000', 0, 0, 13, 0, 12, 1, 2, 3, 4, 5]
    elif edition == 3:
        s1 = [lengths[1], 0, 0, 98, 0, has2, '0000000', 0, 0, 13, 0, 12, 1, 2, 3, 4, 5]
    else:
        s1 = [lengths[1], 0, 98, 0, 0, has2, '0000000', 0, 0, 0, 25, 0, 2012, 1, 2, 3, 4, 5]
    data = [['BUFR', lengths[0], edition], s1]
    if has2:
        data.append([lengths[2], '00000000', local_bits])
    data.append([lengths[3], '00000000', n_subsets, True, False, '000000', [1001] * n_elements])
    data.append([lengths[4], '00000000',
                 [[(i * 37 + 5 + 11 * k) % 127 for i in range(n_elements)] for k in range(n_subsets)]])
    data.append(['7777'])
    return data


ENCODERS = {True: Encoder(ignore_declared_length=True), False: Encoder(ignore_declared_length=False)}
DECODER = Decoder()


def run_encoder(json_data, ignore_declared_length):
    try:
        return ENCODERS[ignore_declared_length].process(json_data, wire_template_data=False)
    except PyBufrKitError as e:
        return e


def compare(json_data, ignore_declared_length, label):
    # The encoder changes nothing in the json, but to be sure hand it a copy
    import copy
    try:
        expected = reference_encode(json_data, ignore_declared_length)
    except Refused as e:
        expected = e
    got = run_encoder(copy.deepcopy(json_data), ignore_declared_length)
    if isinstance(expected, Refused):
        check(type(got) is PyBufrKitError, label, 'expected refusal', expected, 'got', got)
        check(got.message == str(expected), label, str(got), str(expected))
        return None
    check(isinstance(got, BufrMessage), label, 'unexpected', repr(got))
    data, total, sections = expected
    check(got.serialized_bytes == data, label, 'bytes differ', got.serialized_bytes, data)
    check(data[:4] == b'BUFR' and data[-4:] == b'7777', label)
    check(got.length.value == total, label, 'total', got.length.value, total)
    if ignore_declared_length or json_data[0][1] == 0:
        check(total == len(data), label)
    check(len(got.sections) == len(sections), label, 'number of sections')
    for section, (index, start, section_length) in zip(got.sections, sections):
        check(section.get_metadata('index') == index, label, 'index')
        check(section.get_metadata(BITPOS_START) == start, label, 'start of section', index)
        if section_length is None:
            check('section_length' not in section, label)
        else:
            check(section.section_length.value == section_length, label, 'length of section', index,
                  section.section_length.value, section_length)
            check(type(section.section_length.value) is int, label)
    return got


# ---------------------------------------------------------------------------------------------------------------
# 1. BitWriter.set_uint: in-place patch of fields of every width at every alignment
# ---------------------------------------------------------------------------------------------------------------
def demo_set_uint():
    pattern = ''.join('1' if (i * i + i // 3) % 3 else '0' for i in range(75))
    for nbits in (1, 2, 3, 7, 8, 9, 13, 15, 16, 17, 24, 31, 32, 40):
        for bitpos in (0, 1, 5, 8, 11, 16, 27, len(pattern) - nbits):
            for value in {0, 1, (1 << nbits) - 1, (1 << nbits) // 3, 1 << (nbits - 1)}:
                writer = get_bit_writer()
                writer.write_bin(pattern)
                result = writer.set_uint(value, nbits, bitpos)
                check(result is None, 'set_uint returns nothing')
                expected = pattern[:bitpos] + ubits(value, nbits) + pattern[bitpos + nbits:]
                check(writer.bit_stream.bin == expected, 'set_uint', nbits, bitpos, value)
                check(writer.get_pos() == len(pattern), 'set_uint keeps the length')
                # Writing goes on at the end
                writer.write_uint(5, 3)
                writer.write_bytes(b'ab', 2)
                check(writer.bit_stream.bin == expected + '101' + text_bits('ab'), 'append after set_uint')
                writer.write_bin('10')  # 75 + 3 + 16 + 2 bits are 12 octets
                whole = expected + '101' + text_bits('ab') + '10'
                check(writer.to_bytes() == bytes(bytearray(int(whole[i: i + 8], 2) for i in range(0, 96, 8))),
                      'to_bytes after set_uint')

    # Values that do not fit the field are refused by bitstring, and nothing is changed
    refused = (
        (8, 256, ValueError, '256 is too large an unsigned integer for a bitstring of length 8'),
        (24, 1 << 24, ValueError, '16777216 is too large an unsigned integer for a bitstring of length 24'),
        (7, 128, ValueError, '128 is too large an unsigned integer for a bitstring of length 7'),
        (3, -1, ValueError, 'uint cannot be initialised with a negative number'),
        (16, -1, ValueError, 'uint cannot be initialised with a negative number'),
        (8, None, TypeError, 'int() argument must be'),
        (0, 0, ValueError, 'A non-zero length must be specified with a uintbe initialiser'),
        (-8, 1, ValueError, 'length must be > 0'),
        (-3, 1, ValueError, 'length must be > 0'),
    )
    for nbits, value, error_type, text in refused:
        writer = get_bit_writer()
        writer.write_bin(pattern)
        try:
            writer.set_uint(value, nbits, 8)
        except Exception as e:
            check(type(e) is error_type and str(e).startswith(text), 'set_uint error', nbits, value, type(e), e)
        else:
            check(False, 'set_uint must refuse', value, nbits)
        check(writer.bit_stream.bin == pattern, 'refused set_uint changes nothing')

    # write_bytes (shares the bits type with set_uint): padding, truncation, text, exact
    writer = get_bit_writer()
    check(writer.write_bytes(b'BUFR', 4) == b'BUFR', 'write_bytes')
    check(writer.write_bytes(u'77', 4) == b'77  ', 'write_bytes pads')
    check(writer.write_bytes(b'abcdef', 3) == b'abc', 'write_bytes truncates')
    check(writer.write_bytes(b'xy') == b'xy', 'write_bytes without width')
    check(writer.to_bytes() == b'BUFR77  abcxy', 'write_bytes result', writer.to_bytes())
    check(writer.get_pos() == 13 * 8, 'write_bytes position')


# ---------------------------------------------------------------------------------------------------------------
# 2. BufrSection.get_parameter_offset
# ---------------------------------------------------------------------------------------------------------------
def demo_parameter_offset():
    encoder = ENCODERS[True]
    for edition in (2, 3, 4):
        json_data = make_json(edition, 2, '1', [0] * 5)
        message = encoder.process(json_data, wire_template_data=False)
        check(len(message.sections) == 6, 'sections')
        for section in message.sections:
            offset = 0
            for name, kind, nbits in layout(section.get_metadata('index'), edition):
                check(section.get_parameter_offset(name) == offset, 'offset', edition, name)
                offset += nbits
            for name in ('no_such_parameter', '', 'Section_length', None, 7):
                try:
                    section.get_parameter_offset(name)
                except PyBufrKitError as e:
                    check(type(e) is PyBufrKitError and
                          e.message == 'Parameter "{}" not found'.format(name), 'offset error text', e.message)
                else:
                    check(False, 'offset of an unknown parameter')
        check(message.length.parent is message.sections[0], 'parent of length')
        check(message.length.name == 'length', 'name of length')


# ---------------------------------------------------------------------------------------------------------------
# 3. Whole messages: edition x section 2 x data bits modulo 16 x recompute / honour x declared lengths
# ---------------------------------------------------------------------------------------------------------------
def demo_messages():
    n_messages = 0
    local_bits_choices = (None, '', '1', '101', '1' * 8, '10' * 6, '1' * 16, '011' * 7)
    for edition in (2, 3, 4):
        for n_elements in range(0, 17):  # 7 * n modulo 16 takes every value
            for local_bits in local_bits_choices:
                label = 'edition {} n {} local {!r}'.format(edition, n_elements, local_bits)
                zeros = make_json(edition, n_elements, local_bits, [0] * 5)

                # Nothing declared: computed whatever the configuration
                for ignore in (True, False):
                    message = compare(zeros, ignore, label + ' zeros')
                n_messages += 2
                computed = [message.length.value] + [
                    next((s.section_length.value for s in message.sections if s.get_metadata('index') == k), 0)
                    for k in (1, 2, 3, 4)]

                # The decoder reads it back with the same framing
                decoded = DECODER.process(message.serialized_bytes + b'7777 trailing', wire_template_data=False)
                check(decoded.serialized_bytes == message.serialized_bytes, label, 'decoded span')
                check([s.section_length.value for s in decoded.sections if 'section_length' in s] ==
                      [s.section_length.value for s in message.sections if 'section_length' in s], label)

                # Exact lengths declared
                for ignore in (True, False):
                    compare(make_json(edition, n_elements, local_bits, computed), ignore, label + ' exact')
                n_messages += 2

                # Garbage declared: recomputed when ignored; honoured otherwise (refused or filled)
                garbage = [7, 1, 2, 3, 1]
                compare(make_json(edition, n_elements, local_bits, garbage), True, label + ' garbage ignored')
                compare(make_json(edition, n_elements, local_bits, garbage), False, label + ' garbage honoured')
                n_messages += 2

                if n_elements % 4 != 1 and local_bits not in (None, '101', '1' * 16):
                    continue

                # Surplus octets declared in one section at a time (total left to be computed, or exact, or wrong)
                for k in (1, 2, 3, 4):
                    if k == 2 and local_bits is None:
                        continue
                    for surplus in (1, 2, 3, 7):
                        lengths = list(computed)
                        lengths[k] += surplus
                        lengths[0] = 0
                        compare(make_json(edition, n_elements, local_bits, lengths), False,
                                label + ' surplus {} in {}'.format(surplus, k))
                        compare(make_json(edition, n_elements, local_bits, lengths), True,
                                label + ' surplus {} in {} ignored'.format(surplus, k))
                        lengths[0] = computed[0] + surplus
                        compare(make_json(edition, n_elements, local_bits, lengths), False,
                                label + ' surplus {} in {} and total'.format(surplus, k))
                        lengths[0] = computed[0]  # too short by the surplus
                        compare(make_json(edition, n_elements, local_bits, lengths), False,
                                label + ' surplus {} in {} total short'.format(surplus, k))
                        lengths[0] = computed[0] + surplus + 2  # too long
                        compare(make_json(edition, n_elements, local_bits, lengths), False,
                                label + ' surplus {} in {} total long'.format(surplus, k))
                        n_messages += 5
                    # A section declared shorter than its content
                    for deficit in (1, 2, 3):
                        lengths = list(computed)
                        lengths[k] -= deficit
                        lengths[0] = 0
                        if lengths[k] <= 0:
                            continue
                        compare(make_json(edition, n_elements, local_bits, lengths), False,
                                label + ' deficit {} in {}'.format(deficit, k))
                        compare(make_json(edition, n_elements, local_bits, lengths), True,
                                label + ' deficit {} in {} ignored'.format(deficit, k))
                        n_messages += 2
                # Surplus in every section at once
                lengths = [0] + [n + s if n else 0 for n, s in zip(computed[1:], (1, 3, 5, 2))]
                compare(make_json(edition, n_elements, local_bits, lengths), False, label + ' surplus everywhere')
                n_messages += 1

    # Several subsets (more data bits) for good measure
    for edition, n_subsets in itertools.product((2, 3, 4), (2, 3, 5)):
        for n_elements in (1, 2, 3, 9):
            for ignore in (True, False):
                compare(make_json(edition, n_elements, None, [0, 0, 0, 0, 0], n_subsets), ignore, 'subsets')
                n_messages += 1
    return n_messages


# ---------------------------------------------------------------------------------------------------------------
# 4. Sample messages of the test data: lengths recomputed, then the same lengths / longer ones declared and honoured
# ---------------------------------------------------------------------------------------------------------------
def walk(data):
    """Independent walk over the sections of a message: [(index, start octet, length)]"""
    check(data[:4] == b'BUFR' and data[-4:] == b'7777', 'walk: signatures')
    edition = data[7]
    check(int.from_bytes(data[4:7], 'big') == len(data), 'walk: total length')
    spans = [(0, 0, 8)]
    pos = 8
    has2 = bool(data[pos + (7 if edition <= 3 else 9)] & 0x80)
    for index in (1, 2, 3, 4):
        if index == 2 and not has2:
            continue
        length = int.from_bytes(data[pos: pos + 3], 'big')
        check(length % 2 == 0 or edition > 3, 'walk: even number of octets')
        spans.append((index, pos, length))
        pos += length
    spans.append((5, pos, 4))
    check(pos + 4 == len(data), 'walk: extent')
    return spans


def demo_samples():
    import json
    data_dir = os.path.join(os.getcwd(), 'tests', 'data')
    for name in ('207003', 'jaso_214', 'uegabe', 'b005_89', 'rado_250', 'ISMD01_OKPR'):
        with open(os.path.join(data_dir, name + '.json')) as ins:
            json_text = ins.read()
        message = ENCODERS[True].process(json_text)
        data = message.serialized_bytes
        spans = walk(data)
        check(message.length.value == len(data), 'sample', name)
        check(len(spans) == len(message.sections), 'sample sections', name)
        for section, (index, start, length) in zip(message.sections, spans):
            check(section.get_metadata('index') == index, 'sample index', name)
            check(section.get_metadata(BITPOS_START) == start * 8, 'sample start', name)
            if index in (1, 2, 3, 4):
                check(section.section_length.value == length, 'sample section length', name, index)

        # Exactly these lengths declared and honoured: the same bytes
        json_data = json.loads(json_text)
        json_data[0][1] = len(data)
        for values, (index, start, length) in zip(json_data, spans):
            if index in (1, 2, 3, 4):
                values[0] = length
        again = ENCODERS[False].process(json.dumps(json_data))
        check(again.serialized_bytes == data, 'sample honoured', name)

        # Three octets more in section 3 and one more in section 4, total to be computed
        json_data[0][1] = 0
        json_data[-3][0] += 3
        json_data[-2][0] += 1
        longer = ENCODERS[False].process(json_data)
        (_, start3, length3), (_, start4, length4) = spans[-3], spans[-2]
        expected = (b'BUFR' + (len(data) + 4).to_bytes(3, 'big') + data[7: start3] +
                    (length3 + 3).to_bytes(3, 'big') + data[start3 + 3: start4] + b'\0\0\0' +
                    (length4 + 1).to_bytes(3, 'big') + data[start4 + 3: -4] + b'\0' + b'7777')
        check(longer.serialized_bytes == expected, 'sample longer', name)
        check(longer.length.value == len(data) + 4, 'sample longer total', name)
        check([s.section_length.value for s in longer.sections[-3:-1]] == [length3 + 3, length4 + 1], 'sample', name)

        # ... and with a total that does not agree
        json_data[0][1] = len(data)
        got = run_encoder(json_data, False)
        check(type(got) is PyBufrKitError and got.message ==
              'Write exceeds declared total length {} by {} bytes'.format(len(data), 4), 'sample total', got)
        # ... and section 4 one octet short
        json_data[0][1] = 0
        json_data[-2][0] = length4 - 1
        got = run_encoder(json_data, False)
        check(type(got) is PyBufrKitError and got.message ==
              'Writing exceeds declared section length {} by {} bytes'.format(length4 - 1, 1), 'sample short', got)
        check(ENCODERS[True].process(json_data).serialized_bytes == data, 'sample recomputed', name)


if __name__ == '__main__':
    demo_set_uint()
    demo_parameter_offset()
    n = demo_messages()
    demo_samples()
    print('OK: {} messages, {} checks'.format(n, N_CHECKS[0]))
