"""
Demo for refactor 2: nested text -> flat JSON (pybufrkit/utils.py).

Run as:  cd /tmp/tw_C09 && /venv/bin/python _out/2/demo.py
"""
import os, sys; sys.path.insert(0, os.getcwd())

import logging
import shutil
import tempfile

logging.disable(logging.CRITICAL)

import pybufrkit
assert os.path.dirname(os.path.abspath(pybufrkit.__file__)) == os.path.join(os.getcwd(), 'pybufrkit'), pybufrkit.__file__

from pybufrkit.errors import PyBufrKitError
from pybufrkit.commands import command_encode
from pybufrkit.decoder import Decoder
from pybufrkit.encoder import Encoder
from pybufrkit.renderer import FlatJsonRenderer, NestedTextRenderer
from pybufrkit.utils import nested_text_to_flat_json, subsets_nested_text_to_flat_json

decoder = Decoder()
encoder = Encoder()


class NS(object):
    def __init__(self, **kwargs):
        self._m = kwargs

    def __getattr__(self, item):
        return self.__dict__['_m'].get(item, None)


def build(descriptors, subsets, compressed=False):
    return [
        ['BUFR', 0, 4],
        [0, 0, 0, 0, 0, False, '0000000', 0, 0, 0, 25, 0, 2020, 1, 2, 3, 4, 5],
        [0, '00000000', len(subsets), True, compressed, '000000', list(descriptors)],
        [0, '00000000', [list(s) for s in subsets]],
        ['7777'],
    ]


def raises(exc_type, func, *args):
    try:
        func(*args)
    except Exception as e:
        assert type(e) is exc_type, (type(e), e)
        return e
    raise AssertionError('no exception')


tmpdir = tempfile.mkdtemp()


def cli_encode_nested_text(nested_text):
    """The bytes the command line produces from a file in nested text format"""
    fin, fout = os.path.join(tmpdir, 'in.txt'), os.path.join(tmpdir, 'out.bufr')
    with open(fin, 'w') as outs:
        outs.write(nested_text)
    command_encode(NS(filename=fin, output_filename=fout, json=False, attributed=True))
    with open(fout, 'rb') as ins:
        return ins.read()


def check_message(message, label, reencode=False):
    flat = FlatJsonRenderer().render(message)
    nested_text = NestedTextRenderer().render(message)
    converted = nested_text_to_flat_json(nested_text)
    assert converted == flat, label
    assert repr(converted) == repr(flat), label   # int/float/bytes/None kept as such
    # trailing newline and Windows line ends make no difference
    assert nested_text_to_flat_json(nested_text + '\n') == flat, label
    assert nested_text_to_flat_json(nested_text.replace('\n', '\r\n')) == flat, label
    if reencode:
        assert encoder.process(converted).serialized_bytes == encoder.process(flat).serialized_bytes, label
        assert cli_encode_nested_text(nested_text) == encoder.process(flat).serialized_bytes, label
    return flat, nested_text


try:
    # ------------------------------------------------------------ sample files
    SAMPLES = (
        ('tests/data/contrived.bufr', True),
        ('tests/data/207003.bufr', True),            # compressed with delayed replication
        ('tests/data/rado_250.bufr', False),         # 222000, 224000, 236000
        ('tests/data/profiler_european.bufr', True),  # 204001 associated fields
        ('tests/data/uegabe.bufr', True),            # 204004 associated fields
        ('tests/data/jaso_214.bufr', False),         # compressed, associated fields
        ('tests/data/b002_95.bufr', False),          # skipped local descriptors
        ('tests/data/ISMD01_OKPR.bufr', True),       # compressed strings
        ('tests/data/g2nd_208.bufr', False),
        ('tests/data/prepbufr.bufr', False),
        ('tests/benchmark_data/ship_13.bufr', False),
        ('tests/benchmark_data/b004_145.bufr', False),
        ('tests/benchmark_data/ocea_131.bufr', False),
        ('tests/benchmark_data/syno_1.bufr', False),
    )
    for path, reencode in SAMPLES:
        with open(path, 'rb') as ins:
            message = decoder.process(ins.read())
        check_message(message, path, reencode)

    # -------------------------------------------------------- synthetic shapes
    CASES = {
        'strings_flags_zero_replication': (
            [1015, 2002, 102000, 31001, 12001, 1015, 20003],
            [[b'A "q" \'s\'  x\xe9\xff', 5, 2, 280.5, b"it's", None, b' lead', 3],
             [None, None, 0, None]]),
        'strings_that_look_like_markup': (
            [1015, 1015, 1015, 1015, 1015, 1015],
            [[b"-> A b'x'", b'# 3 <<<<<<', b' b"q" b\'', b'######', b"ends with '", b'ends with "'],
             [b"a b'c\"", b'\\', b"'", b'"', b'', b"'\""]]),
        'associated_fields': (
            [204008, 31021, 12001, 10004, 204000, 12001],
            [[1, 3, 280.5, None, 10000.0, 281.5]]),
        'chained_attributes_first_order_stats': (
            [1001, 12001, 224000, 236000, 101002, 31031, 1031, 1032, 8023, 101002, 224255],
            [[1, 280.0, 0, 0, 0, 0, 98, 1, 4, 2, 281.0]]),
        'qa_on_plain_elements': (
            [1001, 12001, 222000, 236000, 101002, 31031, 1031, 1032, 101002, 33007],
            [[1, 280.0, 0, 0, 0, 0, 98, 1, 70, None]]),
        'nested_replications': (
            [104002, 102000, 31001, 12001, 1015, 20003],
            [[1, 280.0, b'x y', 0, 3],
             [0, 2, 281.0, b'a', 282.0, b'b', None]]),
    }
    for name, (descriptors, subsets) in CASES.items():
        encoded = encoder.process(build(descriptors, subsets))
        message = decoder.process(encoded.serialized_bytes)
        flat, nested_text = check_message(message, name, reencode=True)
        assert encoder.process(nested_text_to_flat_json(nested_text)).serialized_bytes == encoded.serialized_bytes

    # (a) attribute hanging on a replication factor: its line is prefixed by dots, as is
    #     the line of the factor; it is a reference like any other attribute, not a value
    encoded = encoder.process(build(
        [1001, 1002, 101000, 31001, 12001, 222000, 236000, 101005, 31031, 1031, 1032, 101005, 33007],
        [[1, 2, 2, 280.0, 281.0, 0, 0, 0, 0, 0, 0, 0, 98, 1, 70, 71, 72, 73, 74]]))
    message = decoder.process(encoded.serialized_bytes)
    flat = FlatJsonRenderer().render(message)
    converted = nested_text_to_flat_json(NestedTextRenderer().render(message))
    assert converted == flat
    assert encoder.process(converted).serialized_bytes == encoded.serialized_bytes

    with open('tests/benchmark_data/ocea_133.bufr', 'rb') as ins:
        message = decoder.process(ins.read())
    flat = FlatJsonRenderer().render(message)
    converted = nested_text_to_flat_json(NestedTextRenderer().render(message))
    assert converted == flat

    # ---- a shape whose nested text does not convert back today: behaviour is pinned
    # (b) 221YYY data not present: the skipped element is rendered as "id name"
    encoded = encoder.process(build([221003, 4001, 12001, 4002, 12001], [[2020, 11, 280.0]]))
    message = decoder.process(encoded.serialized_bytes)
    nested_text = NestedTextRenderer().render(message)
    raises(ValueError, nested_text_to_flat_json, nested_text)
    fin = os.path.join(tmpdir, 'bad.txt')
    with open(fin, 'w') as outs:
        outs.write(nested_text)
    e = raises(PyBufrKitError, command_encode,
               NS(filename=fin, output_filename=os.path.join(tmpdir, 'x'), json=False, attributed=True))
    assert 'Nested Text' in str(e)

    # ------------------------------------------ hand-made lines, the helper alone
    lines = [
        '###### subset 1 of 2 ######',
        '309052 (a sequence is skipped whatever follows) 5',
        '    001001 WMO BLOCK NUMBER 94',
        '        -> 033007 PER CENT CONFIDENCE 70',
        '    204008',
        '    012001 TEMPERATURE 280.5',
        '        -> A12001 AssociatedField 3',
        '            -> 031021 ASSOCIATED FIELD SIGNIFICANCE 1',
        '    001015 STATION OR SITE NAME b"it\'s  "',
        "    001015 STATION OR SITE NAME b' b\\'x'",
        '        -> A01015 AssociatedField None',
        '    101002',
        '    ....031001 DELAYED DESCRIPTOR REPLICATION FACTOR 2',
        '        # --- 1 of 2 replications ---',
        '        010004 PRESSURE -1e-05',
        '        # --- 2 of 2 replications ---',
        '        010004 PRESSURE (1,2)',
        '',
        '   ',
        '->',
        '###### subset 2 of 2 ######',
        '-> A01001 AssociatedField 9',
        '020003 PRESENT WEATHER None',
        '-> A20003 AssociatedField 8',
        '   <<<<<< section 5 >>>>>>',
        'never reached',
    ]
    expected = [
        [94, 3, 280.5, b"it's  ", None, b" b'x", 2, -1e-05, (1, 2)],
        [9, 8, None],
    ]
    before = list(lines)
    assert subsets_nested_text_to_flat_json(lines, 0) == (24, expected)
    assert lines == before
    assert subsets_nested_text_to_flat_json(tuple(lines), 20) == (24, [[9, 8, None]])
    assert subsets_nested_text_to_flat_json(lines, 24) == (24, [])          # already at a section header
    assert subsets_nested_text_to_flat_json(lines, -2) == (-2, [])         # negative index: returned as given
    assert subsets_nested_text_to_flat_json(['<<<<<<'], 0) == (0, [])
    assert subsets_nested_text_to_flat_json(['######', '######', '<<<<<<'], 0) == (2, [[], []])

    header = 'table group key\n<<<<<< section 0 >>>>>>\na = 1\n'
    assert nested_text_to_flat_json('') == []
    assert nested_text_to_flat_json('only the first line') == []
    assert nested_text_to_flat_json(header) == [[1]]
    assert nested_text_to_flat_json(header + '###### subset 1 of 1 ######\n001001 X 5\n<<<<<< section 5 >>>>>>\n'
                                             "stop_signature = b'7777'") == [[1, [[5]]], [b'7777']]

    # -------------------------------------------------------------- error cases
    raises(IndexError, subsets_nested_text_to_flat_json, [], 0)
    raises(IndexError, subsets_nested_text_to_flat_json, ['###### subset 1 of 1 ######', '001001 X 5'], 0)
    raises(IndexError, subsets_nested_text_to_flat_json, ['001001 X 5', '<<<<<<'], 0)          # no subset yet
    raises(IndexError, subsets_nested_text_to_flat_json, ['-> A01001 X 5', '<<<<<<'], 0)
    raises(IndexError, nested_text_to_flat_json, header + '###### subset 1 of 1 ######\n001001 X 5')
    raises(ValueError, subsets_nested_text_to_flat_json, ['######', '012001 TEMPERATURE/AIR TEMPERATURE', '<<<<<<'], 0)
    raises(SyntaxError, subsets_nested_text_to_flat_json, ['######', '001001 X 5)', '<<<<<<'], 0)
    raises(ValueError, subsets_nested_text_to_flat_json, ['######', '001001 X', '<<<<<<'], 0)
    # a text (not bytes) literal has no " b'" left bound: the whole line is evaluated
    raises(SyntaxError, subsets_nested_text_to_flat_json, ['######', "001015 NAME 'abc'", '<<<<<<'], 0)
    raises(SyntaxError, subsets_nested_text_to_flat_json, ['######', 'x "', '<<<<<<'], 0)
    # the value is parsed before the subset is looked up
    raises(ValueError, subsets_nested_text_to_flat_json, ['001001 X y', '<<<<<<'], 0)
    raises(AttributeError, subsets_nested_text_to_flat_json, [5], 0)
    raises(TypeError, subsets_nested_text_to_flat_json, None, 0)
    raises(AttributeError, nested_text_to_flat_json, None)
finally:
    shutil.rmtree(tmpdir, ignore_errors=True)

print('demo 2 OK')
