import os, sys; sys.path.insert(0, os.getcwd())
"""
Differential demonstration for refactor 5 (table definition messages met while scanning a stream).

Everything that is compared with the output of generate_bufr_message is computed without it:

* the pieces of a stream are known by construction (the stream is assembled here from messages
  cut out of the sample files with the declared length of section 0),
* the table entries a definition message registers are computed by calling
  BufrTableDefinitionProcessor on a message decoded on its own,
* the values of the messages that need those entries are computed by decoding each piece on its own
  after registering the entries by hand.
"""
import contextlib
import io
import logging

import pybufrkit
import pybufrkit.decoder as decoder_module
from pybufrkit.decoder import Decoder, generate_bufr_message
from pybufrkit.errors import PyBufrKitError
from pybufrkit.dataprocessor import BufrTableDefinitionProcessor
from pybufrkit import tables
from pybufrkit.tables import TableGroupCacheManager, TableGroupCache

assert os.path.dirname(os.path.abspath(pybufrkit.__file__)) == os.path.join(os.getcwd(), 'pybufrkit')

DATA = os.path.join('tests', 'data')
N_CHECKS = [0]


def check(cond, what):
    N_CHECKS[0] += 1
    if not cond:
        print('FAIL: ' + what)
        sys.exit(1)


def read(name):
    with open(os.path.join(DATA, name), 'rb') as ins:
        return ins.read()


def cut(s):
    """Independent splitter of a clean concatenation of messages: declared length of section 0."""
    pieces, i = [], 0
    while True:
        i = s.find(b'BUFR', i)
        if i < 0:
            return pieces
        n = int.from_bytes(s[i + 4:i + 7], 'big')
        assert s[i + n - 4:i + n] == b'7777'
        pieces.append(s[i:i + n])
        i += n


def with_category(message, category):
    """The same message with another data category (edition 3: octet 9 of section 1, edition 4: octet 11)."""
    offset = {3: 8 + 8, 4: 8 + 10}[message[7]]
    return message[:offset] + bytes([category]) + message[offset + 1:]


def reset_tables():
    TableGroupCacheManager._TABLE_GROUP_CACHE = TableGroupCache()


def extras():
    cache = TableGroupCacheManager._TABLE_GROUP_CACHE
    return dict(cache.extra_b_entries), dict(cache.extra_d_entries)


class Warnings(logging.Handler):
    def __init__(self):
        logging.Handler.__init__(self, level=logging.WARNING)
        self.messages = []

    def emit(self, record):
        self.messages.append(record.getMessage())


warnings = Warnings()
decoder_module.log.addHandler(warnings)
decoder_module.log.propagate = False
logging.getLogger(tables.__file__).addHandler(logging.NullHandler())
logging.getLogger(tables.__file__).propagate = False

SENTINEL = ('sentinel',)


class BareDecoder(object):
    """Something that decodes but has no attribute compiled_template_manager at all."""

    def __init__(self):
        self._decoder = Decoder()

    def process(self, *args, **kwargs):
        return self._decoder.process(*args, **kwargs)


def make_decoder(kind):
    if kind == 'plain':
        d = Decoder()
        assert d.compiled_template_manager is None
    elif kind == 'compiling':
        d = Decoder(compiled_template_cache_max=20)
        d.compiled_template_manager.cache[SENTINEL] = None
    else:
        d = BareDecoder()
        assert not hasattr(d, 'compiled_template_manager')
    return d


def sentinel_present(d):
    return SENTINEL in d.compiled_template_manager.cache


def values_of(m):
    return m.template_data.value.decoded_values_all_subsets


# ---------------------------------------------------------------------------------------------
# The material
# ---------------------------------------------------------------------------------------------
prep = cut(read('prepbufr.bufr'))
check(len(prep) == 13, 'prepbufr.bufr is 13 messages')
definition, empty_definition, observations = prep[0], prep[1], prep[2:]

# What the definition message defines, computed on its own
reset_tables()
_, B_EXPECTED, D_EXPECTED = BufrTableDefinitionProcessor().process(Decoder().process(definition))
check(len(B_EXPECTED) > 0 and len(D_EXPECTED) > 0, 'the definition message defines entries')
check(extras() == ({}, {}), 'the processor alone registers nothing')

# The observations can only be decoded with these entries
reset_tables()
try:
    Decoder().process(observations[0])
except Exception:
    pass
else:
    check(False, 'the observations need the local entries')

reset_tables()
TableGroupCacheManager.add_extra_entries(B_EXPECTED, D_EXPECTED)
OBS_VALUES = [values_of(Decoder().process(piece)) for piece in observations]

reset_tables()
ordinary = [read('b002_95.bufr'), read('uegabe.bufr'), read('contrived.bufr'), read('207003.bufr')]
ORDINARY_VALUES = [values_of(Decoder().process(piece)) for piece in ordinary]

separators = [b'', b'\r\r\n', b'\x01\r\r\n001\r\r\nIUSK73 AMMC 182300\r\r\n', b'BUF', b'\x00\xff7777BU', b'BUFBUF']


def join(pieces):
    chunks = [separators[2]]
    for i, piece in enumerate(pieces):
        chunks.append(piece)
        chunks.append(separators[i % len(separators)])
    return b''.join(chunks)


# ---------------------------------------------------------------------------------------------
# 1. Definitions are found, registered, and the compiled templates dropped: full decode, no filter
# ---------------------------------------------------------------------------------------------
stream_pieces = [ordinary[0], definition, empty_definition] + observations + [ordinary[1]]
stream = join(stream_pieces)
for kind in ('plain', 'compiling', 'bare'):
    reset_tables()
    del warnings.messages[:]
    d = make_decoder(kind)
    got = []
    for k, m in enumerate(generate_bufr_message(d, stream)):
        got.append(m)
        if k == 0:
            check(extras() == ({}, {}), 'nothing registered by an ordinary message ({})'.format(kind))
            if kind == 'compiling':
                check(sentinel_present(d), 'compiled templates kept by an ordinary message')
                check(len(d.compiled_template_manager.cache) == 2, 'the ordinary message was compiled')
        if k == 1:
            check(extras() == (B_EXPECTED, D_EXPECTED), 'entries registered when the message is handed out ({})'.format(kind))
            if kind == 'compiling':
                check(d.compiled_template_manager.cache == {}, 'compiled templates dropped')
                d.compiled_template_manager.cache[SENTINEL] = None
        if k == 2 and kind == 'compiling':
            check(sentinel_present(d), 'a definition message without subsets drops nothing')
    check([m.serialized_bytes for m in got] == stream_pieces, 'pieces, full decode ({})'.format(kind))
    check(b''.join(m.serialized_bytes for m in got) == b''.join(stream_pieces), 'concatenation ({})'.format(kind))
    check([values_of(m) for m in got[3:-1]] == OBS_VALUES, 'values of the observations ({})'.format(kind))
    check(values_of(got[0]) == ORDINARY_VALUES[0] and values_of(got[-1]) == ORDINARY_VALUES[1],
          'values of the ordinary messages ({})'.format(kind))
    check([m.data_category.value for m in got] == [2, 11, 11] + [243] * 11 + [2], 'categories ({})'.format(kind))
    check(extras() == (B_EXPECTED, D_EXPECTED), 'entries at the end ({})'.format(kind))
    check(warnings.messages == [], 'no warning ({})'.format(kind))

# ---------------------------------------------------------------------------------------------
# 2. Metadata only: nothing is registered, nothing dropped, the pieces are the same
# ---------------------------------------------------------------------------------------------
for kind in ('plain', 'compiling', 'bare'):
    reset_tables()
    d = make_decoder(kind)
    got = list(generate_bufr_message(d, stream, info_only=True))
    check([m.serialized_bytes for m in got] == stream_pieces, 'pieces, info only ({})'.format(kind))
    check(extras() == ({}, {}), 'info only registers nothing ({})'.format(kind))
    if kind == 'compiling':
        check(list(d.compiled_template_manager.cache) == [SENTINEL], 'info only drops nothing')
    got = list(generate_bufr_message(d, stream, info_only=True, filter_expr='${%data_category} == 11'))
    check([m.serialized_bytes for m in got] == [definition, empty_definition], 'filtered pieces, info only')
    check(extras() == ({}, {}), 'info only with a filter registers nothing ({})'.format(kind))

# ---------------------------------------------------------------------------------------------
# 3. A filter that rejects the definition message: it is decoded in full all the same and registered
# ---------------------------------------------------------------------------------------------
for kind in ('plain', 'compiling', 'bare'):
    reset_tables()
    del warnings.messages[:]
    d = make_decoder(kind)
    got = list(generate_bufr_message(d, stream, filter_expr='${%data_category} == 243'))
    check([m.serialized_bytes for m in got] == observations, 'pieces, filter rejecting the definitions ({})'.format(kind))
    check([values_of(m) for m in got] == OBS_VALUES, 'values, filter rejecting the definitions ({})'.format(kind))
    check(extras() == (B_EXPECTED, D_EXPECTED), 'entries, filter rejecting the definitions ({})'.format(kind))
    if kind == 'compiling':
        check(not sentinel_present(d), 'compiled templates dropped, filter rejecting the definitions')
    check(warnings.messages == [], 'no warning')

# A filter that accepts only the definition messages: registered from the one decode
for kind in ('plain', 'compiling'):
    reset_tables()
    d = make_decoder(kind)
    calls = []
    original = d.process
    d.process = lambda *a, **k: (calls.append(k['info_only']), original(*a, **k))[1]
    got = list(generate_bufr_message(d, stream, filter_expr='${%data_category} == 11'))
    check([m.serialized_bytes for m in got] == [definition, empty_definition], 'pieces, filter accepting the definitions')
    check(extras() == (B_EXPECTED, D_EXPECTED), 'entries, filter accepting the definitions')
    # one metadata decode per message, one full decode per accepted message
    check(calls == [True] + [True, False] * 2 + [True] * 12, 'decodes, filter accepting the definitions: {}'.format(calls))
    if kind == 'compiling':
        check(list(d.compiled_template_manager.cache) != [SENTINEL] and not sentinel_present(d), 'dropped')

    reset_tables()
    del calls[:]
    got = list(generate_bufr_message(d, join([definition, ordinary[0], empty_definition]),
                                     filter_expr='${%data_category} == 2'))
    check([m.serialized_bytes for m in got] == [ordinary[0]], 'pieces, small stream')
    # rejected definition: metadata, then in full; accepted: metadata, in full; rejected without subsets: metadata
    check(calls == [True, False, True, False, True], 'decodes, small stream: {}'.format(calls))
    check(extras() == (B_EXPECTED, D_EXPECTED), 'entries, small stream')

# ---------------------------------------------------------------------------------------------
# 4. Data category 11 in another layout: a warning, nothing registered, nothing dropped, the message is handed out
# ---------------------------------------------------------------------------------------------
impostors = [with_category(m, 11) for m in ordinary]
for impostor, plain_values in zip(impostors, ORDINARY_VALUES):
    reset_tables()
    try:
        BufrTableDefinitionProcessor().process(Decoder().process(impostor))
    except PyBufrKitError as e:
        expected_warning = 'No table definitions taken from the message: {}'.format(e)
    else:
        check(False, 'the impostor is not a definition message')

    for kind in ('plain', 'compiling', 'bare'):
        for filter_expr, expected_pieces in ((None, [ordinary[2], impostor, ordinary[1]]),
                                             ('${%data_category} != 11', [ordinary[2], ordinary[1]]),
                                             ('${%data_category} == 11', [impostor])):
            reset_tables()
            del warnings.messages[:]
            d = make_decoder(kind)
            got = list(generate_bufr_message(d, join([ordinary[2], impostor, ordinary[1]]), filter_expr=filter_expr))
            check([m.serialized_bytes for m in got] == expected_pieces, 'pieces with an impostor')
            check(warnings.messages == [expected_warning], 'warning: {} / {}'.format(warnings.messages, expected_warning))
            check(extras() == ({}, {}), 'an impostor registers nothing')
            if kind == 'compiling':
                check(sentinel_present(d), 'an impostor drops nothing')
            if filter_expr != '${%data_category} != 11':
                m = [m for m in got if m.data_category.value == 11][0]
                check(values_of(m) == plain_values, 'values of the impostor')

    # metadata only: not even looked at
    reset_tables()
    del warnings.messages[:]
    got = list(generate_bufr_message(Decoder(), join([impostor, ordinary[2]]), info_only=True))
    check([m.serialized_bytes for m in got] == [impostor, ordinary[2]], 'pieces with an impostor, info only')
    check(warnings.messages == [], 'no warning, info only')

# ---------------------------------------------------------------------------------------------
# 5. Errors: only a PyBufrKitError of the *processor* is turned into a warning
# ---------------------------------------------------------------------------------------------
small = join([definition, ordinary[0]])


@contextlib.contextmanager
def patched(owner, name, replacement):
    original = owner.__dict__[name]
    setattr(owner, name, replacement)
    try:
        yield
    finally:
        setattr(owner, name, original)


def boom(exception):
    def f(*args, **kwargs):
        raise exception
    return f


# 5a. registration itself fails with a PyBufrKitError: reaches the caller / the continue_on_error handler
for name in ('invalidate', 'add_extra_entries'):
    error = PyBufrKitError('boom in ' + name)
    with patched(TableGroupCacheManager, name, classmethod(boom(error))):
        reset_tables()
        del warnings.messages[:]
        try:
            list(generate_bufr_message(Decoder(), small))
        except PyBufrKitError as e:
            check(e is error, 'the error of the registration is raised')
        else:
            check(False, 'the error of the registration is not swallowed')
        check(warnings.messages == [], 'and is not a warning')

        reset_tables()
        err = io.StringIO()
        with contextlib.redirect_stderr(err):
            got = list(generate_bufr_message(Decoder(), small, continue_on_error=True))
        check(err.getvalue() == 'Continuing on next message and ignoring error: Error: boom in {}\n'.format(name), 'reported: ' + repr(err.getvalue()))
        check([m.serialized_bytes for m in got] == [ordinary[0]], 'scan resumes after the definition message')
        check(warnings.messages == [], 'still not a warning')

# 5b. the cache of compiled templates cannot be cleared
error = PyBufrKitError('no clear')


class Unclearable(dict):
    def clear(self):
        raise error


reset_tables()
d = make_decoder('compiling')
d.compiled_template_manager.cache = Unclearable()
try:
    list(generate_bufr_message(d, small))
except PyBufrKitError as e:
    check(e is error, 'error of clear() raised')
else:
    check(False, 'error of clear() not swallowed')
check(extras() == (B_EXPECTED, D_EXPECTED), 'registered before the clear')

# 5c. the processor fails with something that is not a PyBufrKitError: never caught
for continue_on_error in (False, True):
    error = ValueError('not ours')
    with patched(BufrTableDefinitionProcessor, 'process', boom(error)):
        reset_tables()
        del warnings.messages[:]
        try:
            list(generate_bufr_message(Decoder(), small, continue_on_error=continue_on_error))
        except ValueError as e:
            check(e is error, 'foreign error raised')
        else:
            check(False, 'foreign error not swallowed')
        check(warnings.messages == [] and extras() == ({}, {}), 'nothing done')

# 5d. the processor fails with a PyBufrKitError on a genuine definition message: warning, nothing registered
with patched(BufrTableDefinitionProcessor, 'process', boom(PyBufrKitError('odd layout'))):
    reset_tables()
    del warnings.messages[:]
    d = make_decoder('compiling')
    got = list(generate_bufr_message(d, small))
    check([m.serialized_bytes for m in got] == [definition, ordinary[0]], 'both handed out')
    check(warnings.messages == ['No table definitions taken from the message: Error: odd layout'], 'warning of 5d')
    check(extras() == ({}, {}), 'nothing registered in 5d')
    check(sentinel_present(d), 'nothing dropped in 5d')

decoder_module.log.removeHandler(warnings)
print('refactor 5 demo: {} checks passed'.format(N_CHECKS[0]))
