import os, sys; sys.path.insert(0, os.getcwd())
"""
Differential demonstration for refactor 8 (BitStringBitReader).

1. Every kind of read, at every alignment and at many widths, against a model of
   the bit stream made of plain integer arithmetic (no bitstring, no pybufrkit).
2. Reads that cannot be served (too few bits left, widths that make no sense):
   the error against what the bitstring module itself says about the same format
   on the same bits - its own error type must surface as BitReadError with the
   same text, anything else must surface as it is. The position must not move.
3. Messages: sample files against the stored values, a hand made message whose
   template changes reference values (signed reads), and every truncation point
   of six sample messages, full and info only, against the rule
       fewer than 4 octets      -> PyBufrKitError itself (no start signature)
       a longer proper prefix   -> BitReadError
       (info only: the stop signature, 4 octets, is never read, so the prefixes
        that only lack octets of it are decoded)

Exits 0 when every observation is as expected, 1 otherwise.
"""
import random

import bitstring

from pybufrkit.bitops import get_bit_reader, BitReader, BitStringBitReader
from pybufrkit.errors import PyBufrKitError, BitReadError
from pybufrkit.decoder import Decoder
from pybufrkit.encoder import Encoder

FAILURES = []
N_CHECKS = [0]


def check(label, got, expected):
    N_CHECKS[0] += 1
    if got != expected or type(got) is not type(expected):
        FAILURES.append(label)
        if len(FAILURES) < 30:
            print('FAIL {}\n   got      {!r}\n   expected {!r}'.format(label, got, expected))


def outcome(func, *args, **kwargs):
    try:
        return 'returned', func(*args, **kwargs)
    except Exception as e:
        return type(e), str(e)


# ---------------------------------------------------------------------------
# The model
# ---------------------------------------------------------------------------
class Model(object):
    def __init__(self, data):
        self.number = int.from_bytes(data, 'big')
        self.nbits = len(data) * 8
        self.pos = 0

    def uint(self, nbits):
        assert 0 < nbits <= self.nbits - self.pos
        value = (self.number >> (self.nbits - self.pos - nbits)) & ((1 << nbits) - 1)
        self.pos += nbits
        return value

    def read(self, kind, n):
        if kind == 'uint':
            return self.uint(n)
        if kind == 'uint_or_none':
            value = self.uint(n)
            return None if n > 1 and value == (1 << n) - 1 else value
        if kind == 'bool':
            return self.uint(1) == 1
        if kind == 'int':
            negative = self.uint(1)
            if n <= 1:
                return 0
            magnitude = self.uint(n - 1)
            return -magnitude if negative else magnitude
        if kind == 'bin':
            return format(self.uint(n), '0{}b'.format(n)) if n else ''
        if kind == 'bytes':
            return self.uint(n * 8).to_bytes(n, 'big') if n else b''
        raise AssertionError(kind)

    @staticmethod
    def nbits_of(kind, n):
        return {'bool': 1, 'bytes': n * 8, 'int': max(n, 1)}.get(kind, n)


def call(reader, kind, n, style):
    """The three ways in which the library calls a reader"""
    if style == 'method':
        return getattr(reader, 'read_' + kind)(*(() if kind == 'bool' else (n,)))
    if style == 'keyword':
        if kind == 'bool':
            return reader.read_bool()
        return getattr(reader, 'read_' + kind)(**{'nbytes' if kind == 'bytes' else 'nbits': n})
    # the generic entry takes a number of bits for every type
    return reader.read(kind, n * 8 if kind == 'bytes' else n)


rng = random.Random(20260930)
DATA = bytes(rng.randrange(256) for _ in range(4096)) + b'\xff' * 64 + b'\x00' * 64 + bytes(
    rng.randrange(256) for _ in range(2048))

# 1a. a long random walk over the stream
for style in ('method', 'keyword', 'generic'):
    reader, model = get_bit_reader(DATA), Model(DATA)
    check('class of the reader', type(reader) is BitStringBitReader and isinstance(reader, BitReader), True)
    n_reads = 0
    while True:
        kind = rng.choice(['uint', 'uint', 'uint', 'uint_or_none', 'bool', 'int', 'bin', 'bytes'])
        if style == 'generic' and kind == 'uint_or_none':
            kind = 'uint'
        n = rng.choice([1, 2, 3, 7, 8, 9, 12, 15, 16, 17, 24, 31, 32, 33, 64, 65, 128, rng.randrange(1, 200)])
        if kind == 'bytes':
            n = rng.randrange(0, 9)
        if kind == 'bin' and rng.random() < 0.1:
            n = 0
        if Model.nbits_of(kind, n) > model.nbits - model.pos:
            break
        expected = model.read(kind, n)
        got = call(reader, kind, n, style)
        n_reads += 1
        if got != expected or type(got) is not type(expected) or reader.get_pos() != model.pos:
            check('{} read #{} {}({}) at {}'.format(style, n_reads, kind, n, model.pos),
                  (got, reader.get_pos()), (expected, model.pos))
            break
    check('{}: long enough a walk'.format(style), n_reads > 500, True)

# 1b. every kind at every alignment and every width up to 72 bits
for offset in range(0, 17):
    for n in range(1, 73):
        for kind in ('uint', 'uint_or_none', 'int', 'bin'):
            reader, model = get_bit_reader(DATA[4090:4200]), Model(DATA[4090:4200])
            if offset:
                reader.read_bin(offset), model.uint(offset)
            expected = model.read(kind, n)
            check('{}({}) at offset {}'.format(kind, n, offset),
                  (call(reader, kind, n, 'method'), reader.get_pos()), (expected, model.pos))
    reader, model = get_bit_reader(DATA[:40]), Model(DATA[:40])
    if offset:
        reader.read_bin(offset), model.uint(offset)
    for n in (0, 1, 2, 5):
        check('bytes({}) at offset {}'.format(n, offset), reader.read_bytes(n), model.read('bytes', n))
    for _ in range(9):
        check('bool at offset {}'.format(offset), reader.read_bool(), model.read('bool', 0))
    check('position at offset {}'.format(offset), reader.get_pos(), model.pos)

# 1c. signed fields of one bit and less: the sign bit is consumed, the value is 0
reader = get_bit_reader(b'\xa5')
check('signed fields without magnitude',
      [(reader.read_int(1), reader.get_pos()), (reader.read_int(1), reader.get_pos()),
       (reader.read_int(0), reader.get_pos()), (reader.read_int(-3), reader.get_pos())],
      [(0, 1), (0, 2), (0, 3), (0, 4)])
check('missing values', [get_bit_reader(b'\xff\xff').read_uint_or_none(n) for n in (1, 2, 8, 9, 16)],
      [1, None, None, None, None])


# ---------------------------------------------------------------------------
# 2. Reads that cannot be served
# ---------------------------------------------------------------------------
def by_bitstring(data, skip, fmt_string):
    """What the bitstring module says, and what that must look like through the reader"""
    stream = bitstring.BitStream(bytes=data)
    stream.pos = skip
    try:
        return 'returned', stream.read(fmt_string)
    except bitstring.Error as e:
        return BitReadError, 'Error: {}'.format(e.msg)
    except Exception as e:
        return type(e), str(e)


SHORT = b'\x12\x34\x56\x78'
n_library_errors = 0
for skip in (0, 1, 7, 8, 13, 31, 32):
    cases = []
    for n in (0, 1, 7, 8, 16, 19, 24, 25, 31, 32, 33, 40, 64, 1000, -1, -8, 2.0, True, '3', '', 'x', ' 4'):
        if not isinstance(n, str):
            cases.append(('read_uint', n, ('uintbe:{}' if n % 8 == 0 else 'uint:{}').format(n)))
        cases.append(('read_bin', n, 'bin:{}'.format(n)))
        cases.append(('read_bytes', n, 'bytes:{}'.format(n)))
    cases.append(('read_bin', None, 'bin:None'))
    cases.append(('read_bytes', None, 'bytes:None'))
    cases.append(('read_bytes', '1,uint:3', 'bytes:1,uint:3'))
    for method, n, fmt_string in cases:
        reader = get_bit_reader(SHORT)
        if skip:
            reader.read_bin(skip)
        expected = by_bitstring(SHORT, skip, fmt_string)
        got = outcome(getattr(reader, method), n)
        check('{}({!r}) after {} bits'.format(method, n, skip), got, expected)
        if expected[0] != 'returned':
            check('{}({!r}) after {} bits: position'.format(method, n, skip), reader.get_pos(), skip)
            n_library_errors += expected[0] is BitReadError
            # the reader is as usable as before
            if skip < 32:
                check('{}({!r}) after {} bits: next read'.format(method, n, skip),
                      reader.read_bool(), Model(SHORT).uint(skip + 1) & 1 == 1)
check('library errors met', n_library_errors > 100, True)

# widths for which no format is made at all: the error of making it is the error
for method, n, expected in (('read_uint', None, TypeError), ('read_uint', '3', TypeError), ('read_uint', 'x', TypeError),
                            ('read_int', None, TypeError), ('read_uint_or_none', None, TypeError)):
    reader = get_bit_reader(SHORT)
    check('{}({!r})'.format(method, n), outcome(getattr(reader, method), n)[0], expected)
for args, kwargs, expected in (((), {}, TypeError), ((1, 2), {}, TypeError), ((), {'nbits': 1, 'x': 2}, TypeError),
                               ((), {'width': 3}, TypeError)):
    check('read_uint(*{}, **{})'.format(args, kwargs),
          outcome(get_bit_reader(SHORT).read_uint, *args, **kwargs)[0], expected)

# running out of bits in each kind of read, at the very end and one bit before it
SHORTAGE = 'Error: Needed a length of at least {} bits, but only {} bits were available.'
for skip in (31, 32):
    left = 32 - skip
    for kind, n in (('uint', 2), ('uint', 8), ('uint_or_none', 3), ('int', 2), ('int', 9), ('bin', 2), ('bytes', 1),
                    ('bool', 0), ('int', 1), ('int', 0)):
        if left == 1 and kind == 'bool':
            expected = (('returned', False), 32)  # the last bit of the octets is 0
        elif left == 1 and kind == 'int' and n <= 1:
            expected = (('returned', 0), 32)
        elif left == 1 and kind == 'int':
            # the sign is read, the magnitude is what cannot be
            expected = ((BitReadError, SHORTAGE.format(n - 1, 0)), 32)
        elif kind == 'int':
            expected = ((BitReadError, SHORTAGE.format(1, 0)), 32)
        else:
            expected = ((BitReadError, SHORTAGE.format(Model.nbits_of(kind, n), left)), skip)
        for style in ('method', 'keyword', 'generic'):
            if style == 'generic' and kind == 'uint_or_none':
                continue
            reader = get_bit_reader(SHORT)
            reader.read_bin(skip)
            check('{}({}) with {} bits left, {}'.format(kind, n, left, style),
                  (outcome(call, reader, kind, n, style), reader.get_pos()), expected)

error = outcome(get_bit_reader(b'').read_uint, 8)
check('the error is a library error', issubclass(error[0], PyBufrKitError), True)
try:
    get_bit_reader(b'').read_bytes(1)
except BitReadError as e:
    check('message attribute', e.message, 'Needed a length of at least 8 bits, but only 0 bits were available.')
    check('cause is kept as context', type(e.__context__), bitstring.ReadError)

# the generic entry
reader = get_bit_reader(SHORT)
check('generic entry',
      [reader.read('bool', None), reader.read('bytes', 17), reader.read('uint', 3), reader.read('bin', 4),
       reader.get_pos(), outcome(reader.read, 'float', 3)[0], outcome(reader.read, 7, 3)[0],
       outcome(reader.read, 'bytes', None)[0], reader.get_pos()],
      [False, b'$h', 5, '0110', 24, AttributeError, TypeError, TypeError, 24])


# ---------------------------------------------------------------------------
# 3. Messages
# ---------------------------------------------------------------------------
def read_file(name):
    """The message in the file, without what some files have around it"""
    with open(os.path.join('tests', 'data', name), 'rb') as ins:
        s = ins.read()
    start = s.index(b'BUFR')
    return s[start: start + int.from_bytes(s[start + 4: start + 7], 'big')]


def stored_values(stub):
    """The values of all subsets, one after another, as the suite has them stored"""
    ret = []
    with open(os.path.join('tests', 'data', stub + '.values.cmp')) as ins:
        for line in ins:
            field = line.strip().split(' ', 1)[1]
            if field.endswith('L') and field[:-1].lstrip('-').isdigit():
                field = field[:-1]
            ret.append(eval(('b' + field) if field[:1] in '\'"' else field))
    return ret


def same(value, stored):
    if value is None or stored is None or isinstance(value, bytes) or isinstance(stored, bytes):
        return type(value) is type(stored) and value == stored
    return abs(value - stored) <= 1e-9 * max(1.0, abs(stored))


for compiled in (None, 10):
    decoder = Decoder(compiled_template_cache_max=compiled)
    for stub in ('207003', 'profiler_european', 'uegabe', 'b002_95', 'g2nd_208', 'ISMD01_OKPR', 'jaso_214',
                 'rado_250', 'IUSK73_AMMC_182300', 'b005_89'):
        message = read_file(stub + '.bufr')
        bufr_message = decoder.process(message)
        values = [v for subset in bufr_message.template_data.value.decoded_values_all_subsets for v in subset]
        stored = stored_values(stub)
        check('{} (compiled: {}): number of values'.format(stub, compiled), len(values), len(stored))
        different = [i for i, (v, c) in enumerate(zip(values, stored)) if not same(v, c)]
        check('{} (compiled: {}): values'.format(stub, compiled), different, [])
        check('{} (compiled: {}): octets consumed'.format(stub, compiled), bufr_message.serialized_bytes, message)
        # what follows a message has no influence
        again = decoder.process(message + message[:17])
        check('{} (compiled: {}): with trailing octets'.format(stub, compiled),
              (again.serialized_bytes, again.template_data.value.decoded_values_all_subsets),
              (message, bufr_message.template_data.value.decoded_values_all_subsets))


def build(descriptors, values, n_subsets=1, compressed=False):
    flat_json = [
        [b'BUFR', 0, 3],
        [18, 0, 0, 0, 0, False, '0000000', 0, 1, 13, 0, 0, 0, 0, 0, 0, 0],
        [0, '00000000', n_subsets, True, compressed, '000000', descriptors],
        [0, '00000000', values],
        [b'7777'],
    ]
    return Encoder().process(flat_json).serialized_bytes


# 012001: temperature, scale 1, reference 0, 12 bits. New reference values of both signs in
# signed fields of 9, 2 and 1 bits (the last can only hold 0).
TEMPLATE = [203009, 12001, 203255, 12001, 203002, 12001, 203255, 12001, 203001, 12001, 203255, 12001, 203000, 12001]
for compressed, subsets in ((False, [[-200, 10.0, 1, 30.1, 0, 40.0, 50.0], [255, 125.5, -1, 29.9, 0, 0.0, 409.4]]),
                            (True, [[-200, 10.0, 1, 30.1, 0, 40.0, 50.0], [-200, 12.5, 1, 29.9, 0, 0.0, None]])):
    message = build(TEMPLATE, subsets, n_subsets=2, compressed=compressed)
    for compiled in (None, 10):
        got = Decoder(compiled_template_cache_max=compiled).process(message)
        check('new reference values (compressed: {}, compiled: {})'.format(compressed, compiled),
              got.template_data.value.decoded_values_all_subsets, subsets)
    # whichever read is the one that falls short
    for n in range(4, len(message)):
        check('new reference values (compressed: {}), first {} octets'.format(compressed, n),
              outcome(Decoder().process, message[:n])[0], BitReadError)

# every truncation point
decoder = Decoder()
for name in ('contrived.bufr', '207003.bufr', 'profiler_european.bufr', 'uegabe.bufr', 'b002_95.bufr', 'g2nd_208.bufr'):
    message = read_file(name)
    check('{}: one message'.format(name), (message[:4], int.from_bytes(message[4:7], 'big'), message[-4:]),
          (b'BUFR', len(message), b'7777'))
    for info_only in (False, True):
        unexpected = []
        for n in range(len(message)):
            got = outcome(decoder.process, message[:n], info_only=info_only)
            if n < 4:
                expected = (PyBufrKitError, "Error: Cannot find start signature: b'BUFR'")
            elif info_only and n >= len(message) - 4:
                expected = ('returned', None)
                got = (got[0], None)
            else:
                expected = (BitReadError, 'Error: Needed a length of at least ')
                got = (got[0], got[1][:len(expected[1])] if isinstance(got[1], str) else got[1])
            if got != expected:
                unexpected.append((n, got))
        check('{}: prefixes (info only: {})'.format(name, info_only), unexpected, [])

print('{} checks, {} failures'.format(N_CHECKS[0], len(FAILURES)))
sys.exit(1 if FAILURES else 0)
