import os, sys; sys.path.insert(0, os.getcwd())
"""
Differential demonstration for refactor 7 (loop recording of the template compiler).

Everything the compiler records for a replication goes through the code that was
rewritten (CompilerState: opening / closing of a Loop block; TemplateCompiler: fixed and
delayed replication). The demo

 1. compiles templates with fixed, delayed and nested replications (statements before,
    inside, between and behind loops) and compares the recorded block structure with a
    structure written down by hand;
 2. for every assignment of the delayed replication factors in 0..3 (compressed and
    uncompressed, two subsets) builds the message from an independent model of the
    template (a little expander written here), and checks that encoder and decoder,
    with and without compilation, and with a compiled template that went through JSON,
    give exactly the bytes / descriptors / values of the model;
 3. checks the error paths: an exception raised inside a loop body while compiling
    (unbalanced 204000 -> IndexError, 241000 -> NotImplementedError) surfaces with the
    same type as without compilation, and the same compiler object compiles correct
    templates afterwards as if nothing had happened.
"""
import itertools
import json

from pybufrkit.decoder import Decoder
from pybufrkit.encoder import Encoder
from pybufrkit.tables import TableGroupCacheManager
from pybufrkit.templatecompiler import (TemplateCompiler, CompiledTemplateManager, loads_compiled_template,
                                        Loop, CoderMethodCall, StateMethodCall, MethodCall)

N_CHECKS = [0]


def check(cond, what):
    N_CHECKS[0] += 1
    if not cond:
        print('FAILED: {}'.format(what))
        sys.exit(1)


# ---------------------------------------------------------------------------
# An independent model of a template: nested tuples
#   ('E', id)            element descriptor
#   ('O', id)            operator descriptor without data of its own
#   ('F', n, members)    fixed replication, n times
#   ('D', members)       delayed replication with factor 031001
NBITS = {1001: 7, 1002: 10, 2001: 2, 12001: 12, 31001: 8}
SCALE = {12001: 1}


def n_items(members):
    """Number of unexpanded descriptors the members occupy in section 3."""
    return sum(len(unexpanded(m)) for m in members)


def unexpanded(node):
    kind = node[0]
    if kind in ('E', 'O'):
        return [node[1]]
    if kind == 'F':
        body = [i for m in node[2] for i in unexpanded(m)]
        return [100000 + len(body) * 1000 + node[1]] + body
    if kind == 'D':
        body = [i for m in node[1] for i in unexpanded(m)]
        return [100000 + len(body) * 1000, 31001] + body
    raise ValueError(node)


class Expander(object):
    """Expand the model for given factors; values are made up from a running counter."""

    def __init__(self, factors, salt, n_201=0):
        self.factors = list(factors)
        self.n_drawn = 0
        self.salt = salt
        self.ids = []
        self.values = []
        self.k = 0
        self.extra_bits = n_201

    def value_for(self, id_):
        self.k += 1
        nbits = NBITS[id_] + (self.extra_bits if id_ == 12001 else 0)
        raw = (self.k * 37 + self.salt * 11) % (2 ** nbits - 1)
        if id_ in SCALE:
            return raw / 10.0 ** SCALE[id_]
        return raw

    def run(self, members):
        for node in members:
            kind = node[0]
            if kind == 'E':
                self.ids.append(node[1])
                self.values.append(self.value_for(node[1]))
            elif kind == 'O':
                if node[1] // 1000 == 201:
                    self.extra_bits = (node[1] % 1000 - 128) if node[1] % 1000 else 0
            elif kind == 'F':
                for _ in range(node[1]):
                    self.run(node[2])
            elif kind == 'D':
                f = self.factors[self.n_drawn]
                self.n_drawn += 1
                self.ids.append(31001)
                self.values.append(f)
                for _ in range(f):
                    self.run(node[1])
        return self


def E(i): return ('E', i)
def O(i): return ('O', i)
def F(n, *m): return ('F', n, list(m))
def D(*m): return ('D', list(m))


TEMPLATES = {
    # statements before, in and behind a fixed loop
    'fixed': [E(2001), F(2, E(1001), E(2001)), E(1002)],
    # a delayed loop at the very start and the very end of the template
    'delayed': [D(E(12001)), E(1002), D(E(1001), E(2001))],
    # fixed > delayed > fixed, with statements between the loop ends
    'nested': [F(2, E(1001), D(E(2001), F(2, E(12001)), E(1002)), E(2001)), E(1002)],
    # delayed > delayed, operator opened and closed inside the outer scope
    'delayed2': [D(O(201130), E(12001), O(201000), D(E(1001)), E(12001)), E(1002)],
    # two loops directly one after the other, and a loop directly inside a loop
    'adjacent': [F(2, F(3, E(2001))), F(1, E(1001)), D(D(E(1002)))],
}
MAX_DRAWS = {'fixed': 0, 'delayed': 2, 'nested': 2, 'delayed2': 4, 'adjacent': 4}

# The block structure the compiler is expected to record, written down by hand:
# a call is 'method:descriptor id', a loop is (repeat, [body]); repeat '*' = delayed
EXPECTED_SHAPES = {
    'fixed': ['process_codeflag:2001',
              (2, ['process_numeric:1001', 'process_codeflag:2001']),
              'process_numeric:1002'],
    'delayed': ['process_numeric:31001', ('*', ['process_numeric:12001']),
                'process_numeric:1002',
                'process_numeric:31001', ('*', ['process_numeric:1001', 'process_codeflag:2001'])],
    'nested': [(2, ['process_numeric:1001',
                    'process_numeric:31001',
                    ('*', ['process_codeflag:2001', (2, ['process_numeric:12001']), 'process_numeric:1002']),
                    'process_codeflag:2001']),
               'process_numeric:1002'],
    'delayed2': ['process_numeric:31001',
                 ('*', ['process_numeric:12001',
                        'process_numeric:31001', ('*', ['process_numeric:1001']),
                        'process_numeric:12001']),
                 'process_numeric:1002'],
    'adjacent': [(2, [(3, ['process_codeflag:2001'])]),
                 (1, ['process_numeric:1001']),
                 'process_numeric:31001', ('*', ['process_numeric:31001', ('*', ['process_numeric:1002'])])],
}


def shape_of(block):
    out = []
    for st in block.statements:
        if type(st) is Loop:
            if isinstance(st.repeat, MethodCall):
                check(type(st.repeat) is CoderMethodCall
                      and st.repeat.method_name == 'get_value_for_delayed_replication_factor'
                      and st.repeat.args == () and st.repeat.state_properties is None,
                      'the repeat of a delayed loop is the call that fetches the factor')
                out.append(('*', shape_of(st)))
            else:
                out.append((st.repeat, shape_of(st)))
        elif type(st) is CoderMethodCall:
            out.append('{}:{}'.format(st.method_name, st.args[0].id))
        elif type(st) is StateMethodCall:
            out.append('state.{}'.format(st.method_name))
        else:
            out.append(type(st).__name__)
    return out


# ---------------------------------------------------------------------------
# Messages
def message_json(descriptor_ids, values_all_subsets, compressed):
    return [
        ['BUFR', 0, 4],
        [22, 0, 89, 0, 0, False, '0000000', 0, 2, 0, 13, 0, 2007, 11, 21, 12, 0, 0],
        [0, '00000000', len(values_all_subsets), True, compressed, '000000', list(descriptor_ids)],
        [0, '00000000', [list(v) for v in values_all_subsets]],
        ['7777'],
    ]


def via_json(template, table_group):
    """A compiled template that has been written out as JSON and loaded back."""
    return loads_compiled_template(json.dumps(TemplateCompiler().process(template, table_group).to_dict()))


def coders():
    enc_plain, dec_plain = Encoder(), Decoder()
    enc_comp, dec_comp = Encoder(compiled_template_cache_max=1), Decoder(compiled_template_cache_max=0)
    enc_json, dec_json = Encoder(compiled_template_cache_max=5), Decoder(compiled_template_cache_max=5)
    enc_json.compiled_template_manager.get_or_compile = via_json
    dec_json.compiled_template_manager.get_or_compile = via_json
    return (enc_plain, enc_comp, enc_json), (dec_plain, dec_comp, dec_json)


ENCODERS, DECODERS = coders()


def descriptor_ids_of(message):
    return [[d.id for d in ds] for ds in message.template_data.value.decoded_descriptors_all_subsets]


def differential(name, ids, model_ids, model_values, compressed):
    js = message_json(ids, model_values, compressed)
    reference = None
    for enc in ENCODERS:
        m = enc.process(json.loads(json.dumps(js)))
        if reference is None:
            reference = m.serialized_bytes
        check(m.serialized_bytes == reference, '{}: all encoders write the same bytes'.format(name))
        check(descriptor_ids_of(m) == model_ids, '{}: encoder descriptors are the model descriptors'.format(name))
    for dec in DECODERS:
        m = dec.process(reference)
        td = m.template_data.value
        check(descriptor_ids_of(m) == model_ids, '{}: decoded descriptors are the model descriptors'.format(name))
        check(td.decoded_values_all_subsets == model_values,
              '{}: decoded values are the model values\n{}\n{}'.format(name, td.decoded_values_all_subsets,
                                                                     model_values))
        check(all(links == {} for links in td.bitmap_links_all_subsets), '{}: no attribute links'.format(name))
        check(m.serialized_bytes == reference, '{}: decoder consumed the whole message'.format(name))


def part_1_structure():
    table_group = TableGroupCacheManager.get_table_group()
    compiler = TemplateCompiler()
    for name in sorted(TEMPLATES):
        ids = [i for node in TEMPLATES[name] for i in unexpanded(node)]
        template = table_group.template_from_ids(*ids)
        compiled = compiler.process(template, table_group)
        check(shape_of(compiled) == EXPECTED_SHAPES[name],
              '{}: recorded structure\n  {}\n  {}'.format(name, shape_of(compiled), EXPECTED_SHAPES[name]))
        reloaded = loads_compiled_template(json.dumps(compiled.to_dict()))
        check(shape_of(reloaded) == EXPECTED_SHAPES[name], '{}: structure after JSON'.format(name))
        check(reloaded.to_dict() == compiled.to_dict(), '{}: dictionary after JSON'.format(name))
        # compiling the same template twice with one compiler gives the same thing: nothing of
        # the first run (the open blocks in particular) is left in the compiler
        check(compiler.process(template, table_group).to_dict() == compiled.to_dict(), '{}: twice'.format(name))


def part_2_all_factor_assignments():
    for name in sorted(TEMPLATES):
        members = TEMPLATES[name]
        ids = [i for node in members for i in unexpanded(node)]
        seen = set()
        for factors in itertools.product(range(4), repeat=MAX_DRAWS[name]):
            probe = Expander(factors + (0,) * 40, 0).run(members)
            consumed = tuple(factors[:probe.n_drawn]) if probe.n_drawn <= len(factors) else None
            if consumed is None or consumed in seen:
                continue
            seen.add(consumed)
            other = tuple(reversed(consumed))  # the second subset of uncompressed data has factors of its own
            # uncompressed, two subsets with different factors and values
            subsets = [Expander(consumed + (0,) * 40, 1).run(members), Expander(other + (0,) * 40, 2).run(members)]
            differential('{}{} uncompressed'.format(name, consumed), ids,
                         [s.ids for s in subsets], [s.values for s in subsets], False)
            # compressed, two subsets with the same factors and different values
            subsets = [Expander(consumed + (0,) * 40, 1).run(members), Expander(consumed + (0,) * 40, 2).run(members)]
            for s in subsets[1:]:
                # factors must be equal over the subsets; every other value differs
                check(s.ids == subsets[0].ids, 'model: same structure in every subset')
            differential('{}{} compressed'.format(name, consumed), ids,
                         [s.ids for s in subsets], [s.values for s in subsets], True)
        check(len(seen) >= 1, '{}: at least one assignment'.format(name))
        print('  {:9s} {:3d} factor assignments, compressed and uncompressed'.format(name, len(seen)))


def error_of(func, *args):
    try:
        func(*args)
    except BaseException as e:
        return type(e)
    return None


def part_3_errors():
    table_group = TableGroupCacheManager.get_table_group()
    good_ids = [i for node in TEMPLATES['nested'] for i in unexpanded(node)]
    good = Expander((2, 1) + (0,) * 10, 5).run(TEMPLATES['nested'])
    good_js = message_json(good_ids, [good.values], False)
    good_bytes = Encoder().process(json.loads(json.dumps(good_js))).serialized_bytes

    bad_templates = {
        # 204000 with nothing to cancel, two loops deep
        'IndexError': ([103002, 1001, 101001, 204000, 1002], IndexError),
        # an operator that is not implemented, inside a delayed loop inside a delayed loop
        'NotImplementedError': ([105000, 31001, 1001, 102000, 31001, 241000, 1002, 1002], NotImplementedError),
    }
    for name, (ids, exc_type) in sorted(bad_templates.items()):
        values = [[1, 2, 3, 4, 5, 6, 7, 8]]
        js = message_json(ids, values, False)
        for compressed in (False, True):
            js[2][4] = compressed
            enc_plain = Encoder()
            enc_comp = Encoder(compiled_template_cache_max=3)
            check(error_of(enc_plain.process, json.loads(json.dumps(js))) is exc_type,
                  '{}: plain encoder raises it'.format(name))
            check(error_of(enc_comp.process, json.loads(json.dumps(js))) is exc_type,
                  '{}: compiling encoder raises it'.format(name))
            check(enc_comp.compiled_template_manager.cache == {}, '{}: nothing cached'.format(name))
            # ... and the compiler of that encoder is as good as new
            check(enc_comp.process(json.loads(json.dumps(good_js))).serialized_bytes == good_bytes,
                  '{}: the encoder works afterwards'.format(name))
            check(len(enc_comp.compiled_template_manager.cache) == 1, 'good template cached')
            (compiled,) = enc_comp.compiled_template_manager.cache.values()
            message_tables = TableGroupCacheManager.get_table_group_by_key(compiled.table_group_key)
            check(shape_of(compiled) == EXPECTED_SHAPES['nested'] and
                  compiled.to_dict() == TemplateCompiler().process(
                      message_tables.template_from_ids(*good_ids), message_tables).to_dict(),
                  '{}: what is compiled after the failure is what a fresh compiler gives'.format(name))

        # the decoder: patch the descriptors of a well-formed message of the same length
        filler = message_json([1001] * len(ids), [[1] * len(ids)], False)
        raw = bytearray(Encoder().process(filler).serialized_bytes)
        offset = 8 + 22 + 7
        for k, i in enumerate(ids):
            f, x, y = i // 100000, i // 1000 % 100, i % 1000
            raw[offset + 2 * k] = (f << 6) | x
            raw[offset + 2 * k + 1] = y
        raw = bytes(raw)
        dec_plain, dec_comp = Decoder(), Decoder(compiled_template_cache_max=3)
        check(error_of(dec_plain.process, raw) is exc_type, '{}: plain decoder raises it'.format(name))
        check(error_of(dec_comp.process, raw) is exc_type, '{}: compiling decoder raises it'.format(name))
        m = dec_comp.process(good_bytes)
        check(m.template_data.value.decoded_values_all_subsets == [good.values] and
              descriptor_ids_of(m) == [good.ids], '{}: the decoder works afterwards'.format(name))

    # the compiler itself, directly
    compiler = TemplateCompiler()
    for name, (ids, exc_type) in sorted(bad_templates.items()):
        check(error_of(compiler.process, table_group.template_from_ids(*ids), table_group) is exc_type,
              '{}: TemplateCompiler.process raises it'.format(name))
    check(shape_of(compiler.process(table_group.template_from_ids(*good_ids), table_group)) ==
          EXPECTED_SHAPES['nested'], 'TemplateCompiler is reusable after failures')

    # cache of size one and alternating templates: every message compiles anew, results stay the same
    manager = CompiledTemplateManager(1)
    for _ in range(2):
        for name in sorted(TEMPLATES):
            ids = [i for node in TEMPLATES[name] for i in unexpanded(node)]
            compiled = manager.get_or_compile(table_group.template_from_ids(*ids), table_group)
            check(shape_of(compiled) == EXPECTED_SHAPES[name], 'manager: {}'.format(name))
            check(len(manager.cache) == 1, 'manager: one entry')


if __name__ == '__main__':
    part_1_structure()
    part_2_all_factor_assignments()
    part_3_errors()
    print('OK ({} checks)'.format(N_CHECKS[0]))
