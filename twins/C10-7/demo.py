import os, sys; sys.path.insert(0, os.getcwd())
"""
Differential demonstration for refactor 7 (Encoder.process).

Everything that is expected here is computed without the code under test: the
framing of the produced messages is parsed by hand from the bytes (signature,
24-bit total length, the chain of section lengths, presence flag of section 2,
number of subsets, compression flag, end signature), the expected subsets are
picked from the decoded source message with plain Python, and the expected
bytes of the uncompressed samples are the sample files themselves.

Branches of the refactored code that are reached:
  * input given as text / bytes / python lists,
  * optional section 2 present (edition 3 and 4) and not present (edition 3 and 4):
    the cursor into the data does not move for a section that is not there,
  * data with too few sections (IndexError), one section too many (ignored),
    a section with the wrong number of values (AssertionError),
  * total length: calculated because ignore_declared_length, calculated because
    declared as 0, declared and right, declared too long, declared too short,
  * wire_template_data on and off.
"""
import copy
import json
import logging

logging.disable(logging.CRITICAL)

from pybufrkit.decoder import Decoder
from pybufrkit.encoder import Encoder
from pybufrkit.errors import PyBufrKitError
from pybufrkit.renderer import FlatJsonRenderer

DATA = os.path.join('tests', 'data')
N_CHECKS = [0]


def check(cond, what):
    N_CHECKS[0] += 1
    if not cond:
        print('FAILED: {}'.format(what))
        sys.exit(1)


def u(bs):
    n = 0
    for b in bytearray(bs):
        n = n * 256 + b
    return n


def frame(bs):
    """Independent parse of the framing of one BUFR message."""
    check(bs[:4] == b'BUFR', 'start signature')
    check(bs[-4:] == b'7777', 'end signature')
    info = {'total': u(bs[4:7]), 'edition': u(bs[7:8]), 'sections': {}}
    pos = 8
    edition = info['edition']
    check(edition in (2, 3, 4), 'edition of the samples')
    n1 = u(bs[pos:pos + 3])
    flag = bytearray(bs)[pos + (9 if edition == 4 else 7)]
    info['has_section2'] = bool(flag & 0x80)
    info['sections'][1] = n1
    pos += n1
    if info['has_section2']:
        n2 = u(bs[pos:pos + 3])
        info['sections'][2] = n2
        pos += n2
    n3 = u(bs[pos:pos + 3])
    info['sections'][3] = n3
    info['n_subsets'] = u(bs[pos + 4:pos + 6])
    info['compressed'] = bool(bytearray(bs)[pos + 6] & 0x40)
    info['descriptors'] = [u(bs[i:i + 2]) for i in range(pos + 7, pos + 7 + 2 * ((n3 - 7) // 2), 2)]
    pos += n3
    n4 = u(bs[pos:pos + 3])
    info['sections'][4] = n4
    pos += n4
    check(pos + 4 == len(bs), 'chain of section lengths ends at the end signature')
    check(info['total'] == len(bs), 'declared total length is the number of octets')
    if edition <= 3:
        check(all(n % 2 == 0 for n in info['sections'].values()), 'even sections up to edition 3')
    return info


def fxy(descriptor_id):
    s = '{:06d}'.format(int(descriptor_id))
    return (int(s[0]) << 14) + (int(s[1:3]) << 8) + int(s[3:])


def read(name):
    # The first message of the file, without bulletin headers or trailing octets
    with open(os.path.join(DATA, name), 'rb') as ins:
        octets = ins.read()
    start = octets.find(b'BUFR')
    return octets[start:start + u(octets[start + 4:start + 7])]


decoder = Decoder()
encoder = Encoder()


def values_of(message):
    return [list(vs) for vs in message.template_data.value.decoded_values_all_subsets]


# ---------------------------------------------------------------------------
# 1. Subsetting through Encoder.process: section 2 present / not present,
#    edition 3 / 4, compressed / uncompressed
# ---------------------------------------------------------------------------
SAMPLES = [
    # name, expected (edition, has section 2, compressed)
    ('contrived', (4, False, False)),
    ('207003', (3, False, True)),
    ('ISMD01_OKPR', (4, False, True)),
    ('g2nd_208', (4, True, True)),
    ('jaso_214', (3, True, True)),
    ('b002_95', (3, True, False)),
]


def index_collections(n):
    cs = [[0], [n - 1], list(range(n)), list(range(n - 1, -1, -1)), [n - 1, 0, 0, n - 1]]
    if n > 3:
        cs += [[2, 1], (n // 2, 1, n // 2), {3, 1}]
    return cs


for name, (edition, has_section2, compressed) in SAMPLES:
    source_bytes = read(name + '.bufr')
    source = decoder.process(source_bytes, wire_template_data=False)
    source_frame = frame(source_bytes)
    check((source_frame['edition'], source_frame['has_section2'], source_frame['compressed'])
          == (edition, has_section2, compressed), '{}: kind of sample'.format(name))
    all_values = values_of(source)
    n = source_frame['n_subsets']
    check(len(all_values) == n, '{}: subsets of the source'.format(name))
    n_sections_in_data = 6 if has_section2 else 5

    for indices in index_collections(n):
        data = source.subset(indices)
        check(len(data) == n_sections_in_data, '{}: sections in the subset data'.format(name))
        wanted = sorted(set(indices))

        encoded = encoder.process(data, file_path='here', wire_template_data=False)
        bs = encoded.serialized_bytes
        f = frame(bs)
        check(f['edition'] == edition and f['has_section2'] == has_section2 and
              f['compressed'] == compressed, '{} {}: identification kept'.format(name, indices))
        check(f['n_subsets'] == len(wanted), '{} {}: subset count'.format(name, indices))
        check(f['descriptors'] == source_frame['descriptors'] ==
              [fxy(d) for d in source.unexpanded_descriptors.value], '{}: template kept'.format(name))
        check(f['sections'][1] == source_frame['sections'][1], '{}: section 1 kept'.format(name))
        if has_section2:
            check(f['sections'][2] == source_frame['sections'][2], '{}: section 2 kept'.format(name))
        check(encoded.length.value == len(bs), '{}: length of the message object'.format(name))
        check(encoded.filename == 'here', 'file name')
        check(len(encoded.sections) == n_sections_in_data, 'sections of the message object')
        check([s.get_metadata('index') for s in encoded.sections] ==
              ([0, 1, 2, 3, 4, 5] if has_section2 else [0, 1, 3, 4, 5]), 'indices of the sections')

        decoded = decoder.process(bs, wire_template_data=False)
        check(values_of(decoded) == [all_values[i] for i in wanted],
              '{} {}: values of the selected subsets'.format(name, indices))
        check(values_of(encoded) == [all_values[i] for i in wanted],
              '{} {}: values held by the encoded message'.format(name, indices))

    # the source is not modified by all this
    check(source.serialized_bytes == source_bytes and values_of(source) == all_values and
          source.n_subsets.value == n, '{}: source untouched'.format(name))

    # Every form of the input gives the same octets
    data = source.subset(range(n))
    by_list = encoder.process(data, wire_template_data=False).serialized_bytes
    if True:
        # octet strings of the sections go into the text as latin-1 characters
        text = json.dumps(data, default=lambda octets: octets.decode('latin-1'))
        check(encoder.process(text, wire_template_data=False).serialized_bytes == by_list,
              '{}: text input'.format(name))
        check(encoder.process(text.encode('ascii'), wire_template_data=False).serialized_bytes == by_list,
              '{}: bytes input'.format(name))
    if not compressed:
        check(by_list == source_bytes, '{}: full subset of an uncompressed sample is the sample'.format(name))

# The json files of the test data, as text, bytes and lists (section 2 present and not).
# Two of them hold everything of the sample (the others lost the octets of section 2)
# and must give the sample back octet for octet.
EXACT = ('IUSK73_AMMC_182300', 'rado_250')
for name in EXACT + ('uegabe', 'profiler_european', 'g2nd_208', '207003'):
    with open(os.path.join(DATA, name + '.json')) as ins:
        text = ins.read()
    results = []
    for s in (text, text.encode('latin-1'), json.loads(text)):
        m = encoder.process(s)
        results.append(m.serialized_bytes)
        check(m.filename == '<string>', 'default file name')
        f = frame(m.serialized_bytes)
        check(f['has_section2'] == (len(json.loads(text)) == 6), '{}: section 2 as the data say'.format(name))
    check(results[0] == results[1] == results[2], '{}: text, bytes and lists agree'.format(name))
    if name in EXACT:
        check(results[0] == read(name + '.bufr'), '{}: encoding of the json sample'.format(name))

# ---------------------------------------------------------------------------
# 2. wire_template_data
# ---------------------------------------------------------------------------
source = decoder.process(read('contrived.bufr'), wire_template_data=False)
data = source.subset([1])
m = encoder.process(data, wire_template_data=False)
check(not m.template_data.value._is_wired, 'not wired on request')
m = encoder.process(data)
check(m.template_data.value._is_wired, 'wired by default')
m = encoder.process(data, '<x>', True)
check(m.template_data.value._is_wired and m.filename == '<x>', 'positional arguments')

# ---------------------------------------------------------------------------
# 3. Malformed data: too few sections, one too many, wrong number of values
# ---------------------------------------------------------------------------
for name in ('contrived', 'g2nd_208'):
    source = decoder.process(read(name + '.bufr'), wire_template_data=False)
    data = source.subset([0, 1])
    good = encoder.process(data, wire_template_data=False).serialized_bytes
    for k in range(len(data)):
        try:
            encoder.process(data[:k], wire_template_data=False)
        except IndexError:
            pass
        else:
            check(False, '{}: {} sections only must raise IndexError'.format(name, k))
        N_CHECKS[0] += 1
    check(encoder.process(data + [['junk']], wire_template_data=False).serialized_bytes == good,
          '{}: entries after the end section are not looked at'.format(name))
    # a section 2 entry where the message says there is no section 2 (or the reverse)
    # shifts every later section: the number of values does not fit any more
    shifted = data[:2] + [[4, '00000000', '']] + data[2:] if name == 'contrived' else data[:2] + data[3:]
    try:
        encoder.process(shifted, wire_template_data=False)
    except AssertionError:
        pass
    else:
        check(False, '{}: shifted sections must raise AssertionError'.format(name))
    N_CHECKS[0] += 1
    for bad in ({}, {'0': 1}):
        try:
            encoder.process(bad)
        except KeyError:
            pass
        else:
            check(False, 'mapping without the key 0 must raise KeyError')
        N_CHECKS[0] += 1
    try:
        encoder.process(None)
    except TypeError:
        pass
    else:
        check(False, 'None must raise TypeError')
    N_CHECKS[0] += 1
    try:
        encoder.process('[["BUFR", 0, 4')
    except ValueError:
        pass
    else:
        check(False, 'broken json must raise ValueError')
    N_CHECKS[0] += 1

# ---------------------------------------------------------------------------
# 4. The total length
# ---------------------------------------------------------------------------
strict = Encoder(ignore_declared_length=False)
for name in ('contrived', 'b002_95'):
    expected = read(name + '.bufr')
    source = decoder.process(expected, wire_template_data=False)
    data = FlatJsonRenderer().render(source)
    total = len(expected)
    check(data[0][1] == total, 'declared length of the sample')

    # declared and right
    m = strict.process(copy.deepcopy(data), wire_template_data=False)
    check(m.serialized_bytes == expected and m.length.value == total, '{}: declared length honoured'.format(name))

    # declared as zero: calculated (the sections keep their right declared lengths)
    zero = copy.deepcopy(data)
    zero[0][1] = 0
    m = strict.process(zero, wire_template_data=False)
    check(m.serialized_bytes == expected and m.length.value == total, '{}: zero length calculated'.format(name))
    check(zero[0][1] == 0, 'input data are not written to')

    # declared wrong: refused, with the difference in the message
    for delta in (5, -2, 1, -1, total):
        wrong = copy.deepcopy(data)
        wrong[0][1] = total + delta
        try:
            strict.process(wrong, wire_template_data=False)
        except PyBufrKitError as e:
            check(type(e) is PyBufrKitError, 'exact type of the error')
            check(e.message == 'Write exceeds declared total length {} by {} bytes'.format(total + delta, -delta),
                  '{}: message of the error ({})'.format(name, e.message))
        else:
            check(False, '{}: wrong declared length must be refused'.format(name))

        # ... but is simply replaced when declared lengths are ignored (default)
        m = encoder.process(wrong, wire_template_data=False)
        check(m.serialized_bytes == expected and m.length.value == total,
              '{}: wrong length replaced'.format(name))
        check(u(m.serialized_bytes[4:7]) == total, 'length field in the octets')

    # any true value of the option counts, any false one too
    wrong = copy.deepcopy(data)
    wrong[0][1] = total + 3
    check(Encoder(ignore_declared_length=1).process(wrong, wire_template_data=False).serialized_bytes == expected,
          'truthy option')
    try:
        Encoder(ignore_declared_length=0).process(wrong, wire_template_data=False)
    except PyBufrKitError as e:
        check(e.message == 'Write exceeds declared total length {} by -3 bytes'.format(total + 3), 'falsy option')
    else:
        check(False, 'falsy option must honour the declared length')

# The length is patched in place: same position and width for every edition, and the
# parameter object of the message is the one of section 0
m = encoder.process(decoder.process(read('jaso_214.bufr')).subset([5, 7]), wire_template_data=False)
check(m.length is m.sections[0].length and m.length.parent is m.sections[0], 'length parameter of section 0')
check(u(m.serialized_bytes[4:7]) == len(m.serialized_bytes) == m.length.value, 'length patched in place')

print('refactor 7 demo: {} checks passed'.format(N_CHECKS[0]))
