"""
Demo for refactor 3: BufrTemplate.original_descriptor_ids and flat_member_ids.

Run as: cd /tmp/tw_C14 && /venv/bin/python _out/3/demo.py
"""
import os, sys; sys.path.insert(0, os.getcwd())

import json
import random

from pybufrkit.constants import DEFAULT_TABLES_DIR
from pybufrkit.tables import TableGroupCacheManager
from pybufrkit.descriptors import (Descriptor, ElementDescriptor, FixedReplicationDescriptor,
                                   DelayedReplicationDescriptor, OperatorDescriptor, BufrTemplate,
                                   SequenceDescriptor, UndefinedElementDescriptor, AssociatedDescriptor,
                                   SkippedLocalDescriptor, MarkerDescriptor,
                                   UndefinedSequenceDescriptor, flat_member_ids)

tg = TableGroupCacheManager.get_table_group()
with open(os.path.join(DEFAULT_TABLES_DIR, '0', '0_0', '33', 'TableD.json')) as ins:
    TABLE_D = {int(k): [int(m) for m in v[1]] for k, v in json.load(ins).items()}


def expand_ids(ids):
    """Direct expansion of a list of ids with the table file: only sequences are replaced"""
    ret = []
    for id_ in ids:
        if id_ in TABLE_D:
            ret.extend(expand_ids(TABLE_D[id_]))
        else:
            ret.append(id_)
    return ret


# ---------------------------------------------------------------------------
# Trees made by hand, no tables involved
# ---------------------------------------------------------------------------
def E(id_):
    return ElementDescriptor(id_, 'name', 'unit', 0, 0, 8, 'unit', 0, 3)


def F(id_, *members):
    return FixedReplicationDescriptor(id_, list(members))


def D(id_, factor, *members):
    return DelayedReplicationDescriptor(id_, list(members), factor)


def S(id_, *members):
    return SequenceDescriptor(id_, 'seq', list(members))


def snapshot(descriptor):
    """The identity of all member lists and their items, to check nothing gets modified"""
    ret = []
    members = getattr(descriptor, 'members', None)
    if members is not None:
        ret.append((id(members), [id(m) for m in members]))
        for m in members:
            ret.extend(snapshot(m))
    return ret


def check(template, original_ids, flat_ids):
    before = snapshot(template)
    got = template.original_descriptor_ids
    assert type(got) is list and got == original_ids, (got, original_ids)
    assert all(type(i) is int for i in got)
    again = template.original_descriptor_ids
    assert again == got and again is not got  # always a new list
    got = flat_member_ids(template)
    assert type(got) is list and got == flat_ids, (got, flat_ids)
    assert flat_member_ids(template) is not got
    assert snapshot(template) == before  # the tree is left alone


# empty
check(BufrTemplate(members=[]), [], [])
# only elements
check(BufrTemplate(members=[E(1001), E(1002)]), [1001, 1002], [1001, 1002])
# fixed replication
check(BufrTemplate(members=[E(1001), F(102003, E(4001), E(4002)), E(5001)]),
      [1001, 102003, 4001, 4002, 5001], [1001, 102003, 4001, 4002, 5001])
# delayed replication, factor right after the replication descriptor
check(BufrTemplate(members=[D(101000, E(31001), E(4001)), E(5001)]),
      [101000, 31001, 4001, 5001], [101000, 31001, 4001, 5001])
# empty replications
check(BufrTemplate(members=[F(100002), D(100000, E(31002)), E(1001)]),
      [100002, 100000, 31002, 1001], [100002, 100000, 31002, 1001])
# nested to depth 4, mixed
deep = BufrTemplate(members=[
    E(1001),
    F(109002,
      E(2001),
      D(106000, E(31001),
        F(104003,
          D(101000, E(31002), E(4001)),
          E(4002)),
        E(4003)),
      E(2002)),
    E(1002),
])
ids = [1001, 109002, 2001, 106000, 31001, 104003, 101000, 31002, 4001, 4002, 4003, 2002, 1002]
check(deep, ids, ids)
# sequences: kept by the first, expanded by the second
nested = BufrTemplate(members=[
    S(301001, E(1001), E(1002)),
    F(102002, S(301011, E(4001), S(301099, E(4002)), E(4003)), E(5001)),
    D(101000, E(31001), S(301021, E(5001), E(6001))),
    S(300000),
])
check(nested,
      [301001, 102002, 301011, 5001, 101000, 31001, 301021, 300000],
      [1001, 1002, 102002, 4001, 4002, 4003, 5001, 101000, 31001, 5001, 6001])
# a template inside a template is a sequence as well
check(BufrTemplate(members=[BufrTemplate(members=[E(1001)]), E(1002)]), [999999, 1002], [1001, 1002])
# all other kinds of descriptors are leaves for both
others = [OperatorDescriptor(201129), UndefinedElementDescriptor(63255), UndefinedSequenceDescriptor(363255),
          AssociatedDescriptor(1001, 4), SkippedLocalDescriptor(1255, 8), Descriptor(7),
          MarkerDescriptor.from_element_descriptor(E(12001), 224255)]
check(BufrTemplate(members=others + [F(101002, others[2])]),
      [201129, 63255, 363255, 1001, 1255, 7, 12001, 101002, 363255],
      [201129, 63255, 363255, 1001, 1255, 7, 12001, 101002, 363255])
# flat_member_ids takes any descriptor with members
assert flat_member_ids(F(102002, E(1001), S(301001, E(1002)))) == [1001, 1002]
assert flat_member_ids(D(102000, E(31001), E(1001), D(100000, E(31000)))) == [1001, 100000, 31000]
assert flat_member_ids(S(301001)) == []
# members given as a tuple: fine on the template level for both
assert BufrTemplate(members=(E(1001), E(1002))).original_descriptor_ids == [1001, 1002]
assert flat_member_ids(BufrTemplate(members=(E(1001), S(301001, E(1002))))) == [1001, 1002]
# the ids are given back as they are (no conversion)
assert BufrTemplate(members=[Descriptor('001001'), Descriptor(None)]).original_descriptor_ids == ['001001', None]
assert flat_member_ids(BufrTemplate(members=[Descriptor('001001'), Descriptor(1.5)])) == ['001001', 1.5]

# --- error cases --------------------------------------------------------------------------
def raises(error, func):
    try:
        func()
    except error as e:
        assert type(e) is error, type(e)
    else:
        raise AssertionError('no {}'.format(error))


# members never set
raises(TypeError, lambda: BufrTemplate().original_descriptor_ids)
raises(TypeError, lambda: flat_member_ids(BufrTemplate()))
raises(TypeError, lambda: BufrTemplate(members=[FixedReplicationDescriptor(101002)]).original_descriptor_ids)
raises(TypeError, lambda: flat_member_ids(BufrTemplate(members=[FixedReplicationDescriptor(101002)])))
raises(TypeError, lambda: flat_member_ids(BufrTemplate(members=[SequenceDescriptor(301001, '')])))
# ... though a sequence without members does not matter for the original ids
assert BufrTemplate(members=[SequenceDescriptor(301001, '')]).original_descriptor_ids == [301001]
# delayed replication without factor
raises(AttributeError, lambda: BufrTemplate(members=[D(101000, None, E(1001))]).original_descriptor_ids)
raises(AttributeError, lambda: flat_member_ids(BufrTemplate(members=[D(101000, None, E(1001))])))
# the factor is looked at before the members
raises(AttributeError,
       lambda: BufrTemplate(members=[DelayedReplicationDescriptor(101000)]).original_descriptor_ids)
raises(AttributeError, lambda: flat_member_ids(BufrTemplate(members=[DelayedReplicationDescriptor(101000)])))
# no members at all
raises(AttributeError, lambda: flat_member_ids(E(1001)))
raises(AttributeError, lambda: flat_member_ids(None))
# something that is no descriptor
raises(AttributeError, lambda: BufrTemplate(members=[1001]).original_descriptor_ids)
raises(AttributeError, lambda: flat_member_ids(BufrTemplate(members=[1001])))
# members of a replication as a tuple: only the template property insists on lists
raises(TypeError,
       lambda: BufrTemplate(members=[FixedReplicationDescriptor(101002, (E(1001),))]).original_descriptor_ids)
assert flat_member_ids(BufrTemplate(members=[FixedReplicationDescriptor(101002, (E(1001),))])) == [101002, 1001]

# ---------------------------------------------------------------------------
# Random well-formed lists through the tables: depth up to 4, X up to 63
# ---------------------------------------------------------------------------
ELEMENTS = [1001, 1002, 2001, 4001, 4002, 5001, 6001, 7004, 10004, 12001, 12101, 8002, 20011, 63255]
OPERATORS = [201132, 201000, 202129, 202000, 204008, 204000, 207001, 207000, 208010, 208000]
SEQUENCES = [301011, 301013, 301021, 302001, 301001, 340009, 309052, 316030, 363255]
FACTORS = [31000, 31001, 31002, 31011, 31012]


def random_ids(rng, depth, budget):
    """A list of at most `budget` ids where every replication owns exactly X ids"""
    ids = []
    n_wanted = rng.randint(0 if depth else 1, 7)
    for _ in range(n_wanted):
        remaining = budget - len(ids)
        if remaining <= 0:
            break
        choice = rng.random()
        if depth < 4 and choice < 0.35 and remaining >= 2:
            delayed = rng.random() < 0.5
            head = [0, rng.choice(FACTORS)] if delayed else [0]
            owned = random_ids(rng, depth + 1, min(63, remaining - len(head)))
            head[0] = 100000 + len(owned) * 1000 + (0 if delayed else rng.randint(1, 255))
            ids.extend(head + owned)
        elif choice < 0.5:
            ids.append(rng.choice(OPERATORS))
        elif choice < 0.7:
            ids.append(rng.choice(SEQUENCES))
        else:
            ids.append(rng.choice(ELEMENTS))
    return ids


rng = random.Random(314159)
n_replications = 0
for _ in range(800):
    ids = random_ids(rng, 0, 250)
    n_replications += sum(1 for i in ids if 100000 <= i < 200000)
    template = tg.template_from_ids(*ids)
    before = snapshot(template)
    assert template.original_descriptor_ids == ids
    assert flat_member_ids(template) == expand_ids(ids)
    assert snapshot(template) == before
    # without any sequence both are the same
    plain = [i for i in ids if i < 100000 or 200000 <= i < 300000]
    template = tg.template_from_ids(*plain)
    assert template.original_descriptor_ids == flat_member_ids(template) == plain
assert n_replications > 1000

# ---------------------------------------------------------------------------
# Every sequence of the default table version and the templates of the sample files
# ---------------------------------------------------------------------------
for id_, member_ids in TABLE_D.items():
    sequence = tg.lookup(id_)
    assert flat_member_ids(sequence) == expand_ids([id_])
    assert BufrTemplate(members=sequence.members).original_descriptor_ids == member_ids

from pybufrkit.decoder import Decoder

decoder = Decoder()
n_files = 0
for name in sorted(os.listdir(os.path.join('tests', 'data'))):
    if not name.endswith('.bufr') or name in ('multi_invalid_messages.bufr', 'prepbufr.bufr'):
        continue
    with open(os.path.join('tests', 'data', name), 'rb') as ins:
        message = decoder.process(ins.read(), info_only=True)
    ids = message.unexpanded_descriptors.value
    table_group = TableGroupCacheManager.get_table_group(
        master_table_number=message.master_table_number.value,
        originating_centre=message.originating_centre.value,
        originating_subcentre=message.originating_subcentre.value,
        master_table_version=message.master_table_version.value,
        local_table_version=message.local_table_version.value)
    template = table_group.template_from_ids(*ids)
    assert template.original_descriptor_ids == list(ids), name
    n_files += 1
assert n_files >= 10

print('demo 3 OK')
