import os, sys; sys.path.insert(0, os.getcwd())
"""
Differential demonstration for refactor 6 (the names recorded by the template compiler written
out instead of being read from the calling frame).

Part A compiles a template built by hand that reaches every one of the 14 recording methods
(six of CompilerState, eight of TemplateCompiler; the sample files reach only nine of them) and
compares the compiled statements, one by one, with a list written down here by hand. It also
records through a subclass and through an alias, where "name of the calling function" and
"name of the attribute" differ.

Part B runs the compiled templates: a message built by hand from that template (uncompressed and
compressed) and sample files with bitmaps and delayed replications are decoded and re-encoded by
coders with compiled-template caches of size 0, 1, 2, 100 in seeded random histories, and compared
with (a) the values that were put into the hand-built message, (b) the renderings obtained in a
fresh process by a decoder that does not compile at all.

Exits 0 when everything agrees (both on the unpatched and on the patched tree).
"""
import json
import random
import hashlib
import subprocess
import logging

logging.disable(logging.WARNING)

import pybufrkit
assert os.path.dirname(os.path.abspath(pybufrkit.__file__)) == os.path.join(os.getcwd(), 'pybufrkit'), pybufrkit.__file__

from pybufrkit.tables import TableGroupCacheManager
from pybufrkit.coder import CoderState, BSRModifier
from pybufrkit.decoder import Decoder
from pybufrkit.encoder import Encoder
from pybufrkit.utils import JSON_DUMPS_KWARGS
from pybufrkit.renderer import FlatTextRenderer, NestedTextRenderer, FlatJsonRenderer, NestedJsonRenderer
from pybufrkit.templatecompiler import (TemplateCompiler, CompilerState, CompiledTemplate, CoderMethodCall,
                                        StateMethodCall, loads_compiled_template)

DATA = os.path.join('tests', 'data')
N_CHECKS = [0]


def check(cond, *what):
    N_CHECKS[0] += 1
    if not cond:
        print('MISMATCH:', *what)
        sys.exit(1)


# ---------------------------------------------------------------------------------------------
# The template built by hand
TEMPLATE = [1001, 1015, 2001,
            203014, 12001, 203255, 12001, 203000, 12001,
            222000, 236000, 101004, 31031, 1031, 1032, 101002, 33007,
            224000, 237000, 1031, 1032, 8023, 101002, 224255,
            237255, 235000, 1002]

# What the compiler must record for it: written by hand from the BUFR rules and Table B
# (C = call on the coder, S = call on the state; the numbers are the descriptor and the other arguments)
EXPECTED_STATEMENTS = [
    'C process_numeric 1001 7 1.0 0',
    'C process_string 1015 20',
    'C process_codeflag 2001 2',
    'C process_new_refval 12001 14',                    # 203014 012001 203255
    'C process_numeric_of_new_refval 12001 12 10.0 1',  # 012001 under the new reference value
    'S cancel_new_refvals',                             # 203000
    'C process_numeric 12001 12 10.0 0',                # 012001 as in Table B again
    'S mark_back_reference_boundary',                   # 222000
    'C process_constant 222000 0',
    'n_031031 = 0',                                     # 236000 starts a bitmap definition
    'C process_constant 236000 0',
    'n_031031 = 0',                                     # 101004 is not yet a bit of the bitmap
    'loop 4 [',
    'n_031031 + 1',
    'C process_codeflag 31031 1',
    ']',
    'C define_bitmap True',                             # the first descriptor after the bits; defined for reuse
    'C process_codeflag 1031 16',
    'C process_numeric 1032 8 1.0 0',                   # its unit in Table B version 33 is not plainly CODE TABLE
    'loop 2 [',
    'S add_bitmap_link',                                # class 33 after 222000
    'C process_numeric 33007 7 1.0 0',
    ']',
    'S mark_back_reference_boundary',                   # 224000
    'C process_constant 224000 0',
    'S recall_bitmap',                                  # 237000
    'C process_constant 237000 0',
    'C process_codeflag 1031 16',
    'C process_numeric 1032 8 1.0 0',                   # its unit in Table B version 33 is not plainly CODE TABLE
    'C process_codeflag 8023 6',
    'loop 2 [',
    "C process_bitmapped_descriptor 224255 {'bsr_modifier': (0, 0, 1), 'nbits_offset': 0, 'new_nbytes': 0, 'scale_offset': 0}",
    ']',
    'S cancel_bitmap',                                  # 237255 after a bitmap defined for reuse
    'C process_constant 237255 0',
    'S cancel_all_back_references',                     # 235000
    'C process_numeric 1002 10 1.0 0',
]

# The 14 recording methods and the class they belong to
RECORDED_BY_STATE = {'cancel_new_refvals', 'mark_back_reference_boundary', 'recall_bitmap', 'cancel_bitmap',
                     'cancel_all_back_references', 'add_bitmap_link'}
RECORDED_BY_COMPILER = {'process_bitmapped_descriptor', 'define_bitmap', 'process_numeric', 'process_string',
                        'process_codeflag', 'process_new_refval', 'process_numeric_of_new_refval',
                        'process_constant'}


def flatten(block_dict):
    """The dictionary form of a compiled block as a list of one line per statement"""
    lines = []
    for st in block_dict['statements']:
        t = st['type']
        if t == 'Loop':
            repeat = st['repeat']
            if isinstance(repeat, dict):
                check(repeat['type'] == 'CoderMethodCall' and repeat['args'] == () and
                      repeat['with_descriptor'] is False and repeat['state_properties'] is None, 'loop count', repeat)
                repeat = 'C ' + repeat['method_name']
            lines.append('loop {} ['.format(repeat))
            lines.extend(flatten(st))
            lines.append(']')
        elif t == 'State031031Reset':
            lines.append('n_031031 = 0')
        elif t == 'State031031Increment':
            lines.append('n_031031 + 1')
        else:
            check(t in ('CoderMethodCall', 'StateMethodCall'), 'statement type', t)
            check(type(st['method_name']) is str, 'type of the name', st)
            words = [t[0], st['method_name']] + [str(a) for a in st['args']]
            if st['state_properties'] is not None:
                words.append(str({k: tuple(v) if isinstance(v, tuple) else v
                                  for k, v in sorted(st['state_properties'].items())}))
            lines.append(' '.join(words))
    return lines


def names_in(lines):
    return ({l.split()[1] for l in lines if l.startswith('S ')},
            {l.split()[1] for l in lines if l.startswith('C ')} |
            {l.split()[2] for l in lines if l.startswith('loop C ')})


def part_a():
    table_group = TableGroupCacheManager.get_table_group(master_table_version=33)
    template = table_group.template_from_ids(*TEMPLATE)
    compiled = TemplateCompiler().process(template, table_group)
    check(type(compiled) is CompiledTemplate and compiled.table_group_key == table_group.key and
          compiled.template is template, 'compiled template')
    lines = flatten(compiled.to_dict())
    for i, (got, expected) in enumerate(zip(lines, EXPECTED_STATEMENTS)):
        check(got == expected, 'statement', i, 'got', got, 'expected', expected)
    check(len(lines) == len(EXPECTED_STATEMENTS), 'number of statements', len(lines))

    state_names, coder_names = names_in(lines)
    check(state_names == RECORDED_BY_STATE, 'all six recording methods of the state are reached', state_names)
    check(coder_names == RECORDED_BY_COMPILER, 'all eight recording methods of the compiler are reached', coder_names)
    # every recorded name is something the runtime objects can be asked for
    for name in state_names:
        check(callable(getattr(CoderState, name)), 'CoderState.' + name)
    for name in coder_names:
        check(callable(getattr(Decoder, name)) and callable(getattr(Encoder, name)), 'coder.' + name)

    # the text form of the compiled template
    text = str(compiled)
    for fragment in ('coder.process_numeric(001001,7,1.0,0)', 'coder.process_new_refval(012001,14)',
                     'coder.process_numeric_of_new_refval(012001,12,10.0,1)', 'state.cancel_new_refvals()',
                     'state.mark_back_reference_boundary(),coder.process_constant(222000,0)',
                     '<4, [n_031031 + 1,coder.process_codeflag(031031,1)]>', 'coder.define_bitmap(True)',
                     '<2, [state.add_bitmap_link(),coder.process_numeric(033007,7,1.0,0)]>',
                     'state.recall_bitmap(),coder.process_constant(237000,0)',
                     '<2, [coder.process_bitmapped_descriptor(224255)]>',
                     'state.cancel_bitmap(),coder.process_constant(237255,0),state.cancel_all_back_references()'):
        check(fragment in text, 'text form', fragment, text)

    # through JSON and back: the same statements
    reloaded = loads_compiled_template(json.dumps(compiled.to_dict()))
    check(flatten(reloaded.to_dict()) == EXPECTED_STATEMENTS, 'reloaded statements')

    # delayed replication: the loop count is a recorded call as well (no name is taken from a frame there)
    compiled = TemplateCompiler().process(table_group.template_from_ids(101000, 31001, 1002), table_group)
    check(flatten(compiled.to_dict()) == ['C process_numeric 31001 8 1.0 0',
                                          'loop C get_value_for_delayed_replication_factor [',
                                          'C process_numeric 1002 10 1.0 0', ']'], 'delayed replication')

    # 207 and 201/202/208 in force when a marker operator is recorded: the state properties
    compiled = TemplateCompiler().process(
        table_group.template_from_ids(207002, 201130, 202129, 208003, 12001, 1015, 223000, 101001, 31031, 223255),
        table_group)
    check(flatten(compiled.to_dict()) == [
        'C process_numeric 12001 21 10000.0 0', 'C process_string 1015 3',
        'S mark_back_reference_boundary', 'C process_constant 223000 0', 'n_031031 = 0',
        'loop 1 [', 'n_031031 + 1', 'C process_codeflag 31031 1', ']',
        'C define_bitmap False',
        "C process_bitmapped_descriptor 223255 {'bsr_modifier': (7, 2, 100), 'nbits_offset': 2, 'new_nbytes': 3, 'scale_offset': 1}",
    ], 'state properties', flatten(compiled.to_dict()))

    # ---- what is recorded is the name the method was defined under
    calls = []

    class Chatty(TemplateCompiler):
        def process_codeflag(self, state, bit_operator, descriptor, nbits):
            calls.append(descriptor.id)
            super(Chatty, self).process_codeflag(state, bit_operator, descriptor, nbits)

        string_by_another_name = TemplateCompiler.process_string

    class ChattyState(CompilerState):
        def recall_bitmap(self):
            calls.append('recall')
            super(ChattyState, self).recall_bitmap()

        forget = CompilerState.cancel_all_back_references

    template = table_group.template_from_ids(2001)
    state = ChattyState(table_group, template)
    chatty = Chatty()
    chatty.process_template(state, None, template)
    chatty.string_by_another_name(state, None, table_group.lookup(1015), 5)
    state.recall_bitmap()
    state.forget()
    state.cancel_new_refvals()
    check(calls == [2001, 'recall'], 'overriding methods were called', calls)
    check(flatten(state.compiled_template.to_dict()) ==
          ['C process_codeflag 2001 2', 'C process_string 1015 5', 'S recall_bitmap', 'S cancel_all_back_references',
           'S cancel_new_refvals'], 'names under subclassing and aliasing', flatten(state.compiled_template.to_dict()))
    kinds = [type(s) for s in state.compiled_template.statements]
    check(kinds == [CoderMethodCall, CoderMethodCall, StateMethodCall, StateMethodCall, StateMethodCall], 'kinds', kinds)
    check(state.new_refvals == {}, 'cancel_new_refvals also acts on the compiler state')

    # process_new_refval marks the descriptor in the compiler state, cancel_new_refvals clears the mark
    state = CompilerState(table_group, template)
    TemplateCompiler().process_new_refval(state, None, table_group.lookup(12001), 9)
    check(state.new_refvals == {12001: None}, 'new_refvals of the compiler state', state.new_refvals)
    state.cancel_new_refvals()
    check(state.new_refvals == {} and flatten(state.compiled_template.to_dict()) ==
          ['C process_new_refval 12001 9', 'S cancel_new_refvals'], 'new refval then cancel')


# ---------------------------------------------------------------------------------------------
# The message built by hand
def subset_values(k):
    return [5 + k, 'STATION %d' % k, 1,
            -500, 25.0 + k, 280.5 + k,
            0, 0, 1, 0, 0, 1, 98, 7, 60 + k, 70 + k,
            0, 0, 98, 7, 4, 1.5 + k, 2.5 + k,
            0, 100 + k]


def hand_message_json(compressed, n_subsets):
    return json.dumps([["BUFR", 0, 4],
                       [22, 0, 98, 0, 0, False, "0000000", 2, 4, 0, 33, 0, 2020, 1, 2, 3, 4, 5],
                       [0, "00000000", n_subsets, True, compressed, "000000", TEMPLATE],
                       [0, "00000000", [subset_values(k) for k in range(n_subsets)]],
                       ["7777"]])


def expected_decoded_values(k):
    values = subset_values(k)
    values[1] = ('STATION %d' % k).ljust(20).encode()
    return values


# which decoded value is linked to which (index of the attribute -> index of what it refers to, from 0):
# the bitmap 1 0 0 1 over the four elements before 222000 selects the two 012001 in the middle
EXPECTED_LINKS = {14: 3, 15: 4, 21: 3, 22: 4}

HAND = {'hand:u2': (False, 2), 'hand:u3': (False, 3), 'hand:c2': (True, 2), 'hand:c1': (True, 1)}
SAMPLES = ['amv2_87.bufr', 'g2nd_208.bufr', 'rado_250.bufr', 'mpco_217.bufr', '207003.bufr', 'uegabe.bufr',
           'b005_89.bufr', 'contrived.bufr']
FAILING = ['multi_invalid_messages.bufr', 'hand:u2:cut']
POOL = sorted(HAND) + SAMPLES + FAILING
_BYTES = {}


def message_bytes(name):
    if name not in _BYTES:
        if name.startswith('hand:'):
            compressed, n_subsets = HAND[name[:7]]
            # built by an encoder that does not compile
            s = Encoder().process(hand_message_json(compressed, n_subsets)).serialized_bytes
            if name.endswith(':cut'):
                s = s[:-30] + b'7777'
        else:
            with open(os.path.join(DATA, name), 'rb') as ins:
                s = ins.read()
        _BYTES[name] = s
    return _BYTES[name]


def observe(decoder, encoder, name):
    """Everything that is compared, as one string"""
    s = message_bytes(name)
    try:
        m = decoder.process(s, file_path=name)
    except Exception as e:
        return 'FAILED {}: {}'.format(type(e).__name__, e)
    if name in HAND:
        compressed, n_subsets = HAND[name]
        td = m.template_data.value
        check(td.decoded_values_all_subsets == [expected_decoded_values(k) for k in range(n_subsets)],
              'values of the hand-built message', name, td.decoded_values_all_subsets)
        check(td.bitmap_links_all_subsets == [EXPECTED_LINKS] * n_subsets, 'links of the hand-built message', name,
              td.bitmap_links_all_subsets)
        check(m.serialized_bytes == s, 'all bytes of the hand-built message were read')
    out = [repr(m.table_group_key[1:]), FlatTextRenderer().render(m), NestedTextRenderer().render(m)]
    flat_json_string = json.dumps(FlatJsonRenderer().render(m), **JSON_DUMPS_KWARGS)
    out.append(flat_json_string)
    out.append(json.dumps(NestedJsonRenderer().render(m), **JSON_DUMPS_KWARGS))
    try:
        m2 = encoder.process(flat_json_string, file_path=name)
        out.append(hashlib.sha256(m2.serialized_bytes).hexdigest())
        out.append(str(m2.serialized_bytes == m.serialized_bytes))
        if name in HAND:
            check(m2.serialized_bytes == s, 'the hand-built message is encoded to the same bytes', name)
    except Exception as e:
        out.append('ENCODE FAILED {}: {}'.format(type(e).__name__, e))
    return '\n'.join(out)


def digest(text):
    return text[:7] + hashlib.sha256(text.encode('utf-8', 'replace')).hexdigest() if not text.startswith('FAILED') else text


def fresh(name):
    p = subprocess.run([sys.executable, os.path.abspath(__file__), '--fresh', name],
                       stdout=subprocess.PIPE, stderr=subprocess.DEVNULL, check=True)
    return p.stdout.decode('utf-8').strip()


def part_b():
    # the references: each message alone, in a fresh process, by coders that do not compile
    reference = {name: fresh(name) for name in POOL}
    for name in FAILING:
        check(reference[name].startswith('FAILED'), 'fails', name, reference[name])
    for name in sorted(HAND) + SAMPLES:
        check(not reference[name].startswith('FAILED'), 'decodes', name, reference[name])

    rnd = random.Random(613)
    for cache_max, n_ops in ((0, 10), (1, 30), (2, 30), (100, 20)):
        decoder = Decoder(compiled_template_cache_max=cache_max)
        encoder = Encoder(compiled_template_cache_max=cache_max)
        history = POOL[:] + [rnd.choice(POOL) for _ in range(n_ops)]
        rnd.shuffle(history)
        names = (set(), set())
        for i, name in enumerate(history):
            got = digest(observe(decoder, encoder, name))
            check(got == reference[name], 'history', cache_max, i, name, got, reference[name])
            for coder in (decoder, encoder):
                cache = coder.compiled_template_manager.cache
                check(len(cache) <= cache_max, 'template cache limit', len(cache), cache_max)
                for compiled in cache.values():
                    for acc, new in zip(names, names_in(flatten(compiled.to_dict()))):
                        acc.update(new)
        if cache_max:
            check(names[0] == RECORDED_BY_STATE, 'state calls that were run', cache_max, names[0])
            check(names[1] == RECORDED_BY_COMPILER | {'get_value_for_delayed_replication_factor'},
                  'coder calls that were run', cache_max, names[1])


if __name__ == '__main__':
    if sys.argv[1:2] == ['--fresh']:
        print(digest(observe(Decoder(), Encoder(), sys.argv[2])))
        sys.exit(0)

    part_a()
    n_a = N_CHECKS[0]
    part_b()
    print('refactor 6 demo: {} compiler checks, {} run-time checks, all as expected'.format(n_a, N_CHECKS[0] - n_a))
