import os, sys; sys.path.insert(0, os.getcwd())
"""
Differential demonstration for refactor 6 (the operators that work with a bitmap,
222-225, 232, 235, 236 and 237, are dispatched through a table of handlers from
a method of their own, process_bitmap_operator_descriptor).

Messages that carry every one of those operators (000 and 255 forms, bitmaps
shared, redefined, recalled, cancelled) are built by hand, encoded and decoded,
with the interpreter and with compiled templates, compressed and not.  What is
observed (bitmap_links_all_subsets, the marker descriptors, the node tree and
the 'attributes' of the nested JSON) is compared with a small model of the BUFR
rules written here from scratch, which does not use any pybufrkit code.  Then
process_operator_descriptor is called directly, one operator at a time, on
hand-made states (effects, order of the effects, errors), and what the template
compiler records is compared with a list written by hand.
"""
import itertools
import json

import pybufrkit
from pybufrkit.bitops import get_bit_reader
from pybufrkit.coder import CoderState, BSRModifier
from pybufrkit.decoder import Decoder
from pybufrkit.encoder import Encoder
from pybufrkit.errors import PyBufrKitError
from pybufrkit.renderer import NestedJsonRenderer
from pybufrkit.descriptors import ElementDescriptor, MarkerDescriptor, OperatorDescriptor
from pybufrkit.descriptors import AssociatedDescriptor
from pybufrkit.templatecompiler import (TemplateCompiler, MethodCall, StateMethodCall, CoderMethodCall, Loop,
                                        State031031Reset, State031031Increment)

assert os.path.dirname(os.path.abspath(pybufrkit.__file__)) == os.path.join(os.getcwd(), 'pybufrkit')

# --------------------------------------------------------------------------
# Independent model
WIDTH = {1001: 7, 1002: 10, 11001: 9, 12001: 12, 20010: 7, 33007: 7,
         8023: 6, 8024: 6, 31021: 6, 31031: 1, 31001: 8, 31002: 16}
NUMERIC = (1001, 1002, 11001, 12001, 20010, 33007, 31001, 31002)
SEQS = {301001: [1001, 1002]}
PREFIX = {222255: 'M', 223255: 'T', 224255: 'F', 225255: 'D', 232255: 'R'}
NODE_CLASS = {223255: 'SubstitutionNode', 224255: 'FirstOrderStatsNode',
              225255: 'DifferenceStatsNode', 232255: 'ReplacementNode'}


class Entry(object):
    def __init__(self, kind, id_, marker=None, owner=None):
        self.kind, self.id, self.marker, self.owner = kind, id_, marker, owner

    def idstr(self):
        if self.kind == 'A':
            return 'A%05d' % self.id
        if self.kind == 'M':
            return '%s%05d' % (PREFIX[self.marker], self.id)
        return '%06d' % self.id


class Model(object):
    """
    Lays the template out flat, one entry per value, producing the values on the
    way (bits and replication factors are taken from the queues given).
    """

    def __init__(self, ids, bits, factors, seed):
        self.bits, self.factors = list(bits), list(factors)
        self.counter = itertools.count(seed)
        self.flat, self.values = [], []
        self.links = {}
        self.attrs = {}
        self.node_class = {}
        self.assoc, self.assoc_meaning = [], None
        self.stage, self.for_reuse, self.run = None, False, []
        self.boundary, self.backrefs, self.reuse_bitmap = 0, None, None
        self.zero = None
        self.qa = None
        self.wait = {8023: False, 8024: False}
        self.meaning = {8023: None, 8024: None}
        self.walk(ids)
        assert not self.bits and not self.factors

    # values
    def make_value(self, entry):
        c = next(self.counter)
        if entry.kind == 'O':
            return 0
        if entry.kind == 'A':
            return c % 100
        if entry.kind == 'E' and entry.id == 31031:
            return self.bits.pop(0)
        if entry.kind == 'E' and entry.id in (31001, 31002):
            return self.factors.pop(0)
        if entry.id == 12001:
            v = (c * 13 % 4000) / 10.0
        else:
            v = c * 7 % min(100, 2 ** WIDTH[entry.id] - 1)
        # a negative difference can only be coded for a numeric element
        return -v if entry.marker == 225255 and entry.id in NUMERIC else v

    def emit(self, entry):
        self.flat.append(entry)
        self.values.append(self.make_value(entry))
        return len(self.flat) - 1

    def attach(self, owner, attr):
        self.attrs.setdefault(owner, []).append(attr)

    # bitmap
    def feed(self, d):
        if self.stage == 'indicator':
            if d == 237000:
                self.stage = None
            else:
                self.for_reuse = (d == 236000)
                self.stage, self.run = 'waiting', []
        elif self.stage == 'waiting':
            if d == 31031:
                self.stage = 'counting'
        elif self.stage == 'counting':
            if d != 31031:
                bitmap = [self.values[j] for j in self.run]
                if self.for_reuse:
                    self.reuse_bitmap = bitmap
                self.select(bitmap)
                self.stage = None

    def select(self, bitmap):
        if not self.backrefs:
            elements = [j for j in range(self.boundary) if self.flat[j].kind == 'E']
            self.backrefs = elements[len(elements) - len(bitmap):]
        assert len(self.backrefs) == len(bitmap)
        self.zero = [j for j, bit in zip(self.backrefs, bitmap) if bit == 0]

    def link_next(self, j):
        owner = self.zero.pop(0)
        self.links[j] = owner
        self.attach(owner, j)
        return owner

    # walking
    def walk(self, ids):
        i = 0
        while i < len(ids):
            d = ids[i]
            i += 1
            self.feed(d)
            F, X, Y = d // 100000, d // 1000 % 100, d % 1000
            if F == 0:
                self.element(d)
            elif F == 1:
                if Y == 0:
                    Y = self.values[self.element(ids[i])]
                    i += 1
                for _ in range(Y):
                    self.walk(ids[i:i + X])
                i += X
            elif F == 2:
                self.operator(d, X + 200, Y)
            else:
                self.walk(SEQS[d])

    def element(self, d):
        X = d // 1000 % 100
        if self.assoc and X != 31:
            a = self.emit(Entry('A', d))
            self.node_class[a] = 'AssociatedFieldNode'
            self.attach(a, self.assoc_meaning)
            j = self.emit(Entry('E', d))
            self.attach(j, a)
            if self.qa == 'processing':
                self.qa = None
            return j
        # the owner has to be known before the entry is laid out
        j = len(self.flat)
        if X == 33:
            if self.qa == 'waiting':
                self.qa = 'processing'
            if self.qa == 'processing':
                self.link_next(j)
                self.node_class[j] = 'QualityInfoNode'
        elif self.qa == 'processing':
            self.qa = None
        assert self.emit(Entry('E', d)) == j
        if self.stage == 'counting' and d == 31031:
            self.run.append(j)
        if d == 31021 and self.assoc:
            self.assoc_meaning = j
        elif d in self.wait and self.wait[d]:
            self.meaning[d], self.wait[d] = j, False
        return j

    def operator(self, d, code, Y):
        if code == 204:
            if Y:
                self.assoc.append(Y)
            else:
                self.assoc.pop()
        elif code in (222, 223, 224, 225, 232) and Y == 0:
            self.stage = 'indicator'
            self.boundary = len(self.flat)
            self.emit(Entry('O', d))
            if code == 222:
                self.qa = 'waiting'
            elif code == 224:
                self.wait[8023] = True
            elif code == 225:
                self.wait[8024] = True
        elif code == 222:  # 222255: linked like a marker, but no attribute is made of it
            j = len(self.flat)
            owner = self.zero.pop(0)
            self.links[j] = owner
            assert self.emit(Entry('M', self.flat[owner].id, marker=d, owner=owner)) == j
        elif code in (223, 224, 225, 232):
            j = len(self.flat)
            owner = self.link_next(j)
            assert self.emit(Entry('M', self.flat[owner].id, marker=d, owner=owner)) == j
            self.node_class[j] = NODE_CLASS[d]
            if d == 224255:
                self.attach(j, self.meaning[8023])
            elif d == 225255:
                self.attach(j, self.meaning[8024])
        elif code == 235:
            self.backrefs, self.reuse_bitmap = None, None
        elif code == 236:
            self.emit(Entry('O', d))
        elif code == 237:
            if Y == 0:
                assert self.reuse_bitmap is not None
                self.select(self.reuse_bitmap)
            elif self.for_reuse:
                self.reuse_bitmap = None
            self.emit(Entry('O', d))
        else:
            raise AssertionError(d)

    # expected nested JSON of the node at flat index j
    def expected_json(self, j, is_attribute=False):
        e = self.flat[j]
        ret = {'id': e.idstr(), 'value': self.values[j]}
        if is_attribute and e.kind != 'A':
            ret['virtual'] = True
        if self.attrs.get(j):
            ret['attributes'] = [self.expected_json(a, True) for a in self.attrs[j]]
        return ret


# --------------------------------------------------------------------------
# The library side
def message(ids, subsets, compressed):
    return [['BUFR', 0, 4],
            [22, 0, 89, 0, 0, False, '0000000', 0, 2, 0, 13, 0, 2007, 11, 21, 12, 0, 0],
            [0, '00000000', len(subsets), True, compressed, '000000', ids],
            [0, '00000000', subsets],
            ['7777']]


def strip(x):
    if isinstance(x, list):
        return [strip(i) for i in x]
    if isinstance(x, dict):
        return dict((k, strip(v)) for k, v in x.items() if k != 'description')
    return x


def top_level_values(nodes, out):
    for n in nodes:
        if 'value' in n:
            out.append(n)
            continue
        if 'factor' in n:
            out.append(n['factor'])
        for m in n.get('members', []):
            if isinstance(m, list):
                top_level_values(m, out)
            else:
                top_level_values([m], out)
    return out


def node_attributes(nodes, out, classes):
    for n in nodes:
        if hasattr(n, 'factor'):
            node_attributes([n.factor], out, classes)
        if hasattr(n, 'members'):
            node_attributes(n.members, out, classes)
        if hasattr(n, 'index'):
            classes[n.index] = type(n).__name__
            if hasattr(n, 'attributes'):
                indices = [a.index for a in n.attributes]
                assert out.setdefault(n.index, indices) == indices
                node_attributes(n.attributes, out, classes)
    return out, classes


CODERS = [
    ('interpreted', Encoder(), Decoder()),
    ('compiled', Encoder(compiled_template_cache_max=20), Decoder(compiled_template_cache_max=20)),
]
RENDERER = NestedJsonRenderer()
n_checked = [0]


def check_template_data(what, bufr_message, models, compressed):
    td = bufr_message.template_data.value
    assert len(td.bitmap_links_all_subsets) == len(models), what
    for s, model in enumerate(models):
        # 1. the links
        assert td.bitmap_links_all_subsets[s] == model.links, (what, s, td.bitmap_links_all_subsets[s], model.links)
        # 2. the descriptors
        descriptors = td.decoded_descriptors_all_subsets[s]
        assert [str(d) for d in descriptors] == [e.idstr() for e in model.flat], (what, s)
        for d, e in zip(descriptors, model.flat):
            if e.kind == 'M':
                assert type(d) is MarkerDescriptor and d.marker_id == e.marker and d.id == e.id
                if e.marker == 225255:
                    assert (d.nbits, d.refval) == (WIDTH[e.id] + 1, -2 ** WIDTH[e.id]), (what, d.nbits, d.refval)
                else:
                    assert (d.nbits, d.refval) == (WIDTH[e.id], 0)
        # 3. the values
        assert td.decoded_values_all_subsets[s] == model.values, (what, s)
        # 4. the node tree
        attributes, classes = node_attributes(td.decoded_nodes_all_subsets[s], {}, {})
        assert attributes == dict((k, v) for k, v in model.attrs.items() if v), (what, s, attributes, model.attrs)
        for j, e in enumerate(model.flat):
            assert classes[j] == model.node_class.get(j, 'ValueDataNode'), (what, s, j, classes[j])
    if compressed:
        assert all(x is td.bitmap_links_all_subsets[0] for x in td.bitmap_links_all_subsets)
    # 5. the nested JSON
    rendered = RENDERER.render(bufr_message)
    (template_data,) = [p['value'] for section in rendered for p in section if p['name'] == 'template_data']
    for s, model in enumerate(models):
        got = strip(top_level_values(template_data[s], []))
        expected = [model.expected_json(j) for j, e in enumerate(model.flat) if e.kind != 'A']
        assert got == expected, (what, s, got, expected)
    n_checked[0] += 1


def run_scenario(name, ids, bits_per_subset, factors_per_subset, compressed):
    models = [Model(ids, bits, factors, seed=1 + 17 * s)
              for s, (bits, factors) in enumerate(zip(bits_per_subset, factors_per_subset))]
    msg = json.dumps(message(ids, [m.values for m in models], compressed))
    for label, encoder, decoder in CODERS:
        what = (name, label, 'compressed' if compressed else 'uncompressed')
        encoded = encoder.process(msg)
        check_template_data(what + ('encoder',), encoded, models, compressed)
        decoded = decoder.process(encoded.serialized_bytes)
        check_template_data(what + ('decoder',), decoded, models, compressed)
    return models


def rep(k, what, delayed):
    if delayed:
        return [101000, 31001, what]
    return [101000 + k, what] if k else []


def chain(base, n, k, delayed=False):
    """All five kinds of attributes, sharing one bitmap defined for reuse"""
    return (base + [222000, 236000, 101000 + n, 31031] + [33007] * k +
            [224000, 237000, 8023] + rep(k, 224255, delayed) +
            [225000, 237000, 8024] + rep(k, 225255, delayed) +
            [223000, 237000] + rep(k, 223255, delayed) +
            [232000, 237000] + rep(k, 232255, delayed) + [237255])


def chain_factors(k, delayed):
    return [k] * 4 if delayed else []


def patterns(n):
    return [list(p) for p in itertools.product((0, 1), repeat=n)]


def main():
    # A. flat base, every bitmap length and every pattern, shared reuse bitmap
    base = [1001, 1002, 12001, 11001]
    for n in range(1, 5):
        for p in patterns(n):
            k = p.count(0)
            ids = chain(base, n, k)
            run_scenario('A%d%s' % (n, p), ids, [p], [[]], False)
            run_scenario('A%d%s' % (n, p), ids, [p] * 3, [[]] * 3, True)

    # B. sequence and nested replication before the operator; bitmaps that skip
    # elements inside the replications; subsets of uncompressed data that carry
    # different bitmaps; markers under delayed replication
    base = [301001, 104002, 12001, 101002, 11001, 20010]  # 2 + 2 * 4 elements
    for n, p in [(10, [0, 1, 1, 0, 1, 0, 1, 1, 0, 0]),
                 (10, [1, 1, 0, 0, 0, 1, 1, 1, 1, 0]),
                 (7, [1, 0, 1, 0, 1, 0, 1]),
                 (3, [0, 0, 0]),
                 (10, [1] * 10)]:
        k = p.count(0)
        rotated = p[3:] + p[:3]
        for delayed in (False, True):
            ids = chain(base, n, k, delayed)
            f = chain_factors(k, delayed)
            run_scenario('B', ids, [p, rotated], [f, f], False)
            run_scenario('B', ids, [p, p], [f, f], True)
    # different numbers of zero bits in the subsets (delayed replication of the markers)
    ids = chain(base, 6, 0, True)
    p1, p2, p3 = [0, 1, 1, 1, 1, 0], [0, 0, 0, 1, 0, 1], [1, 1, 1, 1, 1, 1]
    run_scenario('B-delayed', ids, [p1, p2, p3], [[2] * 4, [4] * 4, [0] * 4], False)

    # C. delayed replication in the base (the factor is an element that takes a
    # bit) and associated fields; direct (non reuse) bitmaps, redefinition after
    # 235000 for elements that come later, a second bitmap defined for reuse and
    # recalled (which refers to the same elements as long as 235000 is not met)
    base = [204007, 31021, 1001, 12001, 204000, 102000, 31001, 11001, 1002]
    more = [12001, 11001, 1002, 20010, 1001]
    for f, n1, p1, n2, p2, p3 in [
        (2, 8, [0, 0, 1, 0, 1, 0, 0, 1], 3, [0, 1, 0], [1, 0, 0]),
        (1, 6, [1, 0, 0, 0, 1, 0], 5, [0, 0, 1, 1, 0], [0, 1, 1, 1, 0]),
        (0, 4, [0, 0, 0, 0], 2, [1, 0], [0, 1]),
    ]:
        k1, k2, k3 = p1.count(0), p2.count(0), p3.count(0)
        ids = (base + [222000, 101000 + n1, 31031] + [33007] * k1 +
               [223000, 101000 + n1, 31031] + [223255] * k1 +
               [235000] + more +
               [224000, 101000 + n2, 31031, 8023] + [224255] * k2 +
               [237255,
                225000, 236000, 101000 + n2, 31031, 8024] + [225255] * k3 +
               [232000, 237000] + [232255] * k3 +
               [237255, 235000])
        for compressed, n_subsets in ((False, 1), (False, 2), (True, 2)):
            run_scenario('C', ids, [p1 + p1 + p2 + p3] * n_subsets, [[f]] * n_subsets, compressed)

    # D. the sample files that carry bitmaps still go through both coders
    for stub in ('rado_250', 'amv2_87', 'b005_89', 'asr3_190', '207003'):
        with open(os.path.join('tests', 'data', stub + '.json')) as ins:
            text = ins.read()
        reference = None
        for label, encoder, decoder in CODERS:
            encoded = encoder.process(text)
            decoded = decoder.process(encoded.serialized_bytes)
            links = decoded.template_data.value.bitmap_links_all_subsets
            assert links == encoded.template_data.value.bitmap_links_all_subsets
            assert any(links) or stub == '207003'
            reference = reference or links
            assert links == reference

    # E. (rebased: since "fix: 237255 cancels the bitmap defined for reuse also when a bitmap not for reuse has been defined
    # since" a 237000 after such a 237255 is refused; see the error cases under F)
    # F. errors through messages
    def values_for(ids, bits):
        values = []
        for d in ids:
            if d // 100000 == 1:
                continue
            values.append(bits.pop(0) if d == 31031 else 0)
        return values

    def expect_error(ids, bits, error, text=None):
        for label, encoder, decoder in CODERS:
            for compressed in (False, True):
                # 1XX001 only: one value per descriptor
                msg = message(ids, [values_for(ids, list(bits))] * 2, compressed)
                try:
                    encoder.process(json.dumps(msg))
                except Exception as err:
                    assert type(err) is error, (ids, label, repr(err))
                    assert text is None or err.message == text, err.message
                else:
                    raise AssertionError('no error for {}'.format(ids))

    # recall of a bitmap that has been cancelled, that has never been defined,
    # that has not been defined for reuse, that 235000 has dropped
    no_bitmap = 'No bitmap is defined for reuse'
    expect_error([1001, 222000, 236000, 101001, 31031, 33007, 237255, 224000, 237000, 8023, 224255],
                 [0], PyBufrKitError, no_bitmap)
    expect_error([1001, 224000, 237000, 8023, 224255], [], PyBufrKitError, no_bitmap)
    expect_error([1001, 222000, 101001, 31031, 33007, 224000, 237000, 8023, 224255], [0], PyBufrKitError, no_bitmap)
    expect_error([1001, 222000, 236000, 101001, 31031, 33007, 235000, 224000, 237000, 8023, 224255],
                 [0], PyBufrKitError, no_bitmap)
    # a marker when no bitmap has ever been defined, and one marker too many
    for marker in (222255, 223255, 224255, 225255, 232255):
        expect_error([1001, marker], [], TypeError)
        expect_error([1001, 1002, marker - 255, 101001, 31031, 8023, 8024, marker, marker], [0], StopIteration)
    # operators that are not implemented
    for d in (241000, 241255, 242000, 243000, 209000, 200000, 226000, 231000, 233000, 234000, 238000):
        expect_error([1001, d], [], NotImplementedError)

    # G. process_operator_descriptor called directly
    def element(id_, nbits=8):
        return ElementDescriptor(id_, 'X', 'Numeric', 0, 0, nbits, 'Numeric', 0, 3)

    e1, e2 = element(1001), element(12001)
    decoder = Decoder()

    def fresh_state():
        state = CoderState(False, 1)
        state.decoded_descriptors.extend([e1, e2])
        state.decoded_values.extend([11, 22])
        return state

    def snapshot(state):
        return dict((k, v) for k, v in vars(state).items() if k != 'next_bitmapped_descriptor')

    def changes(before, state):
        after = snapshot(state)
        return dict((k, after[k]) for k in after if after[k] != before[k])

    # x000 of the five operators that introduce a bitmap
    for code in (222, 223, 224, 225, 232):
        state = fresh_state()
        state.bitmap, state.most_recent_bitmap_is_for_reuse = [1, 0], True
        before = snapshot(state)
        before['decoded_descriptors'] = list(state.decoded_descriptors)
        before['decoded_values'] = list(state.decoded_values)
        before['decoded_descriptors_all_subsets'] = before['decoded_values_all_subsets'] = None
        decoder.process_operator_descriptor(state, None, OperatorDescriptor(code * 1000))
        expected = {'bitmap_definition_state': 1,
                    'back_reference_boundary': 2,  # the operator itself is after the boundary
                    'decoded_descriptors': [e1, e2, OperatorDescriptor(code * 1000)],
                    'decoded_values': [11, 22, 0],
                    'decoded_descriptors_all_subsets': [[e1, e2, OperatorDescriptor(code * 1000)]],
                    'decoded_values_all_subsets': [[11, 22, 0]]}
        if code == 222:
            expected['status_qa_info_follows'] = 1
        assert changes(before, state) == expected, (code, changes(before, state))
        assert type(state.decoded_descriptors[-1]) is OperatorDescriptor
        assert state.next_bitmapped_descriptor is None

    def run_op(state, id_, bit_reader=None):
        n = len(state.decoded_descriptors)
        decoder.process_operator_descriptor(state, bit_reader, OperatorDescriptor(id_))
        return state.decoded_descriptors[n:], state.decoded_values[n:]

    # 235000
    state = fresh_state()
    state.bitmap, state.back_referenced_descriptors, state.bitmapped_descriptors = [0], [(0, e1)], [(0, e1)]
    state.next_bitmapped_descriptor = marker_of_235 = lambda: None
    state.most_recent_bitmap_is_for_reuse = True
    assert run_op(state, 235000) == ([], [])
    assert (state.bitmap, state.back_referenced_descriptors, state.bitmapped_descriptors) == (None, None, None)
    assert state.next_bitmapped_descriptor is marker_of_235 and state.most_recent_bitmap_is_for_reuse is True
    assert state.bitmap_definition_state == 0 and state.back_reference_boundary == 0

    # 236000
    state = fresh_state()
    before = snapshot(state)
    before['decoded_descriptors'], before['decoded_values'] = None, None
    before['decoded_descriptors_all_subsets'] = before['decoded_values_all_subsets'] = None
    assert run_op(state, 236000) == ([OperatorDescriptor(236000)], [0])
    assert sorted(changes(before, state)) == ['decoded_descriptors', 'decoded_descriptors_all_subsets',
                                              'decoded_values', 'decoded_values_all_subsets']

    # 237000: nothing to recall, then something
    state = fresh_state()
    try:
        run_op(state, 237000)
    except PyBufrKitError as err:
        assert type(err) is PyBufrKitError and err.message == no_bitmap
        assert len(state.decoded_descriptors) == 2 and state.decoded_values == [11, 22]
    else:
        raise AssertionError('no error')
    state = fresh_state()
    state.bitmap = bitmap = [1, 0]
    state.back_reference_boundary = 2
    assert run_op(state, 237000) == ([OperatorDescriptor(237000)], [0])
    assert state.bitmap is bitmap and state.bitmapped_descriptors == [(1, e2)]
    assert state.next_bitmapped_descriptor() == (1, e2)
    # the recall comes before the operator is laid out: were the boundary to be
    # after the operator the result would be the same (it is not an element),
    # but a failing recall must leave the operator out, as seen above

    # 237255
    for for_reuse in (True, False):
        state = fresh_state()
        state.bitmap = bitmap = [1, 0]
        state.bitmapped_descriptors = bitmapped = [(1, e2)]
        state.most_recent_bitmap_is_for_reuse = for_reuse
        assert run_op(state, 237255) == ([OperatorDescriptor(237255)], [0])
        assert state.bitmap is None   # (rebased: 237255 cancels whatever was built last)
        assert state.bitmapped_descriptors is bitmapped and state.most_recent_bitmap_is_for_reuse is for_reuse
    # any other operand of 237 is taken as 255
    state = fresh_state()
    state.bitmap, state.most_recent_bitmap_is_for_reuse = [1, 0], True
    assert run_op(state, 237001) == ([OperatorDescriptor(237001)], [0]) and state.bitmap is None

    # x255 (and any operand that is not 0): no bitmap, then a bitmap
    for code in (222, 223, 224, 225, 232):
        for operand in (255, 1):
            state = fresh_state()
            try:
                run_op(state, code * 1000 + operand, get_bit_reader(b'\x80\x80\x80'))
            except TypeError:
                assert len(state.decoded_descriptors) == 2 and state.bitmap_links == {}
            else:
                raise AssertionError('no error')

            state = fresh_state()
            state.back_reference_boundary = 2
            state.build_bitmapped_descriptors([1, 0])
            descriptors, values = run_op(state, code * 1000 + operand, get_bit_reader(b'\x80\x80\x80'))
            assert state.bitmap_links == {2: 1}
            (md,) = descriptors
            assert type(md) is MarkerDescriptor and md.id == 12001 and md.marker_id == code * 1000 + operand
            if code * 1000 + operand == 225255:
                assert (md.nbits, md.refval) == (9, -256) and values == [0b100000001 - 256]
            else:
                assert (md.nbits, md.refval) == (8, 0) and values == [0x80]
            assert state.bitmap_definition_state == 0 and state.status_qa_info_follows == 0
            try:
                run_op(state, code * 1000 + operand, get_bit_reader(b'\x80\x80\x80'))
            except StopIteration:
                assert len(state.decoded_descriptors) == 3 and state.bitmap_links == {2: 1}
            else:
                raise AssertionError('no error')

    # a marker while associated fields are on: the marker operator gets an
    # associated field, the marker descriptor another one, and the link is keyed
    # by the position that follows the first of them
    state = fresh_state()
    state.back_reference_boundary = 2
    state.build_bitmapped_descriptors([0, 1])
    state.nbits_of_associated = [3, 1]
    descriptors, values = run_op(state, 224255, get_bit_reader(b'\xa5\x80\x80'))
    assert [(type(d), d.id) for d in descriptors] == [
        (AssociatedDescriptor, 224255), (AssociatedDescriptor, 1001), (MarkerDescriptor, 1001)]
    assert values == [0xa, 0x5, 0x80] and state.bitmap_links == {3: 0}

    # the operators that are not implemented
    for id_ in (241000, 241255, 242000, 243000, 209000, 200000, 226000, 231000, 233255, 234000, 238000, 299000):
        state = fresh_state()
        before = snapshot(state)
        try:
            run_op(state, id_)
        except NotImplementedError as err:
            assert type(err) is NotImplementedError
            assert str(err) == 'Operator Descriptor {} not implemented'.format(id_)
            assert changes(before, state) == {}
        else:
            raise AssertionError('no error')

    # the operators that have nothing to do with bitmaps are where they were
    state = fresh_state()
    for id_, attribute, value in [
        (201130, 'nbits_offset', 2), (201000, 'nbits_offset', 0),
        (202126, 'scale_offset', -2), (202000, 'scale_offset', 0),
        (203012, 'nbits_of_new_refval', 12), (203255, 'nbits_of_new_refval', 0),
        (204008, 'nbits_of_associated', [8]), (204002, 'nbits_of_associated', [8, 2]),
        (204000, 'nbits_of_associated', [8]), (204000, 'nbits_of_associated', []),
        (206012, 'nbits_of_skipped_local_descriptor', 12),
        (207002, 'bsr_modifier', BSRModifier(7, 2, 100)), (207000, 'bsr_modifier', BSRModifier(0, 0, 1)),
        (208005, 'new_nbytes', 5), (208000, 'new_nbytes', 0),
        (221003, 'data_not_present_count', 3),
    ]:
        before = snapshot(state)
        before['nbits_of_associated'] = list(state.nbits_of_associated)
        assert run_op(state, id_) == ([], [])
        assert changes(before, state) == {attribute: value}, (id_, changes(before, state))
    state.new_refvals = {1001: -5}
    run_op(state, 203000)
    assert state.new_refvals == {} and state.nbits_of_new_refval == 0
    try:
        run_op(state, 204000)
    except IndexError:
        pass
    else:
        raise AssertionError('no error')
    descriptors, values = run_op(state, 205002, get_bit_reader(b'ab'))
    assert [d.id for d in descriptors] == [205002] and values == [b'ab']

    # H. what the compiler records
    def describe(statements):
        ret = []
        for s in statements:
            if type(s) is Loop:
                ret.append(['LOOP', s.repeat if not isinstance(s.repeat, MethodCall) else s.repeat.method_name,
                            describe(s.statements)])
            elif type(s) is State031031Reset:
                ret.append('RESET')
            elif type(s) is State031031Increment:
                ret.append('INCR')
            else:
                assert type(s) in (StateMethodCall, CoderMethodCall)
                ret.append(('state.' if type(s) is StateMethodCall else 'coder.') + s.method_name)
        return ret

    def compiled(ids):
        decoder_ = Decoder()
        bits = [0] * ids.count(31031)
        # not wired: 225255 without 008024 cannot be
        bufr_message = decoder_.process(Encoder().process(json.dumps(message(
            ids, [values_for(ids, bits)], False)), wire_template_data=False).serialized_bytes,
            wire_template_data=False)
        template, table_group = bufr_message.build_template(decoder_.tables_root_dir, normalize=1)
        return describe(TemplateCompiler().process(template, table_group).statements)

    bitmap_for_reuse = [
        'coder.process_numeric',
        # 222000
        'state.mark_back_reference_boundary', 'coder.process_constant',
        # 236000
        'RESET', 'coder.process_constant',
        # 101001 031031
        'RESET', ['LOOP', 1, ['INCR', 'coder.process_codeflag']],
        # 033007
        'coder.define_bitmap', 'state.add_bitmap_link', 'coder.process_numeric',
    ]
    assert compiled([1001, 222000, 236000, 101001, 31031, 33007,
                     224000, 237000, 8023, 224255, 237255, 235000]) == bitmap_for_reuse + [
        # 224000
        'state.mark_back_reference_boundary', 'coder.process_constant',
        # 237000
        'state.recall_bitmap', 'coder.process_constant',
        # 008023, 224255
        'coder.process_codeflag', 'coder.process_bitmapped_descriptor',
        # 237255 after a bitmap for reuse, 235000
        'state.cancel_bitmap', 'coder.process_constant',
        'state.cancel_all_back_references',
    ]
    for code in (223, 225, 232):
        assert compiled([1001, 222000, 236000, 101001, 31031, 33007,
                         code * 1000, 101001, 31031, code * 1000 + 255, 237255, 235000, 237255]) == bitmap_for_reuse + [
            # x000
            'state.mark_back_reference_boundary', 'coder.process_constant',
            # 101001 031031
            'RESET', ['LOOP', 1, ['INCR', 'coder.process_codeflag']],
            # x255: the bitmap is defined when the first descriptor that is not 031031 is met
            'coder.define_bitmap', 'coder.process_bitmapped_descriptor',
            # 237255 after a bitmap that is not for reuse, 235000, 237255
            'state.cancel_bitmap', 'coder.process_constant',
            'state.cancel_all_back_references',
            'state.cancel_bitmap', 'coder.process_constant',
        ]

    print('demo 6 OK: %d template data checked' % n_checked[0])


if __name__ == '__main__':
    main()
