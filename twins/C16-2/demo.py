import os, sys; sys.path.insert(0, os.getcwd())
import json
import random

from pybufrkit.decoder import Decoder
from pybufrkit.encoder import Encoder
from pybufrkit.renderer import NestedJsonRenderer, FlatJsonRenderer
from pybufrkit.dataquery import (NodePathParser, DataQuerent, QueryResult, PathComponent,
                                 PATH_SEPARATOR_CHILD, PATH_SEPARATOR_ATTRIB, PATH_SEPARATOR_DESCEND)
from pybufrkit.templatedata import (ValueDataNode, NoValueDataNode, SequenceNode,
                                    FixedReplicationNode, DelayedReplicationNode)
from pybufrkit.errors import QueryError, PathExprParsingError
from pybufrkit.utils import EntityEncoder

DATA = os.path.join('tests', 'data')
QUERENT = DataQuerent(NodePathParser())


def load(name, **decoder_kwargs):
    with open(os.path.join(DATA, name), 'rb') as ins:
        return Decoder(**decoder_kwargs).process(ins.read())


def nested_json(message):
    return NestedJsonRenderer()._render_template_data(message.template_data.value)


def raises(exc_type, func, *args, **kwargs):
    try:
        func(*args, **kwargs)
    except exc_type as e:
        # exact type, not a subclass
        return type(e) is exc_type
    except Exception:
        return False
    return False


# --------------------------------------------------------------------------
# Independent oracle: evaluates a path of child (/) and attribute (.) steps
# over the nested JSON rendering of the message. It never touches the node
# tree nor any DataQuerent method.
# --------------------------------------------------------------------------
class OracleError(Exception):
    pass


def is_replication(j):
    return j['id'][0] == '1' and 'members' in j


def pick(candidates, id_, slc):
    entries = [e for e in enumerate(candidates) if e[1]['id'] == id_]
    if isinstance(slc, int):
        return entries[slc:slc + 1]
    return sorted(entries[slc], key=lambda e: e[0])  # document order


def evaluate(j, comps):
    sep, id_, slc = comps[0]
    if sep == '/':
        if 'members' not in j:
            raise OracleError('no child nodes')
        if is_replication(j):
            blocks = j['members']  # one list per repetition
            if not blocks:
                return []
            # (rebased: every repetition is matched on its own since the fix on HEAD, the
            # positions are no longer those matched in the first repetition)
            envelope = []
            for block in blocks:
                picked = [n for _, n in pick(block, id_, slc)]
                r = proceed(picked, comps) if picked else []
                if r:
                    envelope.append(r)
            return [envelope] if envelope else []  # one envelope per replication
        return proceed([n for _, n in pick(j['members'], id_, slc)], comps)
    if 'factor' not in j and 'attributes' not in j:
        raise OracleError('no attribute nodes')
    candidates = ([j['factor']] if 'factor' in j else []) + j.get('attributes', [])
    return proceed([n for _, n in pick(candidates, id_, slc)], comps)


def proceed(jnodes, comps):
    if len(comps) == 1:
        return jnodes
    out = []
    for n in jnodes:
        out += evaluate(n, comps[1:])
    return out


def to_values(x):
    out = []
    for e in x:
        if isinstance(e, list):
            out.append(to_values(e))
        elif 'value' in e:
            out.append(e['value'])
        else:
            raise OracleError('valueless')
    return out


def oracle(nested_subsets, comps, subset_indices):
    return [to_values(evaluate({'id': 'TEMPLATE', 'members': nested_subsets[i]}, comps))
            for i in subset_indices]


def slice_text(slc):
    if isinstance(slc, int):
        return '[{}]'.format(slc)
    if slc == slice(None):
        return ''
    return '[{}:{}:{}]'.format(*['' if v is None else v for v in (slc.start, slc.stop, slc.step)])


def expr_of(comps, subset=''):
    return subset + ''.join(sep + id_ + slice_text(slc) for sep, id_, slc in comps)


def as_parsed(slc):
    # a written negative index means "that one from the end"
    if isinstance(slc, int) and slc < 0:
        return slice(slc, slc + 1 if slc != -1 else None, None)
    return slc


def enumerate_paths(nested_subsets, max_depth=6):
    """All distinct chains of (separator, id), ending at a node with a value."""
    found = set()

    def walk(j, prefix):
        if len(prefix) >= max_depth:
            return
        kids = []
        if 'members' in j:
            members = j['members']
            if is_replication(j):
                members = [n for block in members for n in block]
            kids += [('/', n) for n in members]
        if 'factor' in j:
            kids.append(('.', j['factor']))
        kids += [('.', n) for n in j.get('attributes', [])]
        for sep, n in kids:
            p = prefix + ((sep, n['id']),)
            if 'value' in n:
                found.add(p)
            walk(n, p)

    for subset in nested_subsets:
        walk({'id': 'TEMPLATE', 'members': subset}, ())
    return sorted(found)


SLICES = [slice(None), 0, 1, 2, -1, -2, 7, slice(1, None, None), slice(None, None, 2),
          slice(None, None, -1), slice(-2, None, None), slice(0, 5, 3), slice(3, 1, -1), slice(5, 2, None)]


def sweep(name, rnd, n_variants=4, selectors=('', '@[-1]', '@[::3]', '@[1:2]'), message=None, nested=None):
    """Compare DataQuerent with the oracle for every path of the message, with
    bare IDs and with random slices at every step. Return (n_queries, n_errors)."""
    message = message or load(name)
    nested = nested or nested_json(message)
    n_subsets = message.n_subsets.value
    every = list(range(n_subsets))
    picks = {'': every, '@[-1]': every[-1:], '@[::3]': every[::3], '@[1:2]': every[1:2]}
    n_queries = n_errors = 0
    for path in enumerate_paths(nested[:3] + nested[-1:]):
        variants = [[(s, i, slice(None)) for s, i in path]]
        for _ in range(n_variants):
            variants.append([(s, i, rnd.choice(SLICES)) for s, i in path])
        for comps in variants:
            parsed = [(s, i, as_parsed(c)) for s, i, c in comps]
            for selector in selectors:
                if n_subsets > 8 and selector == '':
                    continue  # keep the demo quick
                expr = expr_of(comps, selector)
                try:
                    expected = oracle(nested, parsed, picks[selector])
                except OracleError:
                    assert raises(QueryError, QUERENT.query, message, expr), expr
                    n_errors += 1
                    continue
                result = QUERENT.query(message, expr)
                assert result.subset_indices() == picks[selector], (name, expr)
                assert result.all_values() == expected, (name, expr)
                n_queries += 1
    return n_queries, n_errors


# --------------------------------------------------------------------------
# Tiny hand-made node trees for calling the filter methods directly
# --------------------------------------------------------------------------
class FakeDescriptor(object):
    def __init__(self, id_, n_members=None):
        self.id_ = id_
        if n_members is not None:
            self.n_members = n_members

    def __str__(self):
        return self.id_


_index_counter = [0]


def V(id_, attributes=None):
    node = ValueDataNode(FakeDescriptor(id_), _index_counter[0])
    _index_counter[0] += 1
    for a in attributes or []:
        node.add_attribute(a)
    return node


def S(id_, members):
    node = SequenceNode(FakeDescriptor(id_))
    node.members = members
    return node


def R(id_, n_members, members):
    node = FixedReplicationNode(FakeDescriptor(id_, n_members))
    node.members = members
    return node


def D(id_, n_members, factor, members):
    node = DelayedReplicationNode(FakeDescriptor(id_, n_members))
    node.factor = factor
    node.members = members
    return node


def PC(sep, id_, slc=slice(None)):
    return PathComponent(sep, id_, slc)


def ids(nested_nodes):
    return [ids(n) if isinstance(n, list) else str(n.descriptor) for n in nested_nodes]


# ==========================================================================
# Demo 2 - filter_for_child_sub_nodes (replication envelopes)
# ==========================================================================
def main():
    q = QUERENT

    def child(node, *comps):
        return ids(q.filter_for_child_sub_nodes(node, list(comps)))

    # ---- fixed replication, 3 repetitions of (A, B, A)
    rep = R('103003', 3, [n for _ in range(3) for n in (V('A'), V('B'), V('A'))])
    assert len(rep.members) == 9
    got = q.filter_for_child_sub_nodes(rep, [PC('/', 'A')])
    assert got == [[[rep.members[0], rep.members[2]], [rep.members[3], rep.members[5]],
                    [rep.members[6], rep.members[8]]]]
    assert child(rep, PC('/', 'A', 1)) == [[['A'], ['A'], ['A']]]
    assert q.filter_for_child_sub_nodes(rep, [PC('/', 'A', 1)])[0][2] == [rep.members[8]]
    assert child(rep, PC('/', 'B', slice(None, None, -1))) == [[['B'], ['B'], ['B']]]
    assert child(rep, PC('/', 'A', 2)) == []        # no third A in a block
    assert child(rep, PC('/', 'Q')) == []           # nothing matches
    assert child(rep, PC('/', 'A', slice(5, 9))) == []
    # a further step that fails everywhere gives no envelope at all
    assert raises(QueryError, q.filter_for_child_sub_nodes, rep, [PC('/', 'A'), PC('/', 'X')])
    assert raises(QueryError, q.filter_for_child_sub_nodes, rep, [PC('/', 'A'), PC('.', 'X')])

    # ---- delayed replication: zero count, factor is not a child
    factor = V('031001')
    empty = D('102000', 2, factor, [])
    assert child(empty, PC('/', 'A')) == []
    assert child(empty, PC('/', '031001')) == []
    assert child(empty, PC('>', 'A')) == []
    assert child(empty, PC('/', 'A'), PC('/', 'B')) == []
    one = D('102000', 2, V('031001'), [V('A'), V('B')])
    assert child(one, PC('/', 'B')) == [[['B']]]
    assert child(one, PC('/', '031001')) == []

    # ---- nesting: replication of (sequence(A, attr), delayed replication of (C))
    def block(n_inner):
        return [S('300002', [V('A', attributes=[V('QA')]), V('B')]),
                D('101000', 1, V('031001'), [V('C') for _ in range(n_inner)])]

    outer = R('102003', 2, block(2) + block(0) + block(1))
    assert child(outer, PC('/', '300002'), PC('/', 'A')) == [[['A'], ['A'], ['A']]]
    assert child(outer, PC('/', '300002'), PC('/', 'A'), PC('.', 'QA')) == [[['QA'], ['QA'], ['QA']]]
    # the empty inner replication of the second block leaves no trace
    assert child(outer, PC('/', '101000'), PC('/', 'C')) == [[[[['C'], ['C']]], [[['C']]]]]
    assert child(outer, PC('/', '101000'), PC('.', '031001')) == [[['031001'], ['031001'], ['031001']]]
    assert child(outer, PC('/', '101000', 1), PC('/', 'C')) == []
    assert child(outer, PC('/', '101000', 0), PC('/', 'C', 0)) == [[[[['C'], ['C']]], [[['C']]]]]
    # descendant component inside replications
    assert child(outer, PC('>', 'C')) == [[[[['C'], ['C']]], [[['C']]]]]
    assert child(outer, PC('>', 'A')) == [[['A'], ['A'], ['A']]]
    assert child(outer, PC('>', 'QA')) == [[['QA'], ['QA'], ['QA']]]
    assert child(outer, PC('>', 'Q')) == []

    # ---- ordinary (non replication) parents
    seq = S('300003', [V('A'), outer, V('A'), V('B')])
    assert child(seq, PC('/', 'A')) == ['A', 'A']
    assert child(seq, PC('/', 'A', 1)) == ['A']
    got = q.filter_for_child_sub_nodes(seq, [PC('/', 'A', 1)])
    assert got == [seq.members[2]]
    assert child(seq, PC('/', 'Q')) == []
    assert child(seq, PC('/', 'Q'), PC('/', 'R')) == []
    assert child(seq, PC('/', '102003'), PC('/', '300002'), PC('/', 'B')) == [[['B'], ['B'], ['B']]]
    assert child(seq, PC('>', 'B')) == [[['B'], ['B'], ['B']], 'B']
    assert child(S('300004', []), PC('/', 'A')) == []

    # ---- error cases
    assert raises(QueryError, q.filter_for_child_sub_nodes, V('A'), [PC('/', 'B')])
    assert raises(QueryError, q.filter_for_child_sub_nodes, factor, [PC('>', 'B')])
    assert raises(QueryError, q.filter_for_child_sub_nodes, seq, [PC('/', 'A'), PC('/', 'B')])
    assert raises(IndexError, q.filter_for_child_sub_nodes, seq, [])
    assert raises(IndexError, q.filter_for_child_sub_nodes, rep, [])
    assert raises(IndexError, q.filter_for_child_sub_nodes, empty, [])
    assert raises(QueryError, q.filter_for_child_sub_nodes, V('A'), [])  # the members check comes first
    # degenerate hand-made replications
    # (rebased: since "fix: a child step below a replication is matched in every repetition" there is no
    # matching on the first block any more: blocks of zero members are a ValueError of range() and a
    # ragged last block is matched on what it has)
    assert raises(ValueError, q.filter_for_child_sub_nodes, R('100000', 0, [V('A')]), [PC('/', 'A')])
    assert child(R('100000', -1, [V('A'), V('A')]), PC('/', 'A')) == []
    assert child(R('102002', 2, [V('B'), V('A'), V('B')]), PC('/', 'A')) == [[['A']]]   # ragged last block
    assert child(R('102002', 2, [V('B'), V('A'), V('B')]), PC('/', 'B')) == [[['B'], ['B']]]
    # repetitions that do not carry the same descriptors are matched one by one
    assert child(R('102002', 2, [V('A'), V('B'), V('B'), V('A'), V('C'), V('C')]), PC('/', 'A')) == [[['A'], ['A']]]
    no_n_members = R('101000', None, [V('A')])
    assert raises(AttributeError, q.filter_for_child_sub_nodes, no_n_members, [PC('/', 'A')])
    no_n_members.members = []
    assert child(no_n_members, PC('/', 'A')) == []   # emptiness is checked before n_members is needed

    # ---- whole messages with (nested, delayed, zero-count) replications against the oracle
    rnd = random.Random(1602)
    total = errors = 0
    for name in ('contrived.bufr', 'ISMD01_OKPR.bufr', '207003.bufr', 'mpco_217.bufr', 'rado_250.bufr',
                 'asr3_190.bufr', 'IUSK73_AMMC_182300.bufr', 'uegabe.bufr', 'profiler_european.bufr'):
        n, e = sweep(name, rnd, n_variants=4)
        total += n
        errors += e
    assert total > 3000 and errors > 0, (total, errors)

    # ---- literal expectations: envelopes mirror the replications traversed
    m = load('contrived.bufr')
    assert q.query(m, '/105002/102000/020011').all_values() == [
        [[[[[2], [4]]], [[[6], [8], [10]]]]], [[[[[11], [9], [7]]], [[[5], [3]]]]]]
    assert q.query(m, '/105002/102000.031001').all_values() == [[[[2], [3]]], [[[3], [2]]]]
    assert q.query(m, '/105002/008002').all_values() == [[[[21], [22]]], [[[22], [21]]]]
    assert q.query(m, '@[1]/105002/102000/020011[-1]').all_values() == [[[[[[11], [9], [7]]], [[[5], [3]]]]]]
    assert q.query(m, '/105002/102000[1]/020011').all_values() == [[], []]
    # zero-count delayed replications in real data: no envelope, the factor stays reachable
    m = load('IUSK73_AMMC_182300.bufr')
    assert q.query(m, '/309052/101000.031002').all_values() == [[127]]
    assert q.query(m, '/309052/101000.031001').all_values() == [[0]]
    assert q.query(m, '/309052/101000[1].031001').all_values() == [[0]]
    assert q.query(m, '/309052/101000[1]/303051').all_values() == [[]]      # not even "valueless"
    assert q.query(m, '/309052/101000[1]/303051/007004').all_values() == [[]]
    assert q.query(m, '/309052/101000[1:]/303051/007004').all_values() == [[]]
    assert raises(QueryError, q.query, m, '/309052/101000[0]/303054')       # valueless node
    values = q.query(m, '/309052/101000/303054/007004').all_values()
    assert len(values[0]) == 1 and len(values[0][0]) == 127 and values[0][0][0] == [100000.0]
    m = load('uegabe.bufr')
    assert q.query(m, '/101000.031001').all_values() == [[0]]
    assert q.query(m, '/101000/303051/007004').all_values() == [[]]
    print('demo 2 ok: {} queries agree with the oracle, {} expected QueryErrors'.format(total, errors))


if __name__ == '__main__':
    main()
