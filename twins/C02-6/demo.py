import os, sys; sys.path.insert(0, os.getcwd())
"""
Differential demonstration for refactor 6 (the encoder takes its next value(s) through two
methods of CoderState instead of open coded index arithmetic / a private Encoder method).

Every element writer of the encoder that fetches values is driven, uncompressed and compressed,
through the plain template walker and through the compiled template:

  uncompressed: process_numeric_uncompressed   (plain, with a 203YYY reference value, marker 223255)
                process_string_uncompressed    (element, 205YYY operator, missing, too long, too short)
                process_codeflag_uncompressed  (code table, associated field 204YYY, skipped local 206YYY,
                                                bitmap bits)
                process_new_refval_uncompressed(positive and negative, missing -> AssertionError)
                process_constant_uncompressed  (not touched, but on the path: 222000, 236000, 223000, 237000)
  compressed:   numeric / string / codeflag columns: all missing, all equal, different, different with
                missing entries next to equal ones
                process_new_refval_compressed  (identical; different -> AssertionError; missing -> AssertionError)
                process_constant_compressed    (zero; non zero -> AssertionError)
  errors:       a subset that is too short -> IndexError (both layouts), no subset at all with compression
                -> IndexError

Expected bytes come from the bit assembler below, which has its own description of the template as a
flat list of fields and shares nothing with pybufrkit.  The list of descriptors recorded for each
subset (the other thing the moved code does) is compared with a hand written list.
"""
import random
from decimal import Decimal, ROUND_HALF_EVEN

from pybufrkit.encoder import Encoder

# ----------------------------------------------------------------------------
# The template and its hand made description
# ----------------------------------------------------------------------------
DESCRIPTORS = [1001, 1015, 205004, 2001,
               203012, 12001, 203255, 12001, 203000, 12001,
               204003, 31021, 1002, 204000,
               206005, 48001,
               5001, 20003,
               222000, 236000, 101002, 31031, 1031, 1032, 33007,
               223000, 237000, 223255]

IDX_NEW_REFVAL = 4
IDX_BITMAP = (15, 16)
IDX_CONSTANTS = (13, 14, 20, 21)

# ids of the descriptors that the encoder records, one per value; the last one is the marker 223255,
# recorded under the id of the element it stands for (see recorded_ids below)
RECORDED_IDS = [1001, 1015, 205004, 2001,
                12001, 12001, 12001,
                31021, 1002, 1002,
                48001,
                5001, 20003,
                222000, 236000, 31031, 31031, 1031, 1032, 33007,
                223000, 237000, None]


def recorded_ids(values):
    bitmap = [values[i] for i in IDX_BITMAP]
    return RECORDED_IDS[:-1] + [5001 if bitmap == [0, 1] else 20003]


N_VALUES = len(RECORDED_IDS)


def layout(values):
    """The fields of one subset, in order: one spec per value."""
    new_refval = values[IDX_NEW_REFVAL]
    bitmap = [values[i] for i in IDX_BITMAP]
    assert sorted(bitmap) == [0, 1]
    # a zero bit selects the element: 005001 for [0, 1], 020003 for [1, 0]
    marker = ('num', 25, 5, -9000000) if bitmap == [0, 1] else ('code', 9)
    return [
        ('num', 7, 0, 0),  # 001001
        ('str', 20),  # 001015
        ('str', 4),  # 205004
        ('code', 2),  # 002001
        ('refval', 12),  # 203012 012001
        ('num', 12, 1, new_refval),  # 012001 with the new reference value
        ('num', 12, 1, 0),  # 012001 after 203000
        ('code', 6),  # 031021
        ('code', 3),  # associated field of 001002
        ('num', 10, 0, 0),  # 001002
        ('code', 5),  # 206005 048001
        ('num', 25, 5, -9000000),  # 005001
        ('code', 9),  # 020003
        ('const',), ('const',),  # 222000 236000
        ('code', 1), ('code', 1),  # 031031 x 2
        ('code', 16),  # 001031
        ('num', 8, 0, 0),  # 001032
        ('num', 7, 0, 0),  # 033007
        ('const',), ('const',),  # 223000 237000
        marker,  # 223255
    ]


class Bits(object):
    def __init__(self):
        self.s = ''

    def uint(self, value, nbits):
        assert 0 <= value < (1 << nbits), (value, nbits)
        if nbits:
            self.s += format(value, 'b').zfill(nbits)

    def octets(self, bs):
        for c in bytearray(bs):
            self.uint(c, 8)

    def pad_to(self, unit):
        self.s += '0' * (-len(self.s) % unit)

    def to_bytes(self):
        assert len(self.s) % 8 == 0
        return bytes(bytearray(int(self.s[i:i + 8], 2) for i in range(0, len(self.s), 8)))


def raw(spec, value):
    """The unsigned integer to write for a numeric / code field, None for missing."""
    if value is None:
        return None
    if spec[0] == 'num':
        _, nbits, scale, ref = spec
        scaled = (Decimal(repr(value)) * 10 ** scale).to_integral_value(ROUND_HALF_EVEN)
        return int(scaled) - ref
    return value


def text(value, nbytes):
    if value is None:
        return b'\xff' * nbytes
    return value.encode('latin-1')[:nbytes].ljust(nbytes, b' ')


def sign_magnitude(b, value, nbits):
    b.uint(1 if value < 0 else 0, 1)
    b.uint(abs(value), nbits - 1)


def data_uncompressed(subsets):
    b = Bits()
    for values in subsets:
        for spec, value in zip(layout(values), values):
            kind = spec[0]
            if kind in ('num', 'code'):
                r = raw(spec, value)
                b.uint((1 << spec[1]) - 1 if r is None else r, spec[1])
            elif kind == 'str':
                b.octets(text(value, spec[1]))
            elif kind == 'refval':
                sign_magnitude(b, value, spec[1])
    return b.s


def data_compressed(subsets):
    b = Bits()
    specs = layout(subsets[0])
    for i, spec in enumerate(specs):
        kind = spec[0]
        column = [values[i] for values in subsets]
        if kind in ('num', 'code'):
            nbits = spec[1]
            column = [raw(spec, v) for v in column]
            present = [v for v in column if v is not None]
            if not present:
                b.uint((1 << nbits) - 1, nbits)
                b.uint(0, 6)
            elif len(set(column)) == 1:
                b.uint(column[0], nbits)
                b.uint(0, 6)
            else:
                lo, hi = min(present), max(present)
                # pybufrkit's convention for the width: the largest difference plus one
                # must still be smaller than the all ones pattern reserved for missing
                width = 1
                while (1 << width) - 1 <= hi - lo + 1:
                    width += 1
                b.uint(lo, nbits)
                b.uint(width, 6)
                for v in column:
                    b.uint((1 << width) - 1 if v is None else v - lo, width)
        elif kind == 'str':
            nbytes = spec[1]
            if all(v is None for v in column):
                b.octets(b'\xff' * nbytes)
                b.uint(0, 6)
            elif len(set(column)) == 1:
                b.octets(text(column[0], nbytes))
                b.uint(0, 6)
            else:
                b.octets(b'\0' * nbytes)
                b.uint(nbytes, 6)
                for v in column:
                    b.octets(text(v, nbytes))
        elif kind == 'refval':
            assert len(set(column)) == 1
            sign_magnitude(b, column[0], spec[1])
            b.uint(0, 6)
    return b.s


def message(edition, subsets, compressed, n_subsets=None):
    n_subsets = len(subsets) if n_subsets is None else n_subsets
    if edition == 4:
        s1 = [0, 0, 98, 0, 0, False, '0000000', 2, 4, 5, 25, 0, 2021, 6, 7, 8, 9, 10]
        s1_fields = [(0, 8), (98, 16), (0, 16), (0, 8), (0, 8), (2, 8), (4, 8), (5, 8),
                     (25, 8), (0, 8), (2021, 16), (6, 8), (7, 8), (8, 8), (9, 8), (10, 8)]
    else:
        s1 = [0, 0, 0, 98, 0, False, '0000000', 2, 5, 25, 0, 21, 6, 7, 8, 9, 10]
        s1_fields = [(0, 8), (0, 8), (98, 8), (0, 8), (0, 8), (2, 8), (5, 8),
                     (25, 8), (0, 8), (21, 8), (6, 8), (7, 8), (8, 8), (9, 8), (10, 8)]
    js = [['BUFR', 0, edition], s1,
          [0, '00000000', n_subsets, True, compressed, '000000', list(DESCRIPTORS)],
          [0, '00000000', [list(v) for v in subsets]],
          ['7777']]
    return js, s1_fields


def expected_bytes(edition, subsets, compressed):
    _, s1_fields = message(edition, subsets, compressed)
    unit = 16 if edition <= 3 else 8

    def section(body):
        body.pad_to(8)
        while (24 + len(body.s)) % unit:
            body.s += '0'
        b = Bits()
        b.uint((24 + len(body.s)) // 8, 24)
        return b.s + body.s

    s1 = Bits()
    for value, nbits in s1_fields:
        s1.uint(value, nbits)
    s3 = Bits()
    s3.uint(0, 8)
    s3.uint(len(subsets), 16)
    s3.uint(1, 1)
    s3.uint(int(compressed), 1)
    s3.uint(0, 6)
    for d in DESCRIPTORS:
        s3.uint(d // 100000, 2)
        s3.uint(d // 1000 % 100, 6)
        s3.uint(d % 1000, 8)
    s4 = Bits()
    s4.uint(0, 8)
    s4.s += (data_compressed if compressed else data_uncompressed)(subsets)
    body = section(s1) + section(s3) + section(s4)
    b = Bits()
    b.octets(b'BUFR')
    b.uint(8 + len(body) // 8 + 4, 24)
    b.uint(edition, 8)
    b.s += body
    b.octets(b'7777')
    return b.to_bytes()


# ----------------------------------------------------------------------------
# Value generation
# ----------------------------------------------------------------------------
NAMES = ['', 'A', 'OSLO', 'SHORT NAME', 'EXACTLY TWENTY CHARS', 'MORE THAN TWENTY CHARACTERS IN HERE', u'K\xf8benhavn', None]
TAGS = ['', 'ab', 'abcd', 'abcdefgh', None]


def maybe(rnd, p_missing, value):
    return None if rnd.random() < p_missing else value


def random_subset(rnd, p_missing, new_refval, bitmap):
    marker_numeric = bitmap == [0, 1]
    v = [
        maybe(rnd, p_missing, rnd.randint(0, 126)),
        rnd.choice(NAMES) if rnd.random() >= p_missing else None,
        rnd.choice(TAGS) if rnd.random() >= p_missing else None,
        maybe(rnd, p_missing, rnd.randint(0, 2)),
        new_refval,
        # raw = value * 10 - new_refval must be within 0 .. 4094
        maybe(rnd, p_missing, (new_refval + rnd.randint(0, 4094)) / 10.0),
        maybe(rnd, p_missing, rnd.randint(0, 4094) / 10.0),
        maybe(rnd, p_missing, rnd.randint(0, 62)),
        maybe(rnd, p_missing, rnd.randint(0, 6)),
        maybe(rnd, p_missing, rnd.randint(0, 1022)),
        maybe(rnd, p_missing, rnd.randint(0, 30)),
        maybe(rnd, p_missing, rnd.randint(-9000000, 9000000) / 100000.0),
        maybe(rnd, p_missing, rnd.randint(0, 510)),
        0, 0,
        bitmap[0], bitmap[1],
        maybe(rnd, p_missing, rnd.randint(0, 65534)),
        maybe(rnd, p_missing, rnd.randint(0, 254)),
        maybe(rnd, p_missing, rnd.randint(0, 126)),
        0, 0,
        maybe(rnd, p_missing, rnd.randint(-9000000, 9000000) / 100000.0 if marker_numeric else rnd.randint(0, 510)),
    ]
    assert len(v) == N_VALUES
    return v


def distinct_raws(subsets):
    """
    For compression the encoder decides "all equal" on the given values and the assembler on the
    scaled integers; only keep columns where the two notions coincide (different floats that scale
    to the same integer are outside what this demo looks at).
    """
    specs = layout(subsets[0])
    for i, spec in enumerate(specs):
        if spec[0] != 'num':
            continue
        column = [values[i] for values in subsets]
        if len(set(column)) != len(set(raw(spec, v) for v in column)):
            return False
    return True


ENCODERS = [('walker', Encoder()), ('compiled', Encoder(compiled_template_cache_max=10))]
N_OK = 0
SEEN = set()


def check(label, edition, subsets, compressed):
    global N_OK
    js, _ = message(edition, subsets, compressed)
    expected = expected_bytes(edition, subsets, compressed)
    for name, encoder in ENCODERS:
        for wire in (False, True):
            m = encoder.process(js, wire_template_data=wire)
            got = m.serialized_bytes
            assert got == expected, '{} ({}):\n got {}\n exp {}'.format(label, name, got.hex(), expected.hex())
            td = m.template_data.value
            assert len(td.decoded_descriptors_all_subsets) == len(subsets)
            for recorded, values in zip(td.decoded_descriptors_all_subsets, subsets):
                assert [d.id for d in recorded] == recorded_ids(values), (label, name, [d.id for d in recorded])
                assert recorded[-1].marker_id == 223255
            assert td.decoded_values_all_subsets == [list(v) for v in subsets], (label, name)
            N_OK += 1


def note_columns(subsets):
    """Which kinds of compressed columns have been visited."""
    specs = layout(subsets[0])
    for i, spec in enumerate(specs):
        column = [values[i] for values in subsets]
        if all(v is None for v in column):
            status = 'all missing'
        elif len(set(column)) == 1:
            status = 'all equal'
        elif None in column and len(set(column)) < len(column):
            status = 'different, missing next to equal'
        elif None in column:
            status = 'different with missing'
        else:
            status = 'different'
        SEEN.add((spec[0], status))


rnd = random.Random(20260929)
for edition in (3, 4):
    for n_subsets in (1, 2, 3, 5):
        for p_missing in (0.0, 0.3, 0.7, 1.0):
            for trial in range(10):
                new_refval = rnd.choice([-2047, -100, -1, 0, 1, 250, 2047])
                # uncompressed: bitmap varies per subset
                subsets = [random_subset(rnd, p_missing, rnd.choice([-2047, -5, 0, 7, 2047]),
                                         rnd.choice([[0, 1], [1, 0]])) for _ in range(n_subsets)]
                check('uncompressed', edition, subsets, False)

                # compressed: new reference value and bitmap shared, values drawn from a small pool
                # so that equal, different and missing entries meet in one column
                bitmap = rnd.choice([[0, 1], [1, 0]])
                pool = [random_subset(rnd, p_missing, new_refval, bitmap) for _ in range(2)]
                while True:
                    subsets = []
                    for _ in range(n_subsets):
                        mode = rnd.random()
                        if mode < 0.4:
                            subsets.append(list(rnd.choice(pool)))
                        else:  # column-wise mixture of the pool
                            subsets.append([rnd.choice(pool)[i] for i in range(N_VALUES)])
                    if distinct_raws(subsets):
                        break
                note_columns(subsets)
                check('compressed', edition, subsets, True)

for kind in ('num', 'code', 'str'):
    for status in ('all missing', 'all equal', 'different', 'different with missing',
                   'different, missing next to equal'):
        assert (kind, status) in SEEN, (kind, status)
assert ('refval', 'all equal') in SEEN and ('const', 'all equal') in SEEN

# ----------------------------------------------------------------------------
# Errors: same exception type (and text for the assertions) before and after
# ----------------------------------------------------------------------------
N_ERR = 0


def check_error(label, js, exc_type, text_=None):
    global N_ERR
    for name, encoder in ENCODERS:
        try:
            encoder.process(js)
        except Exception as e:
            assert type(e) is exc_type, '{} ({}): {!r} is not {}'.format(label, name, e, exc_type.__name__)
            if text_ is not None:
                assert str(e) == text_, '{} ({}): {!r} != {!r}'.format(label, name, str(e), text_)
            N_ERR += 1
        else:
            raise AssertionError('{} ({}): no error'.format(label, name))


rnd = random.Random(7)
base = [random_subset(rnd, 0.0, -100, [0, 1]) for _ in range(3)]
for compressed in (False, True):
    # a subset that ends early, at every position
    for cut in range(N_VALUES):
        for which in (0, 1, 2):
            subsets = [list(v) for v in base]
            subsets[which] = subsets[which][:cut]
            js, _ = message(4, subsets, compressed)
            check_error('short subset {} {} {}'.format(compressed, cut, which), js, IndexError)

    # missing new reference value
    subsets = [list(v) for v in base]
    for v in subsets:
        v[IDX_NEW_REFVAL] = None
    js, _ = message(4, subsets, compressed)
    check_error('missing new refval', js, AssertionError, '012001: New reference value cannot be missing')

    # a constant that is not zero
    for idx, name in zip(IDX_CONSTANTS, ('222000', '236000', '223000', '237000')):
        for value in (1, None):
            subsets = [list(v) for v in base]
            subsets[1][idx] = value
            js, _ = message(4, subsets, compressed)
            check_error('constant {} {}'.format(name, value), js, AssertionError,
                        '{}: Value for must be 0'.format(name) if compressed else
                        '{}: Value must be zero'.format(name))

# compressed only: new reference values that differ between the subsets
subsets = [list(v) for v in base]
subsets[2][IDX_NEW_REFVAL] = -99
js, _ = message(4, subsets, True)
check_error('different new refvals', js, AssertionError,
            '012001: New reference values must be identical for all subsets for compressed data')
# ... one of them missing
subsets = [list(v) for v in base]
subsets[0][IDX_NEW_REFVAL] = None
js, _ = message(4, subsets, True)
check_error('one new refval missing', js, AssertionError,
            '012001: New reference values must be identical for all subsets for compressed data')

# compressed, no subset at all: the column is empty
js, _ = message(4, [], True, n_subsets=0)
check_error('no subsets', js, IndexError)
# compressed, fewer value lists than n_subsets says: never "all equal"
js, _ = message(4, [base[0], base[0]], True, n_subsets=3)
check_error('n_subsets larger than the number of value lists', js, AssertionError,
            '012001: New reference values must be identical for all subsets for compressed data')

assert N_OK >= 1000 and N_ERR >= 200, (N_OK, N_ERR)
print('refactor 6 demo: {} encodings byte-identical to the hand-assembled messages '
      '(descriptor records checked), {} errors of the predicted type and text'.format(N_OK, N_ERR))
