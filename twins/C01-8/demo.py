"""
Refactor 8 - differential demonstration.

Compressed messages are laid out by hand, column by column (minimum, six bits
of increment width, increments), by the small encoder below, which knows
nothing of pybufrkit; the labels and values FM-94 assigns to them are written
down next to the bits.  Every kind of column the decoder tells apart is there:
all missing, all equal, increments of one bit, of several bits, with and
without missing subsets, columns that must be rejected, columns cut short;
for numeric, code / flag, associated, skipped local, character, new reference
value and constant (operator) fields.  Decoded with the walking decoder and
with the one that runs compiled templates.  All compressed sample files and
the whole benchmark corpus are compared with digests recorded on the
unpatched tree.

Exit status 0 = everything as expected.
"""
import os, sys; sys.path.insert(0, os.getcwd())

import glob
import hashlib
import logging

# ---------------------------------------------------------------------------
# A tiny hand encoder of BUFR messages, independent of pybufrkit
# ---------------------------------------------------------------------------
from fractions import Fraction


def ubits(width, value):
    """`value` as an unsigned big endian bit string of `width` bits"""
    if width == 0:
        assert value == 0
        return ''
    assert 0 <= value < (1 << width), (width, value)
    return format(value, '0{}b'.format(width))


def pack(bits):
    bits += '0' * (-len(bits) % 8)
    return bytes(bytearray(int(bits[i:i + 8], 2) for i in range(0, len(bits), 8)))


def uint_bytes(nbytes, value):
    return pack(ubits(8 * nbytes, value))


class F(object):
    """
    One field of a subset: its label, how it is laid out and the value FM-94
    assigns to it.  kind: 'u' unsigned integer of `width` bits (raw None = all
    ones), 's' `width` octets of text, 'c' no bits at all (an operator that
    only shows up with a constant), 'r' sign and magnitude integer.
    """

    def __init__(self, label, kind, width, raw, value, literal=False):
        self.label, self.kind, self.width, self.raw, self.value = label, kind, width, raw, value
        # literal: when compressed, all ones are written as minimum + increment, not as a missing increment
        self.literal = literal

    def bits(self):
        if self.kind == 'c':
            return ''
        if self.kind == 's':
            assert len(self.raw) == self.width
            return ''.join(ubits(8, c) for c in bytearray(self.raw))
        if self.kind == 'r':
            return ('1' if self.raw < 0 else '0') + ubits(self.width - 1, abs(self.raw))
        return ubits(self.width, (1 << self.width) - 1 if self.raw is None else self.raw)


def num(label, width, scale, ref, raw):
    """Numeric element: (raw + ref) / 10 ** scale; all ones (width > 1) is missing"""
    if raw is None or (width > 1 and raw == (1 << width) - 1):
        return F(label, 'u', width, raw, None)
    if scale == 0:
        return F(label, 'u', width, raw, raw + ref)
    return F(label, 'u', width, raw, float(Fraction(raw + ref) / Fraction(10) ** scale))


def code(label, width, raw):
    """Code / flag table, associated field, skipped local descriptor: the integer itself"""
    if raw is None or (width > 1 and raw == (1 << width) - 1):
        return F(label, 'u', width, raw, None)
    return F(label, 'u', width, raw, raw)


def const(label):
    return F(label, 'c', 0, None, 0)


def text(label, nbytes, raw):
    return F(label, 's', nbytes, raw, raw)


def refval(label, width, raw):
    return F(label, 'r', width, raw, raw)


def uncompressed_data(subsets):
    return ''.join(f.bits() for fields in subsets for f in fields)


def compressed_data(subsets, widths=None, overrides=None):
    """
    Column by column: minimum, six bits of increment width, one increment per
    subset.  `widths` can force the increment width of a column (by index),
    `overrides` gives the bits of a column as they are.
    """
    widths = widths or {}
    overrides = overrides or {}
    out = []
    for idx, column in enumerate(zip(*subsets)):
        f = column[0]
        if idx in overrides:
            out.append(overrides[idx])
            continue
        assert all((g.label, g.kind, g.width) == (f.label, f.kind, f.width) for g in column)
        if f.kind == 'c':
            continue
        if f.kind == 'r':
            assert all(g.raw == f.raw for g in column)
            out.append(f.bits() + ubits(6, 0))
        elif f.kind == 's':
            if all(g.raw == f.raw for g in column) and idx not in widths:
                out.append(f.bits() + ubits(6, 0))
            else:
                # the minimum is sent as zero octets, the increments are the full texts
                out.append('0' * (8 * f.width) + ubits(6, f.width) + ''.join(g.bits() for g in column))
        else:
            allones = (1 << f.width) - 1
            raws = [None if (g.raw is None or (f.width > 1 and g.raw == allones and not g.literal)) else g.raw
                    for g in column]
            present = [r for r in raws if r is not None]
            if not present:
                out.append(ubits(f.width, allones) + ubits(6, 0))
                continue
            low = min(present)
            span = max(present) - low
            if idx in widths:
                nbits = widths[idx]
            elif span == 0 and len(present) == len(raws):
                nbits = 0
            else:
                nbits = 1
                while span >= (1 << nbits) - 1:  # all ones is taken by "missing"
                    nbits += 1
            out.append(ubits(f.width, low) + ubits(6, nbits) + ''.join(
                ubits(nbits, (1 << nbits) - 1 if r is None else r - low) for r in raws))
    return ''.join(out)


def message(descriptors, n_subsets, compressed, data_bits, edition=4, tables_version=25):
    sec3 = b'\0' + uint_bytes(2, n_subsets) + uint_bytes(1, 0x80 | (0x40 if compressed else 0))
    sec3 += b''.join(pack(ubits(2, d // 100000) + ubits(6, d // 1000 % 100) + ubits(8, d % 1000))
                     for d in descriptors)
    sec4 = b'\0' + pack(data_bits)
    if edition == 4:
        sec1 = (b'\0' + uint_bytes(2, 1) + uint_bytes(2, 0) + b'\0' + b'\0' + b'\0\0\0' +
                uint_bytes(1, tables_version) + b'\0' + uint_bytes(2, 2020) + b'\x01\x01\0\0\0')
    else:
        assert edition == 3
        sec1 = (b'\0' + b'\0' + uint_bytes(1, 1) + b'\0' + b'\0' + b'\0\0' +
                uint_bytes(1, tables_version) + b'\0' + b'\x14\x01\x01\0\0' + b'\0')
        sec3 += b'\0' * ((len(sec3) + 3) % 2)
        sec4 += b'\0' * ((len(sec4) + 3) % 2)
    body = b''.join(uint_bytes(3, len(s) + 3) + s for s in (sec1, sec3, sec4))
    return b'BUFR' + uint_bytes(3, 8 + len(body) + 4) + uint_bytes(1, edition) + body + b'7777'


# ---------------------------------------------------------------------------
# The demonstration
# ---------------------------------------------------------------------------
logging.disable(logging.CRITICAL)

from pybufrkit.decoder import Decoder  # noqa: E402
from pybufrkit.errors import PyBufrKitError  # noqa: E402
import pybufrkit.decoder as decoder_module  # noqa: E402

assert os.path.dirname(os.path.abspath(decoder_module.__file__)) == os.path.join(os.getcwd(), 'pybufrkit'), \
    'not the worktree copy of pybufrkit'

failures = []
n_checks = [0]


def check(name, got, want):
    n_checks[0] += 1
    if got != want:
        failures.append(name)
        print('FAIL {}\n   got  {!r}\n   want {!r}'.format(name, got, want))


def outcome(func):
    try:
        return 'ok', func()
    except Exception as e:  # the type is what is compared
        return type(e).__name__, None


def decoders():
    return (('walk', Decoder()), ('compiled', Decoder(compiled_template_cache_max=8)),)


def typed(values):
    return [(type(v).__name__, v) for v in values]


def expect_ok(name, descriptors, subsets, compressed=True, widths=None, overrides=None, edition=4):
    data = compressed_data(subsets, widths, overrides) if compressed else uncompressed_data(subsets)
    s = message(descriptors, len(subsets), compressed, data, edition=edition)
    name = '{} [{} x {}, ed.{}]'.format(name, len(subsets), 'compressed' if compressed else 'uncompressed', edition)
    for how, decoder in decoders():
        for attempt in (1, 2):  # the second one runs the cached compiled template
            status, m = outcome(lambda: decoder.process(s))
            check('{} {} #{} decodes'.format(name, how, attempt), status, 'ok')
            if status != 'ok':
                continue
            td = m.template_data.value
            check('{} {} n_subsets'.format(name, how), len(td.decoded_values_all_subsets), len(subsets))
            for i, fields in enumerate(subsets):
                check('{} {} labels of subset {}'.format(name, how, i),
                      [str(d) for d in td.decoded_descriptors_all_subsets[i]], [f.label for f in fields])
                check('{} {} values of subset {}'.format(name, how, i),
                      typed(td.decoded_values_all_subsets[i]), typed(f.value for f in fields))


def expect_error(name, descriptors, subsets, error, widths=None, overrides=None, cut=None):
    s = message(descriptors, len(subsets), True, compressed_data(subsets, widths, overrides))
    if cut is not None:
        s = s[:cut]
    for how, decoder in decoders():
        status, _ = outcome(lambda: decoder.process(s))
        check('{} {} fails'.format(name, how), status, error)


def rows(*columns):
    """Columns (one list of fields per column) to subsets (one list of fields per subset)"""
    return [list(fields) for fields in zip(*columns)]


# Table B, version 25: label, width, scale, reference
T = ('012001', 12, 1, 0)       # temperature, K
LAT = ('005001', 25, 5, -9000000)
HOURS = ('004024', 12, 0, -2048)
BLOCK = ('001001', 7, 0, 0)
SHORT = ('031000', 1, 0, 0)    # numeric of one bit
CLOUD = ('020011', 4)          # code table
STATION_TYPE = ('002001', 2)   # code table
PRESENT = ('031031', 1)        # flag table of one bit
WEATHER = ('020003', 9)


def ncol(e, raws):
    return [num(e[0], e[1], e[2], e[3], r) for r in raws]


def ccol(e, raws, literal=False):
    return [F(e[0], 'u', e[1], r, None if (r is None or (e[1] > 1 and r == (1 << e[1]) - 1)) else r, literal)
            for r in raws]


# ---------------------------------------------------------------------------
# 1. numeric columns
# ---------------------------------------------------------------------------
for n in (1, 2, 5):
    def spread(*raws):
        return [raws[i % len(raws)] for i in range(n)]

    columns = [
        ncol(T, [None] * n),                    # all missing: minimum all ones, width 0
        ncol(T, [2731] * n),                    # all equal: width 0, scaled
        ncol(HOURS, [2048 - 24] * n),           # all equal, reference value: -24
        ncol(BLOCK, [0] * n),                   # all equal and zero
        ncol(LAT, [9000000 + 5212345] * n),     # all equal, scale 5
        ncol(SHORT, [1] * n),                   # one bit is never missing
    ]
    expect_ok('numeric, no increments', [12001, 12001, 4024, 1001, 5001, 31000], rows(*columns))
    expect_ok('numeric, no increments', [12001, 12001, 4024, 1001, 5001, 31000], rows(*columns), compressed=False)

    if n > 1:
        columns = [
            ncol(T, spread(2731, 2745, None, 2731, 2800)),         # several bits, some missing
            ncol(T, spread(2731, 2732)),                           # a span of one needs two bits
            ncol(HOURS, spread(0, 4094, 2048)),                    # 12 bit increments, -2048 .. 2046
            ncol(LAT, spread(0, 18000000, None)),                  # 25 bit increments
            ncol(T, spread(None, 100)),                            # one bit: zero = the minimum, one = missing
            ncol(BLOCK, spread(126, 0)),
            ncol(SHORT, spread(0, 1)),                             # one bit wide element, two bit increments
        ]
        descriptors = [12001, 12001, 4024, 5001, 12001, 1001, 31000]
        expect_ok('numeric, increments', descriptors, rows(*columns))
        expect_ok('numeric, increments', descriptors, rows(*columns), edition=3)
        expect_ok('numeric, increments', descriptors, rows(*columns), compressed=False)
        # wider than needed is legal, up to 63 bits
        expect_ok('numeric, wide increments', descriptors, rows(*columns),
                  widths={0: 12, 1: 3, 2: 13, 3: 63, 5: 7, 6: 5})
        # a one bit increment of one is missing whatever the element
        columns = [ncol(T, spread(500, None)), ncol(SHORT, [0] * n)]
        expect_ok('numeric, one bit increments', [12001, 31000], rows(*columns), widths={0: 1})
        check('numeric, one bit increments: laid out as meant',
              compressed_data(rows(*columns)),
              ubits(12, 500) + ubits(6, 1) + ''.join('01'[i % 2] for i in range(n)) + '0' + ubits(6, 0))

# ---------------------------------------------------------------------------
# 2. code and flag tables, associated fields (204), skipped local descriptors (206)
# ---------------------------------------------------------------------------
for n in (1, 2, 5):
    def spread(*raws):
        return [raws[i % len(raws)] for i in range(n)]

    columns = [ccol(CLOUD, [None] * n), ccol(CLOUD, [9] * n), ccol(PRESENT, [1] * n), ccol(PRESENT, [0] * n),
               ccol(WEATHER, [510] * n)]
    expect_ok('code, no increments', [20011, 20011, 31031, 31031, 20003], rows(*columns))
    expect_ok('code, no increments', [20011, 20011, 31031, 31031, 20003], rows(*columns), compressed=False)

    if n > 1:
        columns = [
            ccol(CLOUD, spread(3, 9, None, 0)),          # several bits, some missing
            ccol(CLOUD, spread(None, 14)),               # one bit
            ccol(STATION_TYPE, spread(0, 2, 1)),
            ccol(PRESENT, spread(0, 1)),                 # one bit wide, two bit increments, one is one
            ccol(WEATHER, spread(0, 510, None)),
            # minimum + increment = all ones: missing as well
            ccol(CLOUD, spread(13, 15, 14), literal=True),
            ccol(STATION_TYPE, spread(3, 2), literal=True),
        ]
        descriptors = [20011, 20011, 2001, 31031, 20003, 20011, 2001]
        expect_ok('code, increments', descriptors, rows(*columns))
        expect_ok('code, increments', descriptors, rows(*columns), edition=3)
        expect_ok('code, wide increments', descriptors, rows(*columns), widths={0: 6, 1: 1, 2: 4, 3: 9, 4: 10, 5: 5})
        check('code, increments: all ones sent as an increment',
              compressed_data(rows(ccol(STATION_TYPE, [3, 2], literal=True))), '10' + ubits(6, 2) + '01' + '00')

        # 204007 gives every element an associated field in front of it; 031021 has none
        descriptors = [204007, 31021, 12001, 20011, 204000, 12001]
        columns = [
            ccol(('031021', 6), [1] * n),
            ccol(('A12001', 7), spread(5, 126, None)), ncol(T, spread(2731, 2745, None)),
            ccol(('A20011', 7), [None] * n), ccol(CLOUD, spread(1, 2)),
            ncol(T, [2000] * n),
        ]
        expect_ok('associated fields', descriptors, rows(*columns))
        expect_ok('associated fields', descriptors, rows(*columns), compressed=False)
        # nested: the widths add up
        descriptors = [204002, 31021, 204003, 31021, 1001, 204000, 1001, 204000, 1001]
        columns = [
            ccol(('031021', 6), [1] * n), ccol(('031021', 6), [2] * n),
            ccol(('A01001', 5), spread(30, 0, None)), ncol(BLOCK, spread(7, None)),
            ccol(('A01001', 2), spread(0, 1, 2)), ncol(BLOCK, [8] * n),
            ncol(BLOCK, spread(9, 10)),
        ]
        expect_ok('associated fields, nested', descriptors, rows(*columns))

        # 206YYY: a local descriptor nobody knows is skipped as YYY bits
        descriptors = [1001, 206011, 63250, 206001, 63251, 206016, 1002, 1001]
        columns = [
            ncol(BLOCK, [1] * n),
            ccol(('S63250', 11), spread(0, 2046, None, 77)),
            ccol(('S63251', 1), spread(1, 0)),                   # one bit: two bit increments
            ccol(('S01002', 16), [None] * n),                    # a known one is skipped just the same
            ncol(BLOCK, spread(5, 6)),
        ]
        expect_ok('skipped local descriptors', descriptors, rows(*columns))
        expect_ok('skipped local descriptors', descriptors, rows(*columns), compressed=False)

# ---------------------------------------------------------------------------
# 3. character fields
# ---------------------------------------------------------------------------
for n in (1, 3):
    def spread(*raws):
        return [raws[i % len(raws)] for i in range(n)]

    descriptors = [1011, 205003, 208002, 1015, 208000, 1011]
    columns = [
        [text('001011', 9, b'SHIP     ')] * n,               # all equal: width 0
        [text('205003', 3, b'abc')] * n,
        [text('001015', 2, b'xy')] * n,                      # resized by 208002
        [text('001011', 9, b'\xff' * 9)] * n,                # "missing" text is returned as its octets
    ]
    expect_ok('text, no increments', descriptors, rows(*columns))
    expect_ok('text, no increments', descriptors, rows(*columns), compressed=False)
    if n > 1:
        columns = [
            [text('001011', 9, x) for x in spread(b'SHIP A   ', b'SHIP B   ', b'         ')],
            [text('205003', 3, x) for x in spread(b'abc', b'abd')],
            [text('001015', 2, x) for x in spread(b'xy', b'\xff\xff', b'zz')],
            [text('001011', 9, b'SAME SAME')] * n,           # equal, but sent with increments all the same
        ]
        expect_ok('text, increments', descriptors, rows(*columns), widths={3: 9})
        expect_ok('text, increments', descriptors, rows(*columns), compressed=False)

# ---------------------------------------------------------------------------
# 4. new reference values (203YYY) and operators that are kept as constants
# ---------------------------------------------------------------------------
for n in (1, 2, 4):
    def spread(*raws):
        return [raws[i % len(raws)] for i in range(n)]

    descriptors = [12001, 203012, 12001, 4024, 203255, 12001, 4024, 236000, 203000, 12001, 4024]
    columns = [
        ncol(T, spread(2731, 2732)),
        [refval('012001', 12, -1000)] * n, [refval('004024', 12, 2047)] * n,      # sign and magnitude
        [num('012001', 12, 1, -1000, r) for r in spread(0, 4094, None, 1000)],
        [num('004024', 12, 0, 2047, r) for r in spread(1, 1)],
        [const('236000')] * n,
        ncol(T, spread(2731, 2732)), ncol(HOURS, spread(2048, None)),             # 203000: Table B again
    ]
    expect_ok('new reference values', descriptors, rows(*columns))
    expect_ok('new reference values', descriptors, rows(*columns), compressed=False)
    # -0 is zero
    columns = [[refval('001001', 3, 0)] * n, ncol(BLOCK, spread(100, 3))]
    overrides = {0: '100' + ubits(6, 0)}
    expect_ok('new reference value of minus zero', [203003, 1001, 203255, 1001], rows(*columns), overrides=overrides)

# ---------------------------------------------------------------------------
# 5. columns that must be rejected, columns that are cut short
# ---------------------------------------------------------------------------
subsets = rows(ncol(BLOCK, [1, 2, 3]), ncol(T, [None] * 3), ncol(BLOCK, [4, 5, 6]))
expect_ok('control for the rejects', [1001, 12001, 1001], subsets)
expect_error('numeric: all ones minimum with increments', [1001, 12001, 1001], subsets, 'PyBufrKitError',
             overrides={1: ubits(12, 4095) + ubits(6, 2) + '000110'})
subsets = rows(ncol(BLOCK, [1, 2, 3]), ccol(CLOUD, [None] * 3), ncol(BLOCK, [4, 5, 6]))
expect_ok('control for the rejects', [1001, 20011, 1001], subsets)
expect_error('code: all ones minimum with increments', [1001, 20011, 1001], subsets, 'PyBufrKitError',
             overrides={1: ubits(4, 15) + ubits(6, 1) + '000'})
subsets = rows(ccol(('031021', 6), [1] * 3), ccol(('A01001', 3), [None] * 3), ncol(BLOCK, [4, 5, 6]))
expect_ok('control for the rejects', [204003, 31021, 1001], subsets)
expect_error('associated: all ones minimum with increments', [204003, 31021, 1001], subsets, 'PyBufrKitError',
             overrides={1: ubits(3, 7) + ubits(6, 3) + '000' * 3})
subsets = rows([refval('001001', 8, -5)] * 3, [num('001001', 7, 0, -5, r) for r in (5, 6, 7)])
expect_ok('control for the rejects', [203008, 1001, 203255, 1001], subsets)
expect_error('new reference values that differ', [203008, 1001, 203255, 1001], subsets, 'PyBufrKitError',
             overrides={0: '10000101' + ubits(6, 1) + '010'})

# Cut short: the message ends in the middle of the increments (no section 5 to read on into)
for name, descriptors, subsets in (
        ('numeric', [12001], rows(ncol(T, [1, 2000, None, 4000, 5, 6, 7, 8]))),
        ('code', [20003], rows(ccol(WEATHER, [1, 500, None, 400, 5, 6, 7, 8]))),
        ('text', [1011], rows([text('001011', 9, x) for x in (b'AAAAAAAAA', b'BBBBBBBBB', b'CCCCCCCCC')])),
):
    s = message(descriptors, len(subsets), True, compressed_data(subsets))
    expect_ok('control for the cuts: ' + name, descriptors, subsets)
    expect_error(name + ' cut in the increments', descriptors, subsets, 'BitReadError', cut=len(s) - 4 - 4)
    expect_error(name + ' cut behind the minimum', descriptors, subsets, 'BitReadError',
                 cut=len(s) - 4 - (len(compressed_data(subsets)) - subsets[0][0].width * (8 if name == 'text' else 1)) // 8)

# ---------------------------------------------------------------------------
# 6. the helpers' contract seen from outside: values are appended subset by subset
#    while the increments are read (an AuditedList logs in that order)
# ---------------------------------------------------------------------------
from pybufrkit.coder import CoderState  # noqa: E402
from pybufrkit.bitops import get_bit_reader  # noqa: E402
from pybufrkit.descriptors import ElementDescriptor  # noqa: E402


class TracingReader(object):
    def __init__(self, s, trace):
        self.reader = get_bit_reader(s)
        self.trace = trace

    def __getattr__(self, name):
        func = getattr(self.reader, name)

        def traced(*args):
            value = func(*args)
            if name in ('read_uint', 'read_int', 'read_bytes'):
                self.trace.append((name, args, value))
            return value
        return traced

    def read_uint_or_none(self, nbits):
        value = self.read_uint(nbits)
        return None if nbits > 1 and value == (1 << nbits) - 1 else value


class TracingList(list):
    def __init__(self, trace, i):
        super(TracingList, self).__init__()
        self.trace, self.i = trace, i

    def append(self, value):
        self.trace.append(('append', self.i, value))
        super(TracingList, self).append(value)


trace = []
state = CoderState(True, 3)
state.decoded_values_all_subsets = [TracingList(trace, i) for i in range(3)]
temperature = ElementDescriptor(12001, 'T', 'K', 1, 0, 12, 'C', 1, 3)
cloud = ElementDescriptor(20011, 'N', 'CODE TABLE', 0, 0, 4, 'CODE TABLE', 0, 2)
bits = (ubits(12, 2000) + ubits(6, 3) + ubits(3, 0) + ubits(3, 7) + ubits(3, 5) +   # numeric
        ubits(4, 2) + ubits(6, 2) + ubits(2, 1) + ubits(2, 3) + ubits(2, 0) +       # code
        ubits(12, 4095) + ubits(6, 0))                                             # numeric, all missing
reader = TracingReader(pack(bits), trace)
decoder = Decoder()
decoder.process_numeric(state, reader, temperature, 12, 10.0, 0)
decoder.process_codeflag(state, reader, cloud, 4)
decoder.process_numeric(state, reader, temperature, 12, 10.0, 0)
check('order of reads and appends', trace, [
    ('read_uint', (12,), 2000), ('read_uint', (6,), 3),
    ('read_uint', (3,), 0), ('append', 0, 200.0),
    ('read_uint', (3,), 7), ('append', 1, None),
    ('read_uint', (3,), 5), ('append', 2, 200.5),
    ('read_uint', (4,), 2), ('read_uint', (6,), 2),
    ('read_uint', (2,), 1), ('append', 0, 3),
    ('read_uint', (2,), 3), ('append', 1, None),
    ('read_uint', (2,), 0), ('append', 2, 2),
    ('read_uint', (12,), 4095), ('read_uint', (6,), 0),
    ('append', 0, None), ('append', 1, None), ('append', 2, None),
])
check('descriptors are listed once', [str(d) for d in state.decoded_descriptors], ['012001', '020011', '012001'])

# ---------------------------------------------------------------------------
# 7. real messages
# ---------------------------------------------------------------------------


def digest(m):
    td = m.template_data.value
    h = hashlib.sha1()
    for descriptors, values in zip(td.decoded_descriptors_all_subsets, td.decoded_values_all_subsets):
        h.update(repr(([str(d) for d in descriptors], values)).encode('ascii'))
    return h.hexdigest()


DIGESTS = {  # of the compressed sample files, recorded on the unpatched tree
    '207003': '46050dce78adcb68489a8d327af0601a7f3ae003',
    'ISMD01_OKPR': '57734331c8e189d37bbab387ba05751dbd308ae0',  # texts that differ between subsets
    'amv2_87': '417befa03b181e458166dab524ea44ede501254b',
    'asr3_190': '2c3b65c3a57c0bc2a663a1fe253c412a9b237ee3',
    'b005_89': '843703dd700ef068cbaebfbfaedcafd69b6e201e',
    'g2nd_208': 'bbba0dd65d047d538c8e67396f52467cced96b31',
    'jaso_214': 'f31a16c59ff79299f85d68d7023ed1c4ae6db110',  # associated fields
    'mpco_217': 'bcf1379ee211226f9b14caa1e6a3ff317eef483c',
}
for stub in sorted(DIGESTS):
    with open(os.path.join('tests', 'data', stub + '.bufr'), 'rb') as ins:
        s = ins.read()
    for how, decoder in decoders():
        check('sample {} {}'.format(stub, how), digest(decoder.process(s)), DIGESTS[stub])

BENCHMARK_DIGEST = '935a2fcf906ce0abb1ed2c03fd05323574fd3349'  # recorded on the unpatched tree
h = hashlib.sha1()
n_compressed = 0
decoder = Decoder()
for path in sorted(glob.glob(os.path.join('tests', 'benchmark_data', '*.bufr'))):
    with open(path, 'rb') as ins:
        m = decoder.process(ins.read())
    n_compressed += bool(m.is_compressed.value)
    h.update((os.path.basename(path) + ' ' + digest(m)).encode('ascii'))
check('benchmark corpus, compressed messages', n_compressed, 95)
check('benchmark corpus', h.hexdigest(), BENCHMARK_DIGEST)

print('{} checks, {} failed'.format(n_checks[0], len(failures)))
sys.exit(1 if failures else 0)
