"""
Demo for refactor 1 (encoder.py: octet / even-octet padding extracted out of
Encoder.process_section).

Encodes messages built from scratch for editions 2, 3, 4, data sections of every
bit length modulo 16, section 2 absent / present with bit strings of assorted
lengths, and checks the framing byte by byte with an independent walker.
Must exit 0 with and without the patch.
"""
import os, sys; sys.path.insert(0, os.getcwd())

import pybufrkit
assert os.path.dirname(os.path.abspath(pybufrkit.__file__)).startswith(os.getcwd()), pybufrkit.__file__

from pybufrkit.encoder import Encoder
from pybufrkit.decoder import Decoder
from pybufrkit.errors import PyBufrKitError


def descriptors_for(nbits):
    """Descriptor ids (2-bit 002001 / 3-bit 001003) whose widths sum to nbits."""
    if nbits == 0:
        return []
    assert nbits >= 2
    n3 = nbits % 2
    n2 = (nbits - 3 * n3) // 2
    return [1003] * n3 + [2001] * n2


def build(edition, nbits, sec2=None, lens=(0, 0, 0, 0, 0), edition_value=None):
    total, l1, l2, l3, l4 = lens
    descs = descriptors_for(nbits)
    vals = [1] * len(descs)
    has2 = sec2 is not None
    if edition == 2:
        s1 = [l1, 0, 98, 0, has2, '0000000', 0, 0, 25, 0, 17, 3, 4, 5, 6, 7]
    elif edition == 3:
        s1 = [l1, 0, 0, 98, 0, has2, '0000000', 0, 0, 25, 0, 17, 3, 4, 5, 6, 7]
    else:
        s1 = [l1, 0, 98, 0, 0, has2, '0000000', 0, 0, 0, 25, 0, 2017, 3, 4, 5, 6, 7]
    msg = [['BUFR', total, edition if edition_value is None else edition_value], s1]
    if has2:
        msg.append([l2, '00000000', sec2])
    msg.append([l3, '00000000', 1, True, False, '000000', descs])
    msg.append([l4, '00000000', [vals]])
    msg.append(['7777'])
    return msg


def walk(b, has2):
    """Independent framing walker: returns [(index, start, length)] for sections 1-4."""
    assert b[:4] == b'BUFR' and b[-4:] == b'7777'
    assert int.from_bytes(b[4:7], 'big') == len(b)
    pos = 8
    out = []
    for index in ([1, 2, 3, 4] if has2 else [1, 3, 4]):
        n = int.from_bytes(b[pos:pos + 3], 'big')
        out.append((index, pos, n))
        pos += n
    assert pos == len(b) - 4, (pos, len(b))
    return out


def bits_of(bs):
    return ''.join('{:08b}'.format(x) for x in bs)


def expected_octets(nbits, edition):
    n = -(-nbits // 8)
    if edition <= 3 and n % 2:
        n += 1
    return n


SEC1_BITS = {2: 18 * 8, 3: 18 * 8, 4: 22 * 8}
SEC2_STRINGS = [None, '', '1', '1010101', '10101011', '101010111', '1' * 15, '1' * 16, '1' * 17]

encoder = Encoder()
decoder = Decoder()
n_cases = 0
for edition in (2, 3, 4):
    for nbits in [0] + list(range(2, 35)):  # covers every residue modulo 16 twice
        for sec2 in SEC2_STRINGS:
            msg = encoder.process(build(edition, nbits, sec2))
            b = msg.serialized_bytes
            assert isinstance(b, bytes)
            assert msg.length.value == len(b)
            sections = walk(b, sec2 is not None)
            declared = [s.section_length.value for s in msg.sections if 'section_length' in s]
            assert declared == [n for _, _, n in sections]

            for index, start, n in sections:
                body = bits_of(b[start:start + n])
                if edition <= 3:
                    assert n % 2 == 0, (edition, index, n)
                if index == 1:
                    used = SEC1_BITS[edition]
                elif index == 2:
                    used = 32 + len(sec2)
                    assert body[32:used] == sec2
                elif index == 3:
                    used = 56 + 16 * len(descriptors_for(nbits))
                else:
                    used = 32 + nbits
                    want = ''.join('01' if d == 2001 else '001' for d in descriptors_for(nbits))
                    assert body[32:used] == want
                assert n == expected_octets(used, edition), (edition, index, used, n)
                assert set(body[used:]) <= {'0'}, 'padding must be zero'

            # round trip: the decoder sees exactly the encoded span
            d = decoder.process(b + b'7777 trailing garbage BUFR')
            assert d.serialized_bytes == b
            assert d.length.value == len(b)
            assert [s.section_length.value for s in d.sections if 'section_length' in s] == declared
            n_cases += 1

# Declared lengths are recomputed by default, whatever they say
for edition in (2, 3, 4):
    ref = encoder.process(build(edition, 11, '101')).serialized_bytes
    got = encoder.process(build(edition, 11, '101', lens=(9999, 99, 77, 55, 33))).serialized_bytes
    assert got == ref

# Declared lengths honoured: padding is applied first, then the surplus is zero filled
honour = Encoder(ignore_declared_length=False)
for edition in (2, 3, 4):
    for nbits in (0, 5, 8, 13, 16, 21):
        base = encoder.process(build(edition, nbits, '1'))
        l1, l2, l3, l4 = [s.section_length.value for s in base.sections if 'section_length' in s]
        assert honour.process(build(edition, nbits, '1', lens=(0, l1, l2, l3, l4))).serialized_bytes \
            == base.serialized_bytes
        for extra in (1, 2, 3):
            m = honour.process(build(edition, nbits, '1', lens=(0, l1, l2, l3, l4 + extra)))
            b = m.serialized_bytes
            assert len(b) == len(base.serialized_bytes) + extra == m.length.value
            (_, start, n) = walk(b, True)[-1]
            assert n == l4 + extra
            assert set(bits_of(b[start + 4:start + n])[nbits:]) <= {'0'}
            assert decoder.process(b).serialized_bytes == b
        # a declared length shorter than the (padded) content is refused
        for short in (1, 2):
            try:
                honour.process(build(edition, nbits, '1', lens=(0, l1, l2, l3, l4 - short)))
            except PyBufrKitError as e:
                assert 'exceeds declared section length' in str(e)
            else:
                raise AssertionError('short section accepted')
        # for editions <= 3 an odd declared length that covers the bits but not the
        # even padding is refused as well, since padding happens before the check
        if edition <= 3 and (32 + nbits + 7) // 8 % 2 == 1:
            try:
                honour.process(build(edition, nbits, '1', lens=(0, l1, l2, l3, l4 - 1)))
            except PyBufrKitError:
                pass
            else:
                raise AssertionError('odd declared length accepted')

# An edition that cannot be compared with 3 blows up with a TypeError (JSON string edition)
try:
    encoder.process(build(3, 8, edition_value='3'))
except TypeError:
    pass
else:
    raise AssertionError('expected TypeError for a str edition')

# string input and bytes input are accepted as well as the parsed object
import json
as_obj = encoder.process(build(3, 9, '11')).serialized_bytes
assert encoder.process(json.dumps(build(3, 9, '11'))).serialized_bytes == as_obj

print('refactor 1 demo OK: {} encode cases'.format(n_cases))
