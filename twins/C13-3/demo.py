import os, sys; sys.path.insert(0, os.getcwd())

import hashlib
import json
import logging
import pickle
import random
import subprocess

logging.disable(logging.WARNING)  # silence the 'fallback' warnings of the tables module

from pybufrkit import tables as tables_module
from pybufrkit.constants import DEFAULT_TABLES_DIR
from pybufrkit.dataquery import NodePathParser, DataQuerent
from pybufrkit.decoder import Decoder
from pybufrkit.encoder import Encoder
from pybufrkit.renderer import (FlatTextRenderer, NestedTextRenderer,
                                FlatJsonRenderer, NestedJsonRenderer)
from pybufrkit.tables import TableGroupCacheManager

assert os.path.dirname(os.path.abspath(tables_module.__file__)) == os.path.join(os.getcwd(), 'pybufrkit'), \
    'run with the current directory = worktree root'

DATA_DIR = os.path.join('tests', 'data')
REAL_LIMIT = 50


def read_bytes(name):
    with open(os.path.join(DATA_DIR, name), 'rb') as ins:
        return ins.read()


def read_text(name):
    with open(os.path.join(DATA_DIR, name)) as ins:
        return ins.read()


# --------------------------------------------------------------------------
# Observation: everything that can be seen of a decoded / encoded message
def describe_descriptor(d):
    return (type(d).__name__, str(d), getattr(d, 'name', None), getattr(d, 'unit', None),
            getattr(d, 'scale', None), getattr(d, 'refval', None), getattr(d, 'nbits', None))


def observe_message(msg):
    """Values, labels, links, renderings and a query of a processed message."""
    td = msg.template_data.value
    parts = [
        repr(msg.table_group_key),
        repr(td.decoded_values_all_subsets),
        repr([[describe_descriptor(d) for d in ds] for ds in td.decoded_descriptors_all_subsets]),
        repr([sorted(links.items()) for links in td.bitmap_links_all_subsets]),
    ]
    for renderer_class in (FlatTextRenderer, NestedTextRenderer, FlatJsonRenderer, NestedJsonRenderer):
        parts.append(repr(renderer_class().render(msg)))
    path = '/{:06d}'.format(msg.unexpanded_descriptors.value[0])
    try:
        result = DataQuerent(NodePathParser()).query(msg, path)
        parts.append(repr(result.subset_indices()))
        parts.append(repr(result.all_values()))
        parts.append(repr(result.all_values(flat=True)))
        parts.append(FlatTextRenderer().render(result))
    except Exception as e:
        parts.append('QUERY-ERR {} {}'.format(type(e).__name__, e))
    return hashlib.sha256('\x00'.join(parts).encode('utf-8', 'backslashreplace')).hexdigest()


def run_item(item, decoder, encoder_by_version):
    """
    Perform the operation of a pool item and return (observation, message or None).
    A failing operation is observed by the type and text of its exception.
    """
    kind = item[0]
    try:
        if kind == 'dec':
            msg = decoder.process(item[2])
            return observe_message(msg), msg
        else:
            msg = encoder_by_version[item[3]].process(item[2])
            digest = hashlib.sha256(msg.serialized_bytes).hexdigest()
            return digest + observe_message(msg), msg
    except Exception as e:
        return 'ERR {} {}'.format(type(e).__name__, e), None


def make_coders(cache_max):
    decoder = Decoder(compiled_template_cache_max=cache_max)
    encoders = {
        None: Encoder(compiled_template_cache_max=cache_max),
        35: Encoder(compiled_template_cache_max=cache_max, master_table_version=35),
        7: Encoder(compiled_template_cache_max=cache_max, master_table_version=7),
    }
    return decoder, encoders


# --------------------------------------------------------------------------
# The pool: more table versions than the caches hold, good and bad messages
def build_pool():
    pool = []
    for stub in ('207003', 'ISMD01_OKPR', 'IUSK73_AMMC_182300', 'b002_95', 'g2nd_208',
                 'profiler_european', 'rado_250', 'uegabe', 'contrived', 'jaso_214'):
        pool.append(('dec', stub, read_bytes(stub + '.bufr')))

    # The same content under other master table versions (other labels, other table groups)
    for stub, versions in (('uegabe', (7, 16, 20, 35, 41)),
                           ('207003', (14, 16, 36)),
                           ('profiler_european', (6, 10)),
                           ('b002_95', (17,))):
        text = read_text(stub + '.json')
        for version in versions:
            data = Encoder(master_table_version=version).process(text).serialized_bytes
            pool.append(('dec', '{}@{}'.format(stub, version), data))

    # Failing decodes
    rado = read_bytes('rado_250.bufr')
    pool.append(('dec', 'invalid', read_bytes('multi_invalid_messages.bufr')))
    pool.append(('dec', 'truncated', rado[:len(rado) // 2]))
    pool.append(('dec', 'garbage', b'BUFR\x00\x00\x10\x04garbage!'))
    pool.append(('dec', 'nosignature', b'no start signature in here'))

    # Encodes, successful and failing (310060 is undefined in version 7)
    for stub, version in (('207003', None), ('uegabe', None), ('uegabe', 35), ('uegabe', 7),
                          ('profiler_european', 35), ('IUSK73_AMMC_182300', None), ('207003', 7)):
        pool.append(('enc', '{}->{}'.format(stub, version), read_text(stub + '.json'), version))
    return pool


def fresh_baselines(pool, demo_file):
    """Observation of each pool item as the FIRST operation of a fresh process."""
    jobs = [(mode, idx) for mode in ('plain', 'compiled') for idx in range(len(pool))]
    baselines = {}
    for start in range(0, len(jobs), 8):  # 8 children at a time
        procs = []
        for mode, idx in jobs[start:start + 8]:
            proc = subprocess.Popen([sys.executable, demo_file, '--fresh', mode],
                                    stdin=subprocess.PIPE, stdout=subprocess.PIPE, cwd=os.getcwd())
            procs.append((mode, idx, proc))
        for mode, idx, proc in procs:
            out, _ = proc.communicate(pickle.dumps(pool[idx]))
            assert proc.returncode == 0, (mode, idx)
            baselines[mode, idx] = out.decode().strip().splitlines()[-1]
    return baselines


def fresh_main(mode):
    """The child: nothing but this one operation has happened in the process."""
    item = pickle.loads(sys.stdin.buffer.read())
    decoder, encoders = make_coders(None if mode == 'plain' else 100)
    observation, _ = run_item(item, decoder, encoders)
    print(observation)


def filler_keys():
    """More than 50 table group keys that no pool message uses."""
    keys = []
    for root in (DEFAULT_TABLES_DIR + os.sep + '.', DEFAULT_TABLES_DIR + os.sep + os.sep):
        for version in range(6, 42):
            keys.append((root, version))
    return keys


def run_interleavings(pool, baselines, seeds=(1, 2), n_ops=26, cache_sizes=(None, 0, 1, 2, 100),
                      limits=(1, 2, 3, REAL_LIMIT), check=None):
    """
    Random interleavings of decode / encode / failing operations / queries and
    renderings of older message objects / table cache fillers, every result
    compared with the result of a fresh process.
    """
    fillers = filler_keys()
    n_checked = 0
    for seed in seeds:
        rng = random.Random(seed)
        for cache_max in cache_sizes:
            mode = 'plain' if cache_max is None else 'compiled'
            for limit in limits:
                tables_module.MAXIMUM_NUMBER_OF_CACHED_TABLE_GROUPS = limit
                decoder, encoders = make_coders(cache_max)
                kept = []  # message objects of earlier operations
                if limit == REAL_LIMIT:
                    # reach the real limit: more distinct table groups than it holds
                    for root, version in rng.sample(fillers, 58):
                        TableGroupCacheManager.get_table_group(tables_root_dir=root, master_table_version=version)
                for _ in range(n_ops):
                    dice = rng.random()
                    if dice < 0.15:
                        root, version = rng.choice(fillers)
                        TableGroupCacheManager.get_table_group(tables_root_dir=root, master_table_version=version)
                    elif dice < 0.35 and kept:
                        # query and render an older message object again
                        idx, msg = rng.choice(kept)
                        tail = observe_message(msg)
                        assert baselines[mode, idx].endswith(tail), \
                            ('old message object changed', pool[idx][1], cache_max, limit, seed)
                        n_checked += 1
                    else:
                        idx = rng.randrange(len(pool))
                        observation, msg = run_item(pool[idx], decoder, encoders)
                        assert observation == baselines[mode, idx], \
                            ('depends on history', pool[idx][1], cache_max, limit, seed)
                        n_checked += 1
                        if msg is not None:
                            kept.append((idx, msg))
                            del kept[:-6]
                    if check is not None:
                        check(decoder, encoders, cache_max, limit)
    tables_module.MAXIMUM_NUMBER_OF_CACHED_TABLE_GROUPS = REAL_LIMIT
    return n_checked


# --------------------------------------------------------------------------
# Checks specific to CompiledTemplateManager.get_or_compile
import math

from pybufrkit import templatecompiler as tc_module
from pybufrkit.errors import UnknownDescriptor
from pybufrkit.templatecompiler import CompiledTemplateManager, CompiledTemplate


def raises(exc_type, func, *args):
    try:
        func(*args)
    except Exception as e:
        assert type(e) is exc_type, (type(e), exc_type)
        return e
    raise AssertionError('{} not raised'.format(exc_type))


class Recorder(logging.Handler):
    def __init__(self):
        logging.Handler.__init__(self, logging.DEBUG)
        self.messages = []

    def emit(self, record):
        self.messages.append(record.getMessage())


def dumped(compiled_template):
    return json.dumps(compiled_template.to_dict(), sort_keys=True, default=repr)


def check_get_or_compile():
    groups = {v: TableGroupCacheManager.get_table_group(master_table_version=v) for v in (13, 18, 35)}
    id_lists = [(301011, 301012), (301011,), (101002, 12101), (103000, 31001, 1001, 1002, 2001),
                (222000, 101003, 31031), (309052,), (201130, 12101, 201000), ()]
    jobs = []  # (name, template, table group)
    for version, group in sorted(groups.items()):
        for ids in id_lists:
            jobs.append(((ids, version), group.template_from_ids(*ids), group))
    n_jobs = len(jobs)
    reference = {}

    for cache_max in (0, 1, 2, 5, n_jobs, 100, -1, -7, 0.5, 1.5, True, False):
        manager = CompiledTemplateManager(cache_max)
        assert manager.cache == {} and manager.cache_max is cache_max
        capacity = cache_max if cache_max > 0 else 0
        rng = random.Random(cache_max)
        model = []  # keys expected in the cache, in order of insertion
        for step in range(120):
            name, template, group = jobs[rng.randrange(n_jobs)]
            key = (tuple(template.original_descriptor_ids), group.key)
            was_cached = manager.cache.get(key)
            result = manager.get_or_compile(template, group)
            assert type(result) is CompiledTemplate
            assert result.table_group_key == group.key
            assert reference.setdefault(name, dumped(result)) == dumped(result), (name, cache_max)
            if was_cached is not None:
                # hit: the cached object itself, the cache untouched
                assert result is was_cached
            else:
                assert result.template is template
                if capacity > 0:
                    if len(model) >= capacity:
                        model.pop()  # the most recently stored one goes
                    model.append(key)
            assert list(manager.cache) == model, (cache_max, step)
            assert len(manager.cache) <= math.ceil(capacity)
            if capacity > 0:
                assert manager.cache[key] is result
            else:
                assert manager.cache == {}
        if capacity == 0:
            # no caching: a new object per call
            name, template, group = jobs[0]
            assert manager.get_or_compile(template, group) is not manager.get_or_compile(template, group)

    # the key: ids of the template and key of the table group; equal templates share an entry
    manager = CompiledTemplateManager(10)
    group = groups[13]
    t1 = group.template_from_ids(301011, 12101)
    t2 = group.template_from_ids(301011, 12101)
    c1 = manager.get_or_compile(t1, group)
    assert manager.get_or_compile(t2, group) is c1 and c1.template is t1
    assert list(manager.cache) == [((301011, 12101), group.key)]
    other = manager.get_or_compile(groups[18].template_from_ids(301011, 12101), groups[18])
    assert other is not c1 and len(manager.cache) == 2

    # the limit lowered below the filling: one entry goes per miss, not more
    manager = CompiledTemplateManager(5)
    for name, template, group in jobs[:5]:
        manager.get_or_compile(template, group)
    manager.cache_max = 2
    manager.get_or_compile(jobs[6][1], jobs[6][2])
    assert len(manager.cache) == 5
    manager.cache_max = 0
    manager.get_or_compile(jobs[7][1], jobs[7][2])
    assert len(manager.cache) == 5  # turned off: neither dropped nor stored
    assert manager.get_or_compile(jobs[0][1], jobs[0][2]) is manager.cache[
        (tuple(jobs[0][1].original_descriptor_ids), jobs[0][2].key)]  # but still answered from the cache

    # errors: nothing is stored, the cache stays as it was
    manager = CompiledTemplateManager(3)
    good = manager.get_or_compile(jobs[0][1], jobs[0][2])
    before = dict(manager.cache)
    undefined = groups[13].template_from_ids(1001, 63254, 399999)
    e = raises(UnknownDescriptor, manager.get_or_compile, undefined, groups[13])
    assert '063254' in str(e), str(e)
    assert manager.cache == before and manager.cache[list(before)[0]] is good
    raises(AttributeError, manager.get_or_compile, jobs[0][1], None)  # no key
    raises(AttributeError, manager.get_or_compile, None, groups[13])  # no ids
    raises(TypeError, CompiledTemplateManager(None).get_or_compile, jobs[0][1], jobs[0][2])  # None > 0
    assert manager.cache == before

    # the log of a miss and of a hit
    recorder = Recorder()
    logger = tc_module.log
    old_level, old_disable = logger.level, logging.root.manager.disable
    logging.disable(logging.NOTSET)
    logger.setLevel(logging.DEBUG)
    logger.addHandler(recorder)
    try:
        manager = CompiledTemplateManager(1)
        name, template, group = jobs[1]
        key = (tuple(template.original_descriptor_ids), group.key)
        manager.get_or_compile(template, group)
        manager.get_or_compile(template, group)
    finally:
        logger.removeHandler(recorder)
        logger.setLevel(old_level)
        logging.disable(old_disable)
    wanted = ['Getting compiled template of key: {}'.format(key), 'Cached version not available. Compiling now ...',
              'Getting compiled template of key: {}'.format(key)]
    assert [m for m in recorder.messages if 'ompil' in m] == wanted, recorder.messages


def check_after_each_op(decoder, encoders, cache_max, limit):
    for coder in [decoder] + list(encoders.values()):
        manager = coder.compiled_template_manager
        if cache_max is None:
            assert manager is None
        else:
            assert len(manager.cache) <= cache_max
            for (ids, group_key), compiled in manager.cache.items():
                assert compiled.table_group_key == group_key
                assert tuple(compiled.template.original_descriptor_ids) == ids


if __name__ == '__main__':
    if len(sys.argv) > 2 and sys.argv[1] == '--fresh':
        fresh_main(sys.argv[2])
        sys.exit(0)
    check_get_or_compile()
    pool = build_pool()
    baselines = fresh_baselines(pool, os.path.abspath(__file__))
    n_checked = run_interleavings(pool, baselines, seeds=(3,), n_ops=30, cache_sizes=(0, 1, 2, 3, 100, None),
                                  check=check_after_each_op)
    print('OK: {} operations gave the result of a fresh process'.format(n_checked))
