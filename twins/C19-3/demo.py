import os, sys; sys.path.insert(0, os.getcwd())

import random

from pybufrkit.bitops import get_bit_reader, get_bit_writer
from pybufrkit.errors import PyBufrKitError


def bits_of(writer):
    return writer.bit_stream.bin


def expect(exc_type, func, *args):
    try:
        func(*args)
    except Exception as e:
        assert isinstance(e, exc_type), (exc_type, type(e), e)
        assert not isinstance(e, PyBufrKitError)
        return e
    raise AssertionError('no {} from {}{}'.format(exc_type.__name__, func.__name__, args))


def writer_with(bits):
    """A writer holding exactly the given string of 0/1, written in uneven chunks."""
    w = get_bit_writer()
    i = 0
    step = 1
    while i < len(bits):
        chunk = bits[i:i + step]
        w.write_bin(chunk)
        i += len(chunk)
        step = step % 13 + 1
    assert bits_of(w) == bits
    return w


def values_for(n):
    return sorted({0, 1, 2 ** (n - 1), max(2 ** n - 2, 0), 2 ** n - 1})


rnd = random.Random(19003)

# ---------------------------------------------------------------------------
# 1. exhaustive: width x value x bit offset; three different backgrounds.
#    Exactly the addressed bits change; length and write position do not.
# ---------------------------------------------------------------------------
count = 0
for n in range(1, 65):
    for offset in range(8):
        total = offset + n + rnd.randint(0, 19)           # some bits after the field, any alignment
        backgrounds = ['0' * total, '1' * total,
                       ''.join(rnd.choice('01') for _ in range(total))]
        for value in values_for(n):
            for background in backgrounds:
                w = writer_with(background)
                ret = w.set_uint(value, n, offset)
                assert ret is None
                expected = background[:offset] + format(value, '0{}b'.format(n)) + background[offset + n:]
                assert bits_of(w) == expected, (n, offset, value)
                assert w.get_pos() == total == len(expected)
                count += 1

                # appending continues at the old end
                w.write_uint(1, 1)
                assert bits_of(w) == expected + '1' and w.get_pos() == total + 1

# the field may be the last thing in the stream, or the whole stream
for n in range(1, 65):
    for value in values_for(n):
        w = writer_with('1' * n)
        w.set_uint(value, n, 0)
        assert bits_of(w) == format(value, '0{}b'.format(n)) and w.get_pos() == n
        w = writer_with('10110' + '1' * n)
        w.set_uint(value, n, 5)
        assert bits_of(w) == '10110' + format(value, '0{}b'.format(n)) and w.get_pos() == n + 5

# reading back what was overwritten, through the reader
for n in range(1, 65):
    for offset in range(8):
        value = rnd.getrandbits(n)
        tail = -(offset + n) % 8
        w = get_bit_writer()
        if offset:
            w.write_uint(2 ** offset - 1, offset)
        w.write_uint(2 ** n - 1 - value, n)               # the old content: every bit differs
        if tail:
            w.write_uint(2 ** tail - 1, tail)
        w.set_uint(value, n, offset)
        data = w.to_bytes()
        assert len(data) * 8 == offset + n + tail
        r = get_bit_reader(data)
        if offset:
            assert r.read_uint(offset) == 2 ** offset - 1
        assert r.read_uint(n) == value
        if tail:
            assert r.read_uint(tail) == 2 ** tail - 1
        assert r.get_pos() == w.get_pos()

# ---------------------------------------------------------------------------
# 2. the way the encoder uses it: a 24-bit length placeholder at a byte
#    boundary, filled in once the length is known - and repeated overwrites
# ---------------------------------------------------------------------------
w = get_bit_writer()
w.write_bytes(b'BUFR')
w.write_uint(0, 24)
w.write_uint(4, 8)
w.write_bytes(b'payload')
w.set_uint(len(w.to_bytes()), 24, 32)
assert w.to_bytes() == b'BUFR' + b'\x00\x00\x0f' + b'\x04' + b'payload'
w.set_uint(0xabcdef, 24, 32)
w.set_uint(0x010203, 24, 32)
assert w.to_bytes() == b'BUFR' + b'\x01\x02\x03' + b'\x04' + b'payload'
assert w.get_pos() == 15 * 8

# many overwrites of random fields against a model
for _ in range(60):
    total = rnd.randint(1, 300)
    model = [rnd.choice('01') for _ in range(total)]
    w = writer_with(''.join(model))
    for _k in range(rnd.randint(1, 40)):
        n = rnd.randint(1, min(64, total))
        pos = rnd.randint(0, total - n)
        v = rnd.choice([0, 2 ** n - 1, rnd.getrandbits(n)])
        w.set_uint(v, n, pos)
        model[pos:pos + n] = format(v, '0{}b'.format(n))
        assert bits_of(w) == ''.join(model)
        assert w.get_pos() == total

# ---------------------------------------------------------------------------
# 3. values that do not fit are refused, the stream is left untouched
# ---------------------------------------------------------------------------
for n in range(1, 65):
    for offset in range(8):
        background = ''.join(rnd.choice('01') for _ in range(offset + n + 3))
        w = writer_with(background)
        expect(ValueError, w.set_uint, 2 ** n, n, offset)
        expect(ValueError, w.set_uint, -1, n, offset)
        expect(ValueError, w.set_uint, 2 ** 70, n, offset)
        assert bits_of(w) == background and w.get_pos() == len(background)

background = '1011001110001111'
w = writer_with(background)
expect(ValueError, w.set_uint, 0, 0, 3)              # zero width
expect(ValueError, w.set_uint, 0, -8, 3)             # negative widths
expect(ValueError, w.set_uint, 0, -3, 3)
expect(TypeError, w.set_uint, 1, None, 3)            # width is not a number
expect(TypeError, w.set_uint, 1, 3, None)            # position is not a number
expect(TypeError, w.set_uint, 1, None, None)
expect(TypeError, w.set_uint, None, 8, 0)
expect(TypeError, w.set_uint, None, 3, 0)
e = expect(ValueError, w.set_uint, 300, 8, None)     # the value is checked before the position is used
assert '300' in str(e)
assert bits_of(w) == background and w.get_pos() == 16

# value types: bool counts as an int; the field is still the full width
w = writer_with(background)
w.set_uint(True, 8, 0)
assert bits_of(w) == '00000001' + background[8:]
w.set_uint(True, 3, 8)
assert bits_of(w) == '00000001' + '001' + background[11:]

# ---------------------------------------------------------------------------
# 4. through the whole library: encoding fills in section and message lengths
#    with set_uint; the encoded message must be the original bytes
# ---------------------------------------------------------------------------
from pybufrkit.decoder import Decoder
from pybufrkit.encoder import Encoder

data_dir = os.path.join(os.getcwd(), 'tests', 'data')
for stub in ('IUSK73_AMMC_182300', '207003', 'b002_95'):
    with open(os.path.join(data_dir, stub + '.json')) as ins:
        json_text = ins.read()
    with open(os.path.join(data_dir, stub + '.bufr'), 'rb') as ins:
        original = ins.read()
    encoded = Encoder().process(json_text).serialized_bytes
    if stub == 'IUSK73_AMMC_182300':   # re-encoding this one gives back the file byte for byte
        assert encoded == original, stub
    assert encoded[:4] == b'BUFR' and encoded[-4:] == b'7777'
    assert int.from_bytes(encoded[4:7], 'big') == len(encoded), stub
    decoded = Decoder().process(encoded)
    assert decoded.length.value == len(encoded)
    assert decoded.serialized_bytes == encoded

print('demo 3 ok:', count, 'exhaustive in-place overwrites')
