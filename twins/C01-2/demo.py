import os, sys; sys.path.insert(0, os.getcwd())
# ---------------------------------------------------------------------------
# Independent, minimal BUFR message builder (no pybufrkit code involved).
# ---------------------------------------------------------------------------
class Bits(object):
    """Big-endian bit accumulator."""

    def __init__(self):
        self.chunks = []

    def u(self, value, nbits):
        """Append an unsigned integer of nbits."""
        assert nbits >= 0 and 0 <= value < (1 << nbits) or (nbits == 0 and value == 0), (value, nbits)
        if nbits:
            self.chunks.append(format(value, '0{}b'.format(nbits)))
        return self

    def ones(self, nbits):
        """Append nbits of all ones (the missing value)."""
        return self.u((1 << nbits) - 1, nbits)

    def s(self, data):
        """Append raw bytes."""
        for byte in bytearray(data):
            self.u(byte, 8)
        return self

    def sm(self, value, nbits):
        """Append a sign-magnitude integer (operator 203 reference values)."""
        self.u(1 if value < 0 else 0, 1)
        return self.u(abs(value), nbits - 1)

    def nbits(self):
        return sum(len(c) for c in self.chunks)

    def to_bytes(self):
        s = ''.join(self.chunks)
        s += '0' * (-len(s) % 8)
        return bytes(bytearray(int(s[i:i + 8], 2) for i in range(0, len(s), 8)))


def _u(value, nbytes):
    return bytes(bytearray((value >> (8 * (nbytes - 1 - i))) & 0xFF for i in range(nbytes)))


def build_message(descriptors, data, n_subsets=1, compressed=False, edition=4,
                  master_table_version=25, pad_data_to=None):
    """
    Assemble a complete BUFR message.

    :param descriptors: list of int descriptor ids (FXXYYY as decimal number)
    :param data: bytes of the data section payload (after the 4 octet header)
    """
    if edition == 4:
        sec1 = (_u(22, 3) + _u(0, 1) + _u(0, 2) + _u(0, 2) + _u(0, 1) + _u(0, 1) +
                _u(0, 1) + _u(0, 1) + _u(0, 1) + _u(master_table_version, 1) + _u(0, 1) +
                _u(2020, 2) + _u(1, 1) + _u(2, 1) + _u(3, 1) + _u(4, 1) + _u(5, 1))
        assert len(sec1) == 22
    elif edition == 3:
        sec1 = (_u(18, 3) + _u(0, 1) + _u(0, 1) + _u(0, 1) + _u(0, 1) + _u(0, 1) +
                _u(0, 1) + _u(0, 1) + _u(master_table_version, 1) + _u(0, 1) +
                _u(20, 1) + _u(1, 1) + _u(2, 1) + _u(3, 1) + _u(4, 1) + _u(0, 1))
        assert len(sec1) == 18
    elif edition == 2:
        sec1 = (_u(18, 3) + _u(0, 1) + _u(0, 2) + _u(0, 1) + _u(0, 1) +
                _u(0, 1) + _u(0, 1) + _u(master_table_version, 1) + _u(0, 1) +
                _u(20, 1) + _u(1, 1) + _u(2, 1) + _u(3, 1) + _u(4, 1) + _u(0, 1))
        assert len(sec1) == 18
    else:
        raise ValueError(edition)

    desc_bytes = b''
    for d in descriptors:
        f, x, y = d // 100000, d // 1000 % 100, d % 1000
        desc_bytes += _u((f << 14) | (x << 8) | y, 2)
    flags = 0x80 | (0x40 if compressed else 0)
    sec3_body = _u(0, 1) + _u(n_subsets, 2) + _u(flags, 1) + desc_bytes
    if edition < 4 and (len(sec3_body) + 3) % 2:
        sec3_body += b'\0'
    sec3 = _u(len(sec3_body) + 3, 3) + sec3_body

    if pad_data_to is not None:
        data = data + b'\0' * (pad_data_to - len(data))
    if edition < 4 and (len(data) + 4) % 2:
        data += b'\0'
    sec4 = _u(len(data) + 4, 3) + _u(0, 1) + data

    body = sec1 + sec3 + sec4 + b'7777'
    total = 8 + len(body)
    return b'BUFR' + _u(total, 3) + _u(edition, 1) + body


def decode(message, **kwargs):
    """Decode with the library under test; return (values, labels) per subset."""
    from pybufrkit.decoder import Decoder
    bufr = Decoder(**kwargs).process(message)
    td = bufr.template_data.value
    values = [list(vs) for vs in td.decoded_values_all_subsets]
    labels = [[str(d) for d in ds] for ds in td.decoded_descriptors_all_subsets]
    return values, labels


def num(raw, scale, ref):
    """The FM-94 value of a numeric field: (raw + reference) / 10**scale."""
    if raw is None:
        return None
    value = raw + ref
    if scale != 0:
        value = value / (1.0 * 10 ** scale)
    return value


def same(actual, expected):
    """Exact equality including the int/float distinction, element by element."""
    assert len(actual) == len(expected), (len(actual), len(expected), actual, expected)
    for i, (a, e) in enumerate(zip(actual, expected)):
        assert type(a) is type(e) and a == e, (i, a, e, actual, expected)
    return True


# ---------------------------------------------------------------------------
# Demo for refactor 2: Coder.process_operator_descriptor
# ---------------------------------------------------------------------------
from pybufrkit.errors import PyBufrKitError, BitReadError
from pybufrkit.decoder import Decoder
from pybufrkit.coder import (CoderState, BSRModifier, BITMAP_INDICATOR, BITMAP_NA,
                             QA_INFO_NA, QA_INFO_WAITING)
from pybufrkit.descriptors import OperatorDescriptor
from pybufrkit.bitops import get_bit_reader

BOTH = ({}, {'compiled_template_cache_max': 8})


def expect_error(exc_type, func, *args, **kwargs):
    try:
        func(*args, **kwargs)
    except Exception as e:
        assert type(e) is exc_type, (type(e), e)
        return e
    raise AssertionError('no error raised, expected {}'.format(exc_type.__name__))


def check(template, bits, values, labels, **kwargs):
    for kw in BOTH:
        v, l = decode(build_message(template, bits.to_bytes(), **kwargs), **kw)
        assert len(v) == len(values)
        for got, exp in zip(v, values):
            same(got, exp)
        assert l == labels, l


# --- 1. the registers, operator by operator, on a bare state ---------------------------
decoder = Decoder()
state = CoderState(False, 1)
reader = get_bit_reader(b'abcdef')


def op(id_):
    result = decoder.process_operator_descriptor(state, reader, OperatorDescriptor(id_))
    assert result is None
    return state


assert op(201130).nbits_offset == 2 and op(201001).nbits_offset == -127 and op(201255).nbits_offset == 127
assert op(201000).nbits_offset == 0 and type(state.nbits_offset) is int
assert op(202129).scale_offset == 1 and op(202127).scale_offset == -1 and op(202000).scale_offset == 0
assert state.nbits_offset == 0  # untouched by 202

refvals = state.new_refvals
refvals[7001] = -5
assert op(203012).nbits_of_new_refval == 12 and state.new_refvals is refvals
assert op(203255).nbits_of_new_refval == 0 and state.new_refvals is refvals and refvals == {7001: -5}
assert op(203016).nbits_of_new_refval == 16
assert op(203000).nbits_of_new_refval == 0 and state.new_refvals == {} and state.new_refvals is not refvals
assert refvals == {7001: -5}

associated = state.nbits_of_associated
assert op(204008).nbits_of_associated == [8] and op(204004).nbits_of_associated == [8, 4]
assert op(204000).nbits_of_associated == [8] and op(204000).nbits_of_associated == []
assert state.nbits_of_associated is associated
expect_error(IndexError, op, 204000)

assert op(206012).nbits_of_skipped_local_descriptor == 12
assert op(206000).nbits_of_skipped_local_descriptor == 0

for y in (1, 2, 3, 4, 9, 10, 255):
    m = op(207000 + y).bsr_modifier
    assert type(m) is BSRModifier
    assert m == ((10 * y + 2) // 3, y, 10 ** y) and all(type(x) is int for x in m)
assert [op(207000 + y).bsr_modifier.nbits_increment for y in (1, 2, 3, 4)] == [4, 7, 10, 14]
m = op(207000).bsr_modifier
assert type(m) is BSRModifier and m == BSRModifier(0, 0, 1) and all(type(x) is int for x in m)
assert m.refval_factor == 1 and m.nbits_increment == 0 and m.scale_increment == 0

assert op(208005).new_nbytes == 5 and op(208000).new_nbytes == 0
assert op(221003).data_not_present_count == 3 and op(221000).data_not_present_count == 0

# none of the above touched the bit stream or produced a value
assert reader.get_pos() == 0 and state.decoded_values == [] and state.decoded_descriptors == []

# 205: YYY bytes are read, labelled by the operator itself
d205 = OperatorDescriptor(205003)
decoder.process_operator_descriptor(state, reader, d205)
assert state.decoded_values == [b'abc'] and state.decoded_descriptors[-1] is d205 and reader.get_pos() == 24

# 222000 .. 232000: bitmap indicator, back reference boundary set before the operator is recorded
for code in (222, 223, 224, 225, 232):
    state.bitmap_definition_state = BITMAP_NA
    state.status_qa_info_follows = QA_INFO_NA
    n = len(state.decoded_descriptors)
    op(code * 1000)
    assert state.bitmap_definition_state == BITMAP_INDICATOR
    assert state.back_reference_boundary == n and len(state.decoded_descriptors) == n + 1
    assert state.decoded_values[-1] == 0 and str(state.decoded_descriptors[-1]) == str(code * 1000)
    assert state.status_qa_info_follows == (QA_INFO_WAITING if code == 222 else QA_INFO_NA)
# markers without any bitmap: nothing to refer to
n = len(state.decoded_descriptors)
for code in (223, 224, 225, 232, 222):
    expect_error(TypeError, op, code * 1000 + 255)
assert len(state.decoded_descriptors) == n

# 235 cancels all back references, 236 is a constant
state.back_referenced_descriptors, state.bitmap, state.bitmapped_descriptors = [1], [0], [2]
op(235000)
assert (state.back_referenced_descriptors, state.bitmap, state.bitmapped_descriptors) == (None, None, None)
assert len(state.decoded_descriptors) == n
op(236000)
assert len(state.decoded_descriptors) == n + 1 and state.decoded_values[-1] == 0

# 237000 recalls (fails without a bitmap, before anything is recorded), 237255 cancels the bitmap defined for reuse
# (rebased again: since "fix: 237255 cancels the bitmap defined for reuse also when ..." whatever bitmap was built last)
# (rebased: since "fix: 237000 recalls the bitmap defined for reuse" the refusal is a PyBufrKitError and the
# bitmapped descriptors are rebuilt from the bitmap and the back referenced descriptors)
e = expect_error(PyBufrKitError, op, 237000)
assert e.message == 'No bitmap is defined for reuse'
assert len(state.decoded_descriptors) == n + 1
state.bitmap, state.bitmapped_descriptors = [0, 1], None
state.back_referenced_descriptors = [(0, 'x'), (1, 'y')]
op(237000)
assert state.next_bitmapped_descriptor() == (0, 'x') and len(state.decoded_descriptors) == n + 2
state.most_recent_bitmap_is_for_reuse = False
assert op(237255).bitmap is None and len(state.decoded_descriptors) == n + 3
state.bitmap = [0, 1]
state.most_recent_bitmap_is_for_reuse = True
assert op(237255).bitmap is None and len(state.decoded_descriptors) == n + 4
assert state.bitmapped_descriptors == [(0, 'x')]
assert state.decoded_values[-3:] == [0, 0, 0]

# not implemented operators
pos = reader.get_pos()
for bad in (241000, 242000, 243000, 209000, 200000, 233000, 238000, 299255):
    e = expect_error(NotImplementedError, op, bad)
    assert str(e) == 'Operator Descriptor {} not implemented'.format(bad)
assert reader.get_pos() == pos and len(state.decoded_descriptors) == n + 4

# --- 2. whole messages -------------------------------------------------------------------
# 204: associated fields, nested, not applied to class 31, all ones is missing when wider than a bit
check([204004, 31021, 12001, 204002, 31021, 7001, 204000, 1001, 204000, 1001, 201130, 12001],
      Bits().u(1, 6).u(9, 4).u(2731, 12).u(2, 6).ones(6).u(500, 15).ones(4).u(5, 7).u(6, 7).u(3, 14),
      [[1, 9, 273.1, 2, None, 100, None, 5, 6, 0.3]],
      [['031021', 'A12001', '012001', '031021', 'A07001', '007001', 'A01001', '001001', '001001', '012001']])
# one-bit associated field: one is a value
check([204001, 31021, 1001, 1001, 204000], Bits().u(63, 6).u(1, 1).u(5, 7).u(0, 1).u(6, 7),
      [[None, 1, 5, 0, 6]], [['031021', 'A01001', '001001', 'A01001', '001001']])
# 205, 206, 208, 221
check([205003, 1001, 205001], Bits().s(b'abc').u(5, 7).s(b'\xff'), [[b'abc', 5, b'\xff']],
      [['205003', '001001', '205001']])
check([206010, 12250, 1001], Bits().u(513, 10).u(5, 7), [[513, 5]], [['S12250', '001001']])
check([206010, 12250, 206003, 1001, 206001, 1001], Bits().ones(10).u(5, 3).u(1, 1), [[None, 5, 1]],
      [['S12250', 'S01001', 'S01001']])
check([208003, 1015, 208000, 1011], Bits().s(b'xyz').s(b'ABCDEFGHI'), [[b'xyz', b'ABCDEFGHI']],
      [['001015', '001011']])
check([221002, 12001, 1001, 12001], Bits().u(5, 7).u(2731, 12), [[5, 273.1]], [['001001', '012001']])
# registers are per subset for uncompressed data: the second subset starts afresh
check([12001, 201130, 202129, 207001, 208002],
      Bits().u(2731, 12).u(2730, 12), [[273.1], [273.0]], [['012001']] * 2, n_subsets=2)
# 207 with its cancellation, 201 and 202 combined with it
check([207002, 201129, 7001, 201000, 207000, 7001, 202129, 207001, 12001, 207000, 12001, 202000, 12001],
      Bits().u(40123, 23).u(1, 15).u(27315, 16).u(2731, 12).ones(12),
      [[(40123 - 40000) / 100.0, -399, 27315 / 1000.0, 2731 / 100.0, None]],
      [['007001', '007001', '012001', '012001', '012001']])

# 222000 quality information
T = [1001, 1002, 12001, 222000, 101003, 31031, 1031, 1032, 101002, 33007]
bits = Bits().u(5, 7).u(100, 10).u(2731, 12).u(0, 1).u(1, 1).u(0, 1).u(98, 16).u(7, 8).u(70, 7).ones(7)
check(T, bits, [[5, 100, 273.1, 0, 0, 1, 0, 98, 7, 70, None]],
      [['001001', '001002', '012001', '222000', '031031', '031031', '031031', '001031', '001032',
        '033007', '033007']])

# 224, 225, 232, 223 with markers; 236 / 237 bitmap reuse; 237255; 235000
T2 = [1001, 12001, 7001,
      224000, 236000, 101003, 31031, 8023, 101002, 224255,
      225000, 237000, 8024, 101002, 225255,
      232000, 237000, 101002, 232255,
      223000, 237000, 101002, 223255,
      237255, 235000,
      1001, 222000, 101001, 31031, 33007]
L2 = ['001001', '012001', '007001', '224000', '236000', '031031', '031031', '031031', '008023',
      'F12001', 'F07001', '225000', '237000', '008024', 'D12001', 'D07001', '232000', '237000',
      'R12001', 'R07001', '223000', '237000', 'T12001', 'T07001', '237255', '001001', '222000',
      '031031', '033007']
LINKS2 = {9: 1, 10: 2, 14: 1, 15: 2, 18: 1, 19: 2, 22: 1, 23: 2, 28: 25}
bits = Bits().u(5, 7).u(2731, 12).u(500, 15)
bits.u(1, 1).u(0, 1).u(0, 1).u(4, 6).u(2700, 12).u(450, 15)
bits.u(2, 6).u(4096 + 15, 13).u(32768 - 20, 16)
bits.u(2800, 12).ones(15)
bits.u(0, 12).u(1, 15)
bits.u(9, 7).u(0, 1).u(99, 7)
V2 = [5, 273.1, 100, 0, 0, 1, 0, 0, 4, 270.0, 50, 0, 0, 2, 1.5, -20, 0, 0, 280.0, None,
      0, 0, 0.0, -399, 0, 9, 0, 0, 99]
for edition in (2, 3, 4):
    check(T2, bits, [V2], [L2], edition=edition)
for kw in BOTH:
    td = Decoder(**kw).process(build_message(T2, bits.to_bytes())).template_data.value
    assert td.bitmap_links_all_subsets == [LINKS2]

# the same template compressed, three identical subsets
cbits = Bits()
for raw, nbits in ((5, 7), (2731, 12), (500, 15), (1, 1), (0, 1), (0, 1), (4, 6), (2700, 12), (450, 15),
                   (2, 6), (4096 + 15, 13), (32768 - 20, 16), (2800, 12), ((1 << 15) - 1, 15),
                   (0, 12), (1, 15), (9, 7), (0, 1), (99, 7)):
    cbits.u(raw, nbits).u(0, 6)
check(T2, cbits, [V2] * 3, [L2] * 3, n_subsets=3, compressed=True)
for kw in BOTH:
    td = Decoder(**kw).process(build_message(T2, cbits.to_bytes(), n_subsets=3, compressed=True)).template_data.value
    assert td.bitmap_links_all_subsets == [LINKS2] * 3

# --- 3. error cases in whole messages --------------------------------------------------------
for kw in BOTH:
    for bad in (241000, 209000):
        e = expect_error(NotImplementedError, decode, build_message([bad, 1001], Bits().u(5, 7).to_bytes()), **kw)
        assert str(e) == 'Operator Descriptor {} not implemented'.format(bad)
    expect_error(IndexError, decode, build_message([204000, 1001], Bits().u(5, 7).to_bytes()), **kw)
    expect_error(PyBufrKitError, decode, build_message([237000, 1001], Bits().u(5, 7).to_bytes()), **kw)
    expect_error(TypeError, decode, build_message([223255, 1001], Bits().u(5, 7).to_bytes()), **kw)
    # 205 running out of bits
    msg = build_message([205020], Bits().s(b'0123456789').to_bytes())
    expect_error(BitReadError, decode, msg[:-4], **kw)
    # more markers than bits set in the bitmap
    expect_error(StopIteration, decode, build_message(
        [1001, 224000, 101001, 31031, 224255, 224255], Bits().u(5, 7).u(0, 1).u(6, 7).u(7, 7).to_bytes()), **kw)
check([1001, 236000, 235000, 237255, 1001], Bits().u(5, 7).u(5, 7), [[5, 0, 0, 5]],
      [['001001', '236000', '237255', '001001']])

# --- 4. sample corpus: files that use the operators (bitmaps, 201/202, 204, ...) -----------------
import json

for name in ('207003', 'IUSK73_AMMC_182300', 'g2nd_208', 'jaso_214', 'profiler_european', 'uegabe', 'b002_95'):
    with open(os.path.join('tests', 'data', name + '.json')) as f:
        stored = json.load(f)[-2][-1]
    with open(os.path.join('tests', 'data', name + '.bufr'), 'rb') as f:
        raw = f.read()
    for kw in BOTH:
        values, _ = decode(raw, **kw)
        assert len(values) == len(stored)
        for got, exp in zip(values, stored):
            same([x.decode('latin-1') if isinstance(x, bytes) else x for x in got], exp)

print('demo 2 OK')
