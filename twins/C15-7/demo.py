import os, sys; sys.path.insert(0, os.getcwd())

"""
Differential demonstration for refactor 7 (character dispatch of
NodePathParser.parse through a table of handler names).

Four independent checks, all of them must hold unpatched and patched:

  A. a frozen table of inputs with the exact outcome written out by hand
     (result or error message, and the attributes the parser is left with),
     chosen so that every character class is dispatched in every parser state;
  B. exhaustive comparison, over all strings up to length 5 of a 13 letter
     alphabet, with a reference recogniser / evaluator written from the
     documented grammar with regular expressions (no state machine);
  C. random grammar-derived long expressions and all kinds of single-character
     mutations of them, against the same reference, plus print / re-parse;
  D. the same inputs run through the working copy and through the source of
     HEAD (``git show HEAD:pybufrkit/dataquery.py``), comparing everything
     observable: result, printed form, exception type, message, args, chained
     exception, and the attributes of the parser object afterwards.
"""

import itertools
import random
import re
import string
import subprocess
import types

import pybufrkit.dataquery as dq
from pybufrkit.dataquery import NodePathParser, NodePath, PathComponent
from pybufrkit.errors import PathExprParsingError

assert os.path.dirname(os.path.abspath(dq.__file__)) == os.path.join(os.getcwd(), 'pybufrkit'), dq.__file__

QUICK = '--quick' in sys.argv
n_checks = 0


def check(cond, *what):
    global n_checks
    n_checks += 1
    if not cond:
        print('FAILED:', *what)
        sys.exit(1)


# ---------------------------------------------------------------------------
# Reference: the documented grammar as regular expressions
# ---------------------------------------------------------------------------
ASCII_WS = ' \t\n\r\x0b\x0c'
R_INT = r'[+-]?[0-9]+(?:_[0-9]+)*'
R_ELEM = r'(?:' + R_INT + r')?'
R_SLICE = r'\[(?:{i}|{e}:{e}|{e}:{e}:{e})\]'.format(i=R_INT, e=R_ELEM)
R_IDCH = r'[^@\[\]:/.>]'
R_COMP = r'(?P<sep>[/.>])(?P<id>' + R_IDCH + r'+)(?P<slc>' + R_SLICE + r')?'
R_COMP0 = r'(?P<sep>)(?P<id>[0-9A-Z]' + R_IDCH + r'*)(?P<slc>' + R_SLICE + r')?'
R_FULL = re.compile(
    r'^(?:@(?P<subset>{s})(?=[/>])|(?=[/>0-9A-Z]))(?:{c}|{c0})(?:{c})*$'.format(
        s=R_SLICE, c=R_COMP.replace('?P<sep>', '?:').replace('?P<id>', '?:').replace('?P<slc>', '?:'),
        c0=R_COMP0.replace('?P<sep>', '?:').replace('?P<id>', '?:').replace('?P<slc>', '?:')))
R_COMP_C = re.compile(R_COMP)
R_COMP0_C = re.compile(R_COMP0)


def ref_slice(text, default):
    if text is None:
        return default
    parts = [None if p == '' else int(p) for p in text[1:-1].split(':')]
    if len(parts) > 1:
        return slice(*parts)
    n = parts[0]
    return n if n >= 0 else slice(n, (n + 1) or None, None)


def ref_parse(s, bare_all=True):
    """None if s is not in the language, else (subset_slice, [(sep, id, slice)])"""
    t = ''.join(ch for ch in s if ch not in ASCII_WS)
    m = R_FULL.match(t)
    if m is None:
        return None
    default = slice(None, None, None) if bare_all else 0
    subset = ref_slice(m.group('subset'), default)
    pos = 0 if m.group('subset') is None else 1 + len(m.group('subset'))
    comps = []
    while pos < len(t):
        cm = R_COMP_C.match(t, pos) or R_COMP0_C.match(t, pos)
        comps.append((cm.group('sep') or '>', cm.group('id'), ref_slice(cm.group('slc'), default)))
        pos = cm.end()
    return subset, comps


def same_value(a, b):
    return type(a) is type(b) and a == b


def run(parser, s):
    """Everything observable of one parse call"""
    try:
        path = parser.parse(s)
    except Exception as e:
        out = ('err', type(e), getattr(e, 'message', None), e.args, str(e),
               type(e.__context__), str(e.__context__), type(e.__cause__))
        path = None
    else:
        out = ('ok', type(path).__name__, repr(path.subset_slice),
               [(type(c).__name__, tuple(c._fields), repr(tuple(c))) for c in path.components],
               str(path), path.path_string, sorted(vars(path)))
    state = sorted((k, repr(v)) for k, v in vars(parser).items() if k != 'node_path')
    np = vars(parser).get('node_path')
    state.append(('node_path', None if np is None else (np.path_string, repr(np.subset_slice), repr(np.components))))
    return out, state, path


def check_against_reference(parser, s, bare_all):
    out, _, path = run(parser, s)
    expected = ref_parse(s, bare_all)
    if expected is None:
        check(out[0] == 'err' and out[1] is PathExprParsingError, 'should be rejected with PathExprParsingError', repr(s), out)
        return False
    check(out[0] == 'ok', 'should be accepted', repr(s), out)
    check(same_value(path.subset_slice, expected[0]), 'subset slice', repr(s), path.subset_slice, expected[0])
    check(len(path.components) == len(expected[1]), 'number of components', repr(s))
    for c, (sep, id_, slc) in zip(path.components, expected[1]):
        check(type(c) is dq.PathComponent and c.separator == sep and c.id == id_ and same_value(c.slice, slc),
              'component', repr(s), c, (sep, id_, slc))
    # print / re-parse
    again = parser.parse(str(path))
    check(repr((again.subset_slice, again.components)) == repr((path.subset_slice, path.components)),
          'print / parse round trip', repr(s), str(path))
    check(str(again) == str(path), 'printing is idempotent', repr(s))
    return True


# ---------------------------------------------------------------------------
# A. frozen table
# ---------------------------------------------------------------------------
ALL = slice(None, None, None)
UC = 'unexpected char: {!r} at position {}'.format
END = 'unexpected end of path expression'

# input, bare_id_matches_all, expected
#   expected = message of the PathExprParsingError, or (subset_slice, components)
TABLE = [
    # prologue
    ('', True, 'Empty path expression'),
    (' \t\n', True, 'Empty path expression'),
    ('a', True, UC('a', 0)),
    ('  .A', True, UC('.', 2)),
    ('[', True, UC('[', 0)),
    (']A', True, UC(']', 0)),
    (':A', True, UC(':', 0)),
    ('-1', True, UC('-', 0)),
    # whitespace is dispatched and ignored in every state
    (' A [ 1 ] ', True, (ALL, [('>', 'A', 1)])),
    ('\tA', True, (ALL, [('>', 'A', ALL)])),
    ('0\n0\r1\x0b0\x0c01', True, (ALL, [('>', '001001', ALL)])),
    (' @ [ 1 : 2 ] / A . B ', True, (slice(1, 2, None), [('/', 'A', ALL), ('.', 'B', ALL)])),
    ('@ [ - 1 ] > A [ : : - 1 ]', True, (slice(-1, None, None), [('>', 'A', slice(None, None, -1))])),
    # '@'
    ('@', True, END),
    ('@@', True, UC('@', 1)),
    ('@[@', True, UC('@', 2)),
    ('@[1@', True, UC('@', 3)),
    ('@[1:@', True, UC('@', 4)),
    ('@[1]@', True, UC('@', 4)),
    ('A@', True, UC('@', 1)),
    ('/@', True, UC('@', 1)),
    ('A[@', True, UC('@', 2)),
    ('A[1:@', True, UC('@', 4)),
    ('A[1]@', True, UC('@', 4)),
    ('@[1]/A@[2]', True, UC('@', 6)),
    # '['
    ('@[', True, END),
    ('@[[', True, UC('[', 2)),
    ('@[1:[', True, UC('[', 4)),
    ('@[1][', True, UC('[', 4)),
    ('/[', True, 'empty ID at position 1'),
    ('/[0]', True, 'empty ID at position 1'),
    ('A.[1]', True, 'empty ID at position 2'),
    ('A[', True, END),
    ('A[[', True, UC('[', 2)),
    ('A[1:[', True, UC('[', 4)),
    ('A[1][', True, UC('[', 4)),
    # ':' and ']'
    ('A]', True, UC(']', 1)),
    ('A:', True, UC(':', 1)),
    ('@]', True, UC(']', 1)),
    ('@:', True, UC(':', 1)),
    ('@[]', True, UC(']', 2)),
    ('A[]', True, UC(']', 2)),
    ('A[1]]', True, UC(']', 4)),
    ('A[1]:', True, UC(':', 4)),
    ('@[1]]', True, UC(']', 4)),
    ('@[1]:', True, UC(':', 4)),
    ('A[:]', True, (ALL, [('>', 'A', slice(None, None, None))])),
    ('A[::]', True, (ALL, [('>', 'A', slice(None, None, None))])),
    ('A[1:2:3]', True, (ALL, [('>', 'A', slice(1, 2, 3))])),
    ('A[:::]', True, 'slice can have at most three indices'),
    ('A[1:2:3:4]/B', True, 'slice can have at most three indices'),
    ('@[1:2:3:4]/A', True, 'slice can have at most three indices'),
    ('A[x]', True, "invalid slice syntax: 'x' at position 3"),
    ('A[1:x]', True, "invalid slice syntax: 'x' at position 5"),
    ('@[1x:]/A', True, "invalid slice syntax: '1x' at position 4"),
    ('A[--1]', True, "invalid slice syntax: '--1' at position 5"),
    ('A[+1]', True, (ALL, [('>', 'A', 1)])),
    ('A[1_0]', True, (ALL, [('>', 'A', 10)])),
    ('A[-1]', True, (ALL, [('>', 'A', slice(-1, None, None))])),
    ('A[-2]', True, (ALL, [('>', 'A', slice(-2, -1, None))])),
    # separators
    ('/', True, 'empty ID at position 1'),
    ('>', True, 'empty ID at position 1'),
    ('//', True, 'empty ID at position 1'),
    ('/A/', True, 'empty ID at position 3'),
    ('A..B', True, 'empty ID at position 2'),
    ('@/', True, UC('/', 1)),
    ('@.', True, UC('.', 1)),
    ('@[/', True, UC('/', 2)),
    ('@[1>', True, UC('>', 3)),
    ('@[1:.', True, UC('.', 4)),
    ('@[:].001001', True, UC('.', 4)),
    ('@[1].A', True, UC('.', 4)),
    ('@[1]/', True, 'empty ID at position 5'),
    ('@[1]//A', True, 'empty ID at position 5'),
    ('A[/', True, UC('/', 2)),
    ('A[1:>', True, UC('>', 4)),
    ('A[1.5]', True, UC('.', 3)),
    ('/001001', True, (ALL, [('/', '001001', ALL)])),
    ('>001001', True, (ALL, [('>', '001001', ALL)])),
    ('001001', True, (ALL, [('>', '001001', ALL)])),
    ('@[1]/A', True, (1, [('/', 'A', ALL)])),
    ('@[0] > 020012', True, (0, [('>', '020012', ALL)])),
    ('@[1]>A.B[2]/C[::-1]', True, (1, [('>', 'A', ALL), ('.', 'B', 2), ('/', 'C', slice(None, None, -1))])),
    ('/ 103002 > 010009[2] . A03101', True, (ALL, [('/', '103002', ALL), ('>', '010009', 2), ('.', 'A03101', ALL)])),
    ('A[1]/B[2].C[3]>D[4]', True, (ALL, [('>', 'A', 1), ('/', 'B', 2), ('.', 'C', 3), ('>', 'D', 4)])),
    # any other character
    ('/a-b', True, (ALL, [('/', 'a-b', ALL)])),
    ('>section_length', True, (ALL, [('>', 'section_length', ALL)])),
    ('section_length', True, UC('s', 0)),
    ('A*?', True, (ALL, [('>', 'A*?', ALL)])),
    ('@A', True, UC('A', 1)),
    ('@[1]A', True, UC('A', 4)),
    ('@[1:2]x/A', True, UC('x', 6)),
    ('A[1]B', True, UC('B', 4)),
    ('A[1] 2', True, UC('2', 5)),
    ('@[1', True, UC('1', 2)),
    ('A[1', True, UC('1', 2)),
    ('A[:1', True, UC('1', 3)),
    ('A[ 1 2', True, UC('1', 4)),   # position computed from the length of the token, as before
    ('A[1:', True, END),
    ('@[:', True, END),
    ('@[1]', True, END),
    ('@[1:]', True, END),
    ('@[:]/A[', True, END),
    # bare_id_matches_all=False
    ('A', False, (0, [('>', 'A', 0)])),
    ('/A.B[:]', False, (0, [('/', 'A', 0), ('.', 'B', slice(None, None, None))])),
    ('@[2]/A', False, (2, [('/', 'A', 0)])),
    ('@[::]/A[3]>B', False, (slice(None, None, None), [('/', 'A', 3), ('>', 'B', 0)])),
    ('A[]', False, UC(']', 2)),
]

# input -> attributes of the (fresh) parser afterwards, node_path excepted
STATES = [
    ('', {'bare_id_matches_all': True}),
    ('a', {'bare_id_matches_all': True}),
    ('@', dict(bare_id_matches_all=True, pos=1, current_state='@', current_token='', current_id=None,
               current_separator=None, current_slice_elements=[])),
    ('@A', dict(bare_id_matches_all=True, pos=1, current_state='@', current_token='', current_id=None,
                current_separator=None, current_slice_elements=[])),
    ('A@', dict(bare_id_matches_all=True, pos=1, current_state='i', current_token='A', current_id=None,
                current_separator='>', current_slice_elements=[])),
    ('/[', dict(bare_id_matches_all=True, pos=1, current_state='[', current_token='', current_id=None,
                current_separator='/', current_slice_elements=[])),
    ('A[1][', dict(bare_id_matches_all=True, pos=4, current_state=']', current_token='', current_id='A',
                   current_separator='>', current_slice_elements=[1])),
    ('A[:1', dict(bare_id_matches_all=True, pos=4, current_state=':', current_token='1', current_id='A',
                  current_separator='>', current_slice_elements=[None])),
    ('A[x]', dict(bare_id_matches_all=True, pos=3, current_state='[', current_token='x', current_id='A',
                  current_separator='>', current_slice_elements=[])),
    ('@[1].A', dict(bare_id_matches_all=True, pos=4, current_state='@]', current_token='', current_id=None,
                    current_separator=None, current_slice_elements=[1])),
    ('@[1]>A.B[2]/C[::-1]', dict(bare_id_matches_all=True, pos=19, current_state=']', current_token='',
                                 current_id='C', current_separator='/', current_slice_elements=[])),
    (' 0 0 ', dict(bare_id_matches_all=True, pos=5, current_state='i', current_token='', current_id='00',
                   current_separator='>', current_slice_elements=[])),
]


def part_a():
    shared = {True: NodePathParser(), False: NodePathParser(bare_id_matches_all=False)}
    check(vars(shared[True]) == {'bare_id_matches_all': True}, 'constructor leaves only the option')
    check(vars(NodePathParser(False)) == {'bare_id_matches_all': False}, 'positional option')
    for s, bare_all, expected in TABLE:
        # a fresh parser and one that has been used (also after failures) behave alike
        for parser in (NodePathParser(bare_id_matches_all=bare_all), shared[bare_all]):
            out, _, path = run(parser, s)
            if isinstance(expected, str):
                check(out[0] == 'err', 'should fail', repr(s), out)
                check(out[1] is PathExprParsingError, 'exception type', repr(s), out)
                check(out[2] == expected and out[3] == (expected,) and out[4] == 'Error: ' + expected,
                      'message', repr(s), out, expected)
                if expected.startswith('invalid slice'):
                    check(out[5] is ValueError and out[7] is type(None), 'chained ValueError', repr(s), out)
                else:
                    check(out[5] is type(None) and out[7] is type(None), 'no chained exception', repr(s), out)
            else:
                check(out[0] == 'ok', 'should parse', repr(s), out)
                check(type(path) is NodePath and path.path_string == s, 'NodePath', repr(s))
                check(same_value(path.subset_slice, expected[0]), 'subset', repr(s), path.subset_slice)
                check([tuple(c) for c in path.components] == expected[1], 'components', repr(s), path.components)
                check(all(type(c) is PathComponent and same_value(c.slice, e[2])
                          for c, e in zip(path.components, expected[1])), 'component types', repr(s))
                check(parser.node_path is path, 'node_path attribute is the result')
            # the table itself agrees with the reference grammar
            if all(ch in string.printable for ch in s):
                check((ref_parse(s, bare_all) is None) == isinstance(expected, str), 'table vs reference', repr(s))
    for s, expected in STATES:
        parser = NodePathParser()
        out, _, path = run(parser, s)
        got = dict(vars(parser))
        np = got.pop('node_path', None)
        check(got == expected, 'parser attributes after', repr(s), got, expected)
        check((np is None) == (len(expected) == 1), 'node_path attribute', repr(s))
        check(all(type(got[k]) is type(v) for k, v in expected.items()), 'attribute types', repr(s))
    print('A. frozen table: {} inputs, {} parser states'.format(len(TABLE), len(STATES)))


# ---------------------------------------------------------------------------
# B. exhaustive
# ---------------------------------------------------------------------------
ALPHABET = '@[]:/.>-01Aa '


def all_strings(max_len):
    for n in range(max_len + 1):
        for t in itertools.product(ALPHABET, repeat=n):
            yield ''.join(t)


def part_b():
    n_acc = n_all = 0
    parser = NodePathParser()
    for s in all_strings(4 if QUICK else 5):
        n_all += 1
        n_acc += check_against_reference(parser, s, True)
    parser = NodePathParser(bare_id_matches_all=False)
    for s in all_strings(3 if QUICK else 4):
        n_all += 1
        n_acc += check_against_reference(parser, s, False)
    print('B. exhaustive vs reference grammar: {} strings, {} accepted'.format(n_all, n_acc))


# ---------------------------------------------------------------------------
# C. random long expressions and their mutations
# ---------------------------------------------------------------------------
MUTATION_CHARS = '@[]:/.>-+_019AZaz \t\n*'


def random_expression(rnd):
    def ws():
        return rnd.choice(['', '', '', ' ', '  ', '\t', '\n'])

    def integer():
        return rnd.choice(['', '', '-', '+']) + str(rnd.choice([0, 1, 2, 7, 10, 123]))

    def slc():
        k = rnd.choice([1, 2, 2, 3])
        if k == 1:
            elements = [integer()]
        else:
            elements = [rnd.choice(['', integer()]) for _ in range(k)]
        return '[' + ws() + (ws() + ':' + ws()).join(elements) + ws() + ']'

    def ident(first):
        head = rnd.choice('0123A') if first else rnd.choice('0123Aa_-')
        return head + ''.join(rnd.choice('0123456789Aa_') for _ in range(rnd.randint(0, 5)))

    parts = [ws()]
    explicit = True
    if rnd.random() < 0.5:
        parts += ['@', ws(), slc(), ws(), rnd.choice('/>')]
    elif rnd.random() < 0.6:
        parts += [rnd.choice('/>')]
    else:
        explicit = False
    for i in range(rnd.randint(1, 8)):
        if i:
            parts += [ws(), rnd.choice('/.>')]
        parts += [ws(), ident(first=(i == 0 and not explicit))]
        if rnd.random() < 0.5:
            parts += [ws(), slc()]
    parts.append(ws())
    return ''.join(parts)


def mutations(rnd, s, n):
    for _ in range(n):
        i = rnd.randrange(len(s) + 1)
        kind = rnd.choice('idr')
        c = rnd.choice(MUTATION_CHARS)
        if kind == 'i':
            yield s[:i] + c + s[i:]
        elif kind == 'd' and i < len(s):
            yield s[:i] + s[i + 1:]
        elif i < len(s):
            yield s[:i] + c + s[i + 1:]


def random_inputs():
    rnd = random.Random(20150715)
    for _ in range(150 if QUICK else 600):
        s = random_expression(rnd)
        yield s, True
        for m in mutations(rnd, s, 25):
            yield m, False


def part_c():
    parsers = {True: NodePathParser(), False: NodePathParser(bare_id_matches_all=False)}
    n_acc = n_all = 0
    for i, (s, pristine) in enumerate(random_inputs()):
        bare_all = i % 3 != 0
        ok = check_against_reference(parsers[bare_all], s, bare_all)
        if pristine:
            check(ok, 'grammar-derived expression should be accepted', repr(s))
        n_all += 1
        n_acc += ok
    print('C. random expressions and mutations vs reference: {} strings, {} accepted'.format(n_all, n_acc))


# ---------------------------------------------------------------------------
# D. working copy against the source of HEAD
# ---------------------------------------------------------------------------
def load_head_module():
    try:
        source = subprocess.check_output(['git', 'show', 'HEAD:pybufrkit/dataquery.py'],
                                         stderr=subprocess.STDOUT).decode('utf-8')
    except Exception as e:
        print('D. skipped (cannot read HEAD: {})'.format(e))
        return None
    mod = types.ModuleType('pybufrkit_dataquery_at_head')
    mod.__file__ = os.path.join(os.getcwd(), 'pybufrkit', 'dataquery.py')
    exec(compile(source, 'HEAD:pybufrkit/dataquery.py', 'exec'), mod.__dict__)
    return mod


def part_d():
    head = load_head_module()
    if head is None:
        return
    inputs = [s for s, _, _ in TABLE] + [s for s, _ in STATES]
    inputs += ['\xa0A', '\x1cA', 'A\u3000B', '/\u0661[\u0661]', 'A[\u0661\u0662]', '\u0661', 'A[\xa01]', '/\xe9']
    inputs += list(all_strings(3 if QUICK else 4))
    inputs += [s for s, _ in random_inputs()]
    n = 0
    for bare_all in (True, False):
        new_p, old_p = NodePathParser(bare_all), head.NodePathParser(bare_all)
        for s in inputs:
            new_out, new_state, _ = run(new_p, s)
            old_out, old_state, _ = run(old_p, s)
            check(new_out == old_out, 'outcome differs from HEAD', repr(s), new_out, old_out)
            check(new_state == old_state, 'parser attributes differ from HEAD', repr(s), new_state, old_state)
            n += 1
    # inputs that are not strings fail the same way
    for bad in (None, 5, b'/001001', b'', ['/', 'A'], ('@',)):
        outs = []
        for mod in (dq, head):
            try:
                mod.NodePathParser().parse(bad)
                outs.append('ok')
            except Exception as e:
                outs.append((type(e), str(e)))
        check(outs[0] == outs[1], 'non-string input', repr(bad), outs)
    print('D. working copy vs HEAD source: {} parses identical in every observable'.format(n))


if __name__ == '__main__':
    part_a()
    part_b()
    part_c()
    part_d()
    print('OK ({} checks)'.format(n_checks))
