import os, sys
sys.path.insert(0, os.getcwd())

import decimal
import logging

logging.disable(logging.CRITICAL)

from pybufrkit.encoder import Encoder

# ---------------------------------------------------------------------------
# An independent FM-94 writer. It knows nothing of pybufrkit: bits are kept
# as a python string of '0'/'1' and the widths/scales/reference values of the
# elements are given by hand by each test case (copied from WMO table B v25).
# ---------------------------------------------------------------------------
NUM = 'n'   # (NUM, nbits, scale, refval)
CODE = 'c'  # (CODE, nbits)
STR = 's'   # (STR, nbytes)


class RefBits(object):
    def __init__(self):
        self.s = ''

    def uint(self, v, n):
        assert isinstance(v, int) and 0 <= v < 2 ** n, (v, n)
        if n:
            self.s += format(v, '0{}b'.format(n))

    def raw(self, bs):
        for b in bytearray(bs):
            self.uint(b, 8)

    def pad_to(self, nbits_multiple):
        while len(self.s) % nbits_multiple:
            self.s += '0'

    def tobytes(self):
        assert len(self.s) % 8 == 0
        return bytes(bytearray(int(self.s[i:i + 8], 2) for i in range(0, len(self.s), 8)))


def ones(n):
    return 2 ** n - 1


def raw_of(spec, v):
    """Raw unsigned integer of a numeric / code element (None = missing)."""
    if v is None:
        return None
    if spec[0] == CODE:
        return int(v)
    _, nbits, scale, ref = spec
    d = decimal.Decimal(repr(v)).scaleb(scale).quantize(decimal.Decimal(1), rounding=decimal.ROUND_HALF_EVEN)
    return int(d) - ref


def str_field(v, nbytes):
    if v is None:
        return b'\xff' * nbytes
    b = v.encode('latin-1')[:nbytes]
    return b + b' ' * (nbytes - len(b))


def data_uncompressed(subsets):
    """subsets: list (one per subset) of lists of (spec, value)"""
    out = RefBits()
    for fields in subsets:
        for spec, v in fields:
            if spec[0] == STR:
                out.raw(str_field(v, spec[1]))
            else:
                r = raw_of(spec, v)
                out.uint(ones(spec[1]) if r is None else r, spec[1])
    return out.s


def diff_width(maxdiff):
    """Smallest n such that maxdiff + 1 is strictly below the all-ones of n bits."""
    n = 0
    while not (2 ** n - 1 > maxdiff + 1):
        n += 1
    return n


def data_compressed(columns):
    """columns: list of (spec, [value of subset 0, value of subset 1, ...])"""
    out = RefBits()
    for spec, values in columns:
        if spec[0] == STR:
            nbytes = spec[1]
            fields = [str_field(v, nbytes) for v in values]
            if all(v == values[0] for v in values):
                out.raw(fields[0])
                out.uint(0, 6)
            else:
                out.raw(b'\x00' * nbytes)
                out.uint(nbytes, 6)
                for f in fields:
                    out.raw(f)
            continue
        nbits = spec[1]
        raws = [raw_of(spec, v) for v in values]
        present = [r for r in raws if r is not None]
        if all(v == values[0] for v in values):
            out.uint(raws[0] if present else ones(nbits), nbits)
            out.uint(0, 6)
        else:
            mn, mx = min(present), max(present)
            w = diff_width(mx - mn)
            out.uint(mn, nbits)
            out.uint(w, 6)
            for r in raws:
                out.uint(ones(w) if r is None else r - mn, w)
    return out.s


def ref_message(edition, descriptors, n_subsets, compressed, data_bits):
    even = edition <= 3
    # section 1
    s1 = RefBits()
    if edition == 4:
        s1.uint(22, 24); s1.uint(0, 8); s1.uint(98, 16); s1.uint(0, 16); s1.uint(0, 8)
        s1.uint(0, 8)  # no section 2
        s1.uint(2, 8); s1.uint(4, 8); s1.uint(0, 8); s1.uint(25, 8); s1.uint(0, 8)
        s1.uint(2020, 16); s1.uint(1, 8); s1.uint(2, 8); s1.uint(3, 8); s1.uint(4, 8); s1.uint(5, 8)
    else:
        s1.uint(18, 24); s1.uint(0, 8); s1.uint(0, 8); s1.uint(98, 8); s1.uint(0, 8)
        s1.uint(0, 8)  # no section 2
        s1.uint(2, 8); s1.uint(0, 8); s1.uint(25, 8); s1.uint(0, 8)
        s1.uint(20, 8); s1.uint(1, 8); s1.uint(2, 8); s1.uint(3, 8); s1.uint(4, 8); s1.uint(0, 8)
    # section 3
    n3 = 7 + 2 * len(descriptors)
    if even and n3 % 2:
        n3 += 1
    s3 = RefBits()
    s3.uint(n3, 24); s3.uint(0, 8); s3.uint(n_subsets, 16)
    s3.uint(0x80 | (0x40 if compressed else 0), 8)
    for d in descriptors:
        f, x, y = d // 100000, d // 1000 % 100, d % 1000
        s3.uint(f, 2); s3.uint(x, 6); s3.uint(y, 8)
    s3.pad_to(16 if even else 8)
    assert len(s3.s) == 8 * n3
    # section 4
    nbits4 = 32 + len(data_bits)
    n4 = (nbits4 + 7) // 8
    if even and n4 % 2:
        n4 += 1
    s4 = RefBits()
    s4.uint(n4, 24); s4.uint(0, 8)
    s4.s += data_bits
    s4.s += '0' * (8 * n4 - len(s4.s))
    body = s1.tobytes() + s3.tobytes() + s4.tobytes() + b'7777'
    s0 = RefBits()
    s0.raw(b'BUFR'); s0.uint(8 + len(body), 24); s0.uint(edition, 8)
    return s0.tobytes() + body


def make_json(edition, descriptors, compressed, value_lists):
    if edition == 4:
        s1 = [0, 0, 98, 0, 0, False, '0000000', 2, 4, 0, 25, 0, 2020, 1, 2, 3, 4, 5]
    else:
        s1 = [0, 0, 0, 98, 0, False, '0000000', 2, 0, 25, 0, 20, 1, 2, 3, 4, 0]
    return [
        ['BUFR', 0, edition],
        s1,
        [0, '00000000', len(value_lists), True, compressed, '000000', list(descriptors)],
        [0, '00000000', [list(vs) for vs in value_lists]],
        ['7777'],
    ]


def encode(edition, descriptors, compressed, value_lists, **kw):
    # deep-copied input: the encoder must be free to consume its argument
    import copy
    js = copy.deepcopy(make_json(edition, descriptors, compressed, value_lists))
    return Encoder(**kw).process(js).serialized_bytes


def check_uncompressed(name, edition, descriptors, subsets):
    expected = ref_message(edition, descriptors, len(subsets), False, data_uncompressed(subsets))
    value_lists = [[v for _, v in fields] for fields in subsets]
    for kw in ({}, {'compiled_template_cache_max': 10}):
        got = encode(edition, descriptors, False, value_lists, **kw)
        assert got == expected, '{} {}: {!r} != {!r}'.format(name, kw, got, expected)
    return expected


def check_compressed(name, edition, descriptors, columns):
    n_subsets = len(columns[0][1])
    expected = ref_message(edition, descriptors, n_subsets, True, data_compressed(columns))
    value_lists = [[values[i] for _, values in columns] for i in range(n_subsets)]
    for kw in ({}, {'compiled_template_cache_max': 10}):
        got = encode(edition, descriptors, True, value_lists, **kw)
        assert got == expected, '{} {}: {!r} != {!r}'.format(name, kw, got, expected)
    return expected


def expect_raises(name, exc_types, func, *args, **kw):
    try:
        func(*args, **kw)
    except exc_types as e:
        return e
    except BaseException as e:
        raise AssertionError('{}: expected {} but got {!r}'.format(name, exc_types, e))
    raise AssertionError('{}: expected {} but nothing was raised'.format(name, exc_types))


# Elements used by the cases (WMO table B version 25)
E_001001 = (NUM, 7, 0, 0)           # WMO block number
E_001002 = (NUM, 10, 0, 0)          # WMO station number
E_001015 = (STR, 20)                # station name
E_001008 = (STR, 8)                 # aircraft registration
E_012001 = (NUM, 12, 1, 0)          # temperature, scale 1
E_012101 = (NUM, 16, 2, 0)          # temperature, scale 2
E_005001 = (NUM, 25, 5, -9000000)   # latitude high accuracy
E_005002 = (NUM, 15, 2, -9000)      # latitude coarse
E_010004 = (NUM, 14, -1, 0)         # pressure, scale -1
E_020003 = (CODE, 9)                # present weather
E_008042 = (CODE, 18)               # flag table
E_002001 = (CODE, 2)                # type of station
E_031001 = (NUM, 8, 0, 0)           # delayed replication factor

# sha256 of Encoder().process(<tests/data/NAME.json>).serialized_bytes on the unmodified tree
GOLDEN = {
    '207003': '5ca135c4feb83a98a10e1916ad4e9458bfcffc189269eb4f9682a1401edb9bb5',
    'ISMD01_OKPR': 'fcf686e370b355b6da02c5a1138fb0e6bda396fd7f30a17501ce9ee2fbaeebb1',
    'IUSK73_AMMC_182300': 'b310b43d19a21231a91a4f91e0058626a6a6c8f61ed377f4c2fe26d8d19d7c67',
    'amv2_87': 'fa23bfbdedb58cb9697cb2b3de4322a969e6a50a2903a4e7a449f8a1fdd0b13a',
    'asr3_190': '8e182fea106097b716515b3ae9d679df0c1b7968c45b624f291cd92fd0adcd0c',
    'b002_95': '16a2909efaf7d307e25c80e3547c70410bab4c988afa477000d44ce1ac3da03c',
    'b005_89': 'ee42e73b632dbdd00539686c3f4d83c0299cde734c906ad80c96a6e04cd3000d',
    'g2nd_208': 'a30981fcb19b5b238853d0b25cbece4866bc9eefcf83f2b921a825f9a369d487',
    'jaso_214': 'e4011e8414fda39eae62e7dc2514e96035e298ccd7655ecf6f98b587e3194b27',
    'mpco_217': 'c192862b5ab5b1050cceae45d81c8756465fa8618e61f1c8965e60426a325873',
    'profiler_european': '25d982b024a8a3105a81dca743507677da4dc612f008a67605fed8199ddff97f',
    'rado_250': '59439d1ac82290e7636dbcff1312cfcea3f26027978220e0f8a55a8b89274232',
    'uegabe': '9b5f012a9b22496125859baf778b1dafa4fd17ec40d673d5d8280c041b94086f',
}
# For these two the encoder reproduces the original real-world file byte for byte
SAME_AS_BUFR_FILE = ('IUSK73_AMMC_182300', 'rado_250')


def check_test_data_files(names=None, **kw):
    import hashlib
    for name in sorted(names or GOLDEN):
        with open(os.path.join('tests', 'data', name + '.json')) as f:
            js = f.read()
        out = Encoder(**kw).process(js).serialized_bytes
        assert hashlib.sha256(out).hexdigest() == GOLDEN[name], name
        if name in SAME_AS_BUFR_FILE:
            with open(os.path.join('tests', 'data', name + '.bufr'), 'rb') as f:
                assert out == f.read(), name

# ---------------------------------------------------------------------------
# Refactor 3: nbits_for_uint and Encoder.process_codeflag_compressed
# ---------------------------------------------------------------------------
import copy
import bitstring
from pybufrkit.bitops import get_bit_writer
from pybufrkit.coder import CoderState
from pybufrkit.encoder import nbits_for_uint

# ---- nbits_for_uint: the smallest width whose all-ones value is above x ---------------
for x in list(range(0, 5000)) + [2 ** k + d for k in range(12, 70) for d in (-2, -1, 0, 1)]:
    n = nbits_for_uint(x)
    assert type(n) is int
    if x == 0:
        assert n == 1            # bin(0) is one digit
    else:
        assert 2 ** n - 1 > x >= 2 ** (n - 1) - 1, (x, n)
        assert n == diff_width(x - 1), (x, n)
assert [nbits_for_uint(x) for x in (0, 1, 2, 3, 4, 6, 7, 8, 254, 255, 256)] == [1, 2, 2, 3, 3, 3, 4, 4, 8, 9, 9]
assert nbits_for_uint(True) == 2 and nbits_for_uint(False) == 1
# negative numbers never come out of max - min + 1; the digits string then starts with 'b'
assert [nbits_for_uint(x) for x in (-1, -2, -3, -7, -8)] == [2, 3, 3, 4, 5]
for bad in (1.0, '3', None, [1]):
    expect_raises('nbits_for_uint({!r})'.format(bad), TypeError, nbits_for_uint, bad)

# ---- whole messages --------------------------------------------------------------------
E_031021 = (CODE, 6)   # associated field significance
check_compressed('one subset', 4, [20003, 8042, 2001],
    [(E_020003, [3]), (E_008042, [None]), (E_002001, [2])])
check_compressed('code / flag columns', 4, [20003, 20003, 20003, 20003, 8042, 8042, 2001, 2001, 2001, 20003],
    [(E_020003, [100, 100, 100, 100]),                 # equal: width 0
     (E_020003, [None, None, None, None]),             # all missing: all ones, width 0
     (E_020003, [100, None, 100, 100]),                # missing next to equal ones: width 2, differences 0 / 3
     (E_020003, [0, 510, None, 255]),                  # range 510: 511 is all ones -> width 10
     (E_008042, [1, 2 ** 18 - 2, 4, 2 ** 17]),
     (E_008042, [None, None, 5, None]),
     (E_002001, [0, 1, 2, 0]),                         # range 2 -> 3 is all ones -> width 3
     (E_002001, [0, 1, 0, None]),                      # range 1 -> width 2
     (E_002001, [2, 2, 2, 2]),
     (E_020003, [7, 8, 9, 13])])                       # range 6 -> 7 is all ones -> width 4
check_compressed('ed3', 3, [2001, 20003], [(E_002001, [1, None, 0]), (E_020003, [None, 4, 4])])
check_compressed('two subsets', 4, [20003, 20003, 20003],
    [(E_020003, [None, 0]), (E_020003, [510, None]), (E_020003, [5, 5])])
# associated fields (204 YYY) are written like codes
check_compressed('associated field', 4, [204004, 31021, 12001, 204000, 12001],
    [(E_031021, [1, 1, 1]), ((CODE, 4), [0, None, 14]), (E_012001, [273.2, 273.2, 273.2]), (E_012001, [1.0, 2.0, None])])
check_uncompressed('associated field', 4, [204004, 31021, 12001, 204000, 12001],
    [[(E_031021, 1), ((CODE, 4), 14), (E_012001, 273.2), (E_012001, 1.0)],
     [(E_031021, None), ((CODE, 4), None), (E_012001, None), (E_012001, None)]])
# a local descriptor skipped by 206 YYY is written like a code of YYY bits
check_compressed('206', 4, [206011, 1192, 2001],
    [((CODE, 11), [2046, 0, None]), (E_002001, [1, 1, 1])])
check_uncompressed('codes uncompressed', 4, [20003, 8042, 2001],
    [[(E_020003, 510), (E_008042, 0), (E_002001, None)], [(E_020003, None), (E_008042, 2 ** 18 - 2), (E_002001, 2)]])
# ---- the input is not modified -----------------------------------------------------------
js = make_json(4, [20003, 2001], True, [[1, None], [None, None], [510, None]])
before = copy.deepcopy(js[3][2])
msg = Encoder().process(js)
assert js[3][2] == before
assert msg.template_data.value.decoded_values_all_subsets == before

# ---- direct calls -------------------------------------------------------------------------
D = object()


class RecordingWriter(object):
    def __init__(self):
        self.calls = []

    def write_uint(self, value, nbits):
        self.calls.append((value, nbits))


def direct(values, nbits, writer=None):
    rows = [[v] for v in values]
    state = CoderState(True, len(values), rows)
    w = writer or RecordingWriter()
    assert Encoder().process_codeflag_compressed(state, w, D, nbits) is None
    assert state.idx_value == 1 and state.decoded_descriptors == [D]
    assert rows == [[v] for v in values]
    return w.calls


assert direct([None], 9) == [(511, 9), (0, 6)]
assert direct([None, None, None], 9) == [(511, 9), (0, 6)]
assert direct([4], 9) == [(4, 9), (0, 6)]
assert direct([4, 4], 9) == [(4, 9), (0, 6)]
assert direct([4, 4.0], 9) == [(4, 9), (0, 6)]              # 4 == 4.0: equal, the first is written
assert direct([4, None], 9) == [(4, 9), (2, 6), (0, 2), (3, 2)]
assert direct([None, 4, 4], 9) == [(4, 9), (2, 6), (3, 2), (0, 2), (0, 2)]
assert direct([5, 4], 9) == [(4, 9), (2, 6), (1, 2), (0, 2)]
assert direct([6, 4, None], 9) == [(4, 9), (3, 6), (2, 3), (0, 3), (7, 3)]
assert direct([0, 510], 9) == [(0, 9), (10, 6), (0, 10), (510, 10)]
assert direct([0, 509], 9) == [(0, 9), (9, 6), (0, 9), (509, 9)]
assert direct([True, 3], 9) == [(1, 9), (3, 6), (0, 3), (2, 3)]
assert direct([None, None], 64) == [(2 ** 64 - 1, 64), (0, 6)]
assert direct(['a', 'a'], 9) == [('a', 9), (0, 6)]            # garbage is handed to the writer as it is

# ---- error cases ---------------------------------------------------------------------------
# nothing is written when working out the differences fails
for values, exc in (([1.0, 2], TypeError),        # bin() of a float range
                    (['a', 'b'], TypeError),      # str - str
                    (['a', 1], TypeError),        # str > int
                    ([[1], [2]], TypeError),
                    ([0, 2 ** 70, None], IndexError)):   # no missing value known for a width of 71 bits
    w = get_bit_writer()
    st = CoderState(True, len(values), [[v] for v in values])
    expect_raises(repr(values), exc, Encoder().process_codeflag_compressed, st, w, D, 9)
    assert w.get_pos() == 0, values
    assert st.idx_value == 1 and st.decoded_descriptors == [D]
# the writer refuses: the minimum is written, the width is not
w = get_bit_writer()
expect_raises('width 71', bitstring.CreationError, Encoder().process_codeflag_compressed,
              CoderState(True, 2, [[0], [2 ** 70]]), w, D, 9)
assert w.get_pos() == 9
expect_raises('all missing, 65 bits', IndexError, direct, [None, None], 65)
assert direct([3, 3], 65) == [(3, 65), (0, 6)]
for compressed in (True,):   # (uncompressed codes are another function)
    expect_raises('too large', bitstring.CreationError, encode, 4, [2001], compressed, [[4], [4]])
    expect_raises('too large, varying', bitstring.CreationError, encode, 4, [2001], compressed, [[4], [5]])
    expect_raises('negative', bitstring.CreationError, encode, 4, [2001], compressed, [[-1], [-1]])
    expect_raises('str', ValueError, encode, 4, [2001], compressed, [['x'], ['x']])
    expect_raises('float range', TypeError, encode, 4, [2001], compressed, [[1.0], [2.0]])
    expect_raises('too few values', IndexError, encode, 4, [2001, 2001], compressed, [[1], [1]])
# the all-ones code cannot be told from missing
assert encode(4, [2001], True, [[3], [3]]) == encode(4, [2001], True, [[None], [None]])

# ---- the files of the test suite -----------------------------------------------------------
check_test_data_files()
check_test_data_files(('207003', 'jaso_214', 'rado_250', 'mpco_217'), compiled_template_cache_max=5)

print('demo 3 OK')
