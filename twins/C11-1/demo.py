"""
Demo for refactor 1: the decoding / filtering body of generate_bufr_message.

Streams of 0..n messages, glued with arbitrary separators, must be split into
exactly the messages they contain (full decode and info_only), a filter keeps
exactly the messages for which it is true, and BUFR table definition messages
(data category 11) keep governing the messages that follow even when a filter
rejects them.
"""
import os, sys; sys.path.insert(0, os.getcwd())
import itertools
import random

from pybufrkit.decoder import Decoder, generate_bufr_message
from pybufrkit.errors import PyBufrKitError

DATA = os.path.join(os.getcwd(), 'tests', 'data')


def rd(name):
    with open(os.path.join(DATA, name), 'rb') as ins:
        return ins.read()


def with_section2(msg, payload):
    """Copy of msg whose optional section (added or replaced) carries payload."""
    assert msg[:4] == b'BUFR' and msg[-4:] == b'7777'
    edition = msg[7]
    s1 = 8
    l1 = int.from_bytes(msg[s1:s1 + 3], 'big')
    flag_at = s1 + (7 if edition == 3 else 9)
    s2 = s1 + l1
    l2 = int.from_bytes(msg[s2:s2 + 3], 'big') if msg[flag_at] & 0x80 else 0
    sec2 = (4 + len(payload)).to_bytes(3, 'big') + b'\x00' + payload
    body = bytearray(msg[:s2] + sec2 + msg[s2 + l2:])
    body[flag_at] |= 0x80
    body[4:7] = len(body).to_bytes(3, 'big')
    return bytes(body)


decoder = Decoder()

# ---- the pool of valid messages: editions 3 and 4, compressed or not -------------------------
ismd = [m.serialized_bytes for m in generate_bufr_message(decoder, rd('ISMD01_OKPR.bufr'), info_only=True)]
assert len(ismd) == 4
TRICK = b'BUFR\x00\x00\x10\x047777BUFR7777'
POOL = {
    'ed3_comp': rd('207003.bufr'),                       # category 21
    'ed4_plain': rd('uegabe.bufr'),                      # category 2
    'ed3_plain': rd('b002_95.bufr'),                     # category 2
    'ed4_contrived': rd('contrived.bufr'),               # category 2
    'ed4_comp': ismd[0],                                 # category 0
    'ed4_comp_b': ismd[2],                               # category 0
    'ed3_comp_sig_inside': with_section2(rd('207003.bufr'), TRICK),
    'ed4_plain_sig_inside': with_section2(rd('uegabe.bufr'), TRICK),
    'ed4_comp_sig_inside': with_section2(ismd[1], b'7777' + TRICK),
}
CATEGORY = {}
for k, v in POOL.items():
    assert v[:4] == b'BUFR' and v[-4:] == b'7777' and int.from_bytes(v[4:7], 'big') == len(v)
    CATEGORY[k] = decoder.process(v, info_only=True).data_category.value
assert POOL['ed3_comp_sig_inside'].count(b'BUFR') == 3

SEPARATORS = [
    b'',
    b'\x01\r\r\n123\r\r\nISMD01 OKPR 120000\r\r\n',      # telecommunication header
    b'\r\r\n\x03',
    b'BUF',
    b'BUBUFBU7777FR',
    bytes(b for b in range(256) if b != 0x42) * 2,        # noise that cannot hold the signature
    b'\x00' * 5,
    b'7777',
]
for sep in SEPARATORS:
    assert b'BUFR' not in sep


def build(names, seps):
    """seps has len(names)+1 entries: leading, between ..., trailing."""
    out = [seps[0]]
    for n, sp in zip(names, seps[1:]):
        out.append(POOL[n])
        out.append(sp)
    return b''.join(out)


def scan(stream, **kw):
    return [m.serialized_bytes for m in generate_bufr_message(decoder, stream, **kw)]


def has_data(m):
    """Whether the data section of the message object has been decoded."""
    try:
        return m.template_data.value is not None
    except AttributeError:
        return False


n_checks = 0

# ---- 0 messages -----------------------------------------------------------------------------
for sep in SEPARATORS:
    for info_only in (False, True):
        assert scan(sep, info_only=info_only) == []
        assert scan(sep, info_only=info_only, filter_expr='${%edition} == 4') == []
        n_checks += 2

# ---- every message alone, between every separator ----------------------------------------------
for name, sep in itertools.product(POOL, SEPARATORS):
    stream = sep + POOL[name] + sep
    for info_only in (False, True):
        assert scan(stream, info_only=info_only) == [POOL[name]], (name, sep, info_only)
        n_checks += 1

# ---- random sequences ---------------------------------------------------------------------
rnd = random.Random(11)
names_all = sorted(POOL)
FILTERS = [
    ('${%edition} == 4', lambda n: POOL[n][7] == 4),
    ('${%edition} == 3', lambda n: POOL[n][7] == 3),
    ('${%data_category} == 2', lambda n: CATEGORY[n] == 2),
    ('${%data_category} in (0, 21) and ${%is_compressed}', lambda n: CATEGORY[n] in (0, 21)),
    ('${%length} > 600', lambda n: len(POOL[n]) > 600),
    ('True', lambda n: True),
    ('0', lambda n: False),
    ('None', lambda n: False),
    ('"yes"', lambda n: True),
]
for _ in range(40):
    k = rnd.randint(1, 5)
    names = [rnd.choice(names_all) for _ in range(k)]
    seps = [rnd.choice(SEPARATORS) for _ in range(k + 1)]
    stream = build(names, seps)
    expected = [POOL[n] for n in names]
    for info_only in (False, True):
        got = scan(stream, info_only=info_only)
        assert got == expected, (names, info_only)
        assert b''.join(got) == b''.join(expected)
        n_checks += 1
    expr, pred = rnd.choice(FILTERS)
    for info_only in (False, True):
        got = scan(stream, info_only=info_only, filter_expr=expr)
        assert got == [POOL[n] for n in names if pred(n)], (names, expr, info_only)
        n_checks += 1

# every filter at least once on a fixed stream, both modes, also with continue_on_error switched on
names = ['ed3_comp', 'ed4_plain_sig_inside', 'ed4_comp', 'ed3_plain', 'ed3_comp_sig_inside', 'ed4_contrived']
stream = build(names, [SEPARATORS[1], b'', b'BUF', SEPARATORS[5], b'', b'7777', b'\r\r\n\x03'])
for (expr, pred), info_only, coe in itertools.product(FILTERS, (False, True), (False, True)):
    got = scan(stream, info_only=info_only, filter_expr=expr, continue_on_error=coe)
    assert got == [POOL[n] for n in names if pred(n)], (expr, info_only)
    n_checks += 1

# ---- what the yielded objects look like ------------------------------------------------------
msgs = list(generate_bufr_message(decoder, stream, file_path='somewhere.bufr'))
assert [m.filename for m in msgs] == ['somewhere.bufr'] * len(names)
assert all(has_data(m) for m in msgs)          # data decoded
assert all(m.template_data.value._is_wired for m in msgs)             # and wired
msgs = list(generate_bufr_message(decoder, stream, wire_template_data=False))
assert not any(m.template_data.value._is_wired for m in msgs)
msgs = list(generate_bufr_message(decoder, stream, info_only=True))
assert not any(has_data(m) for m in msgs)              # data not decoded
msgs = list(generate_bufr_message(decoder, stream, info_only=True, filter_expr='${%edition} == 3'))
assert not any(has_data(m) for m in msgs) and len(msgs) == 3
msgs = list(generate_bufr_message(decoder, stream, filter_expr='${%edition} == 3'))
assert all(has_data(m) for m in msgs) and len(msgs) == 3
# full decode of a message is the same whatever surrounds it
ref = decoder.process(POOL['ed4_plain_sig_inside']).template_data.value.decoded_values_all_subsets
got = [m for m in generate_bufr_message(decoder, stream)][1].template_data.value.decoded_values_all_subsets
assert got == ref
# positional pass-through of extra arguments (the first one is file_path)
msgs = list(generate_bufr_message(decoder, POOL['ed3_comp'], False, False, None, 'positional.bufr'))
assert [m.filename for m in msgs] == ['positional.bufr']
msgs = list(generate_bufr_message(decoder, POOL['ed3_comp'], True, False, '1', 'positional.bufr'))
assert [m.filename for m in msgs] == ['positional.bufr'] and not has_data(msgs[0])
n_checks += 9

# ---- table definition messages (category 11) of a prepbufr file ---------------------------------
prep = rd('prepbufr.bufr')
pieces, pos = [], prep.find(b'BUFR')
while pos >= 0:
    n = int.from_bytes(prep[pos + 4:pos + 7], 'big')
    pieces.append(prep[pos:pos + n])
    pos = prep.find(b'BUFR', pos + n)
assert [len(x) for x in pieces] == [4960, 76] + [9448] * 10 + [726]
head = pieces[:4] + pieces[-1:]           # two table messages, two data messages, the short last one
pstream = b'\r\r\n'.join(head)
from pybufrkit.tables import TableGroupCacheManager


def forget_tables():
    TableGroupCacheManager.invalidate()
    TableGroupCacheManager._TABLE_GROUP_CACHE.extra_b_entries.clear()
    TableGroupCacheManager._TABLE_GROUP_CACHE.extra_d_entries.clear()


# without the table messages the data messages of this file cannot be decoded at all
forget_tables()
try:
    list(generate_bufr_message(decoder, pieces[2]))
except PyBufrKitError:
    pass
else:
    raise AssertionError('the prepbufr data message should need the tables defined before it')
assert [m.serialized_bytes for m in generate_bufr_message(decoder, pieces[2], info_only=True)] == [pieces[2]]
for info_only in (False, True):
    forget_tables()
    assert scan(pstream, info_only=info_only) == head
    n_checks += 1
# the filter rejects the table messages; the data messages still decode thanks to them
forget_tables()
msgs = list(generate_bufr_message(decoder, pstream, filter_expr='${%data_category} != 11'))
assert [m.serialized_bytes for m in msgs] == head[2:]
assert all(has_data(m) for m in msgs)
forget_tables()
msgs = list(generate_bufr_message(decoder, pstream, filter_expr='${%data_category} == 11'))
assert [m.serialized_bytes for m in msgs] == head[:2]
forget_tables()
assert scan(pstream, info_only=True, filter_expr='${%data_category} != 11') == head[2:]
n_checks += 3

# ---- error cases ---------------------------------------------------------------------------
def raises(exc_type, fn):
    try:
        fn()
    except exc_type as e:
        return type(e)
    except BaseException as e:   # wrong type
        raise AssertionError('expected {} got {!r}'.format(exc_type, e))
    raise AssertionError('expected {} but nothing was raised'.format(exc_type))

# arguments that collide with the ones the generator passes itself: TypeError, but only once a
# message is actually met
assert raises(TypeError, lambda: scan(stream, start_signature=b'BUFR')) is TypeError
assert raises(TypeError, lambda: scan(stream, filter_expr='True', start_signature=b'BUFR')) is TypeError
assert scan(b'no message in here', start_signature=b'BUFR') == []
assert raises(TypeError, lambda: scan(stream, no_such_keyword=1)) is TypeError
# a filter that cannot be compiled / is not a string: raised on the first next(), not at the call
gen = generate_bufr_message(decoder, stream, filter_expr='${%edition} ==')
assert raises(SyntaxError, lambda: next(gen)) is SyntaxError
gen = generate_bufr_message(decoder, b'', filter_expr='')
assert raises(SyntaxError, lambda: next(gen)) is SyntaxError
gen = generate_bufr_message(decoder, stream, filter_expr=0)
assert raises(TypeError, lambda: next(gen)) is TypeError
# a filter that fails at run time propagates as it is
assert raises(NameError, lambda: scan(stream, filter_expr='nothing_like_this')) is NameError
assert raises(ZeroDivisionError, lambda: scan(stream, filter_expr='1 / 0', continue_on_error=True)) is ZeroDivisionError
# a truncated last message: first ones are yielded, then the error is raised
broken = POOL['ed3_comp'] + b'\r\r\n' + POOL['ed4_plain'][:200]
seen = []
def consume():
    for m in generate_bufr_message(decoder, broken):
        seen.append(m.serialized_bytes)
assert issubclass(raises(PyBufrKitError, consume), PyBufrKitError)
assert seen == [POOL['ed3_comp']]
assert scan(broken, continue_on_error=True) == [POOL['ed3_comp']]
n_checks += 11

print('demo 1 ok, {} checks'.format(n_checks))
