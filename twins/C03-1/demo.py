"""
Demo for refactor 1 (encoder.py: scaling of numeric values factored out of
process_numeric_uncompressed / process_numeric_compressed).

Run as:  cd /tmp/tw_C03 && /venv/bin/python _out/1/demo.py
"""
import os, sys; sys.path.insert(0, os.getcwd())

import json
import random

import pybufrkit
assert os.path.dirname(os.path.abspath(pybufrkit.__file__)) == os.path.join(os.getcwd(), 'pybufrkit')

from pybufrkit.encoder import Encoder
from pybufrkit.decoder import Decoder
from pybufrkit.renderer import FlatJsonRenderer
from pybufrkit.utils import JSON_DUMPS_KWARGS

ENC = Encoder()
ENC_COMPILED = Encoder(compiled_template_cache_max=20)
DEC = Decoder()
DEC_COMPILED = Decoder(compiled_template_cache_max=20)
REN = FlatJsonRenderer()

# The template: every numeric column with (descriptor, nbits, scale, refval) as effective
# after the operators that precede it.
DESCRIPTORS = [12001, 12101, 5001, 1001, 7004,
               201130, 12001, 201000,
               202129, 12001, 202000,
               207001, 5001, 207000,
               203012, 12001, 203255, 12001, 203000]
IDX_NEW_REFVAL = 8
NEW_REFVAL = -100
#          idx nbits scale refval
COLUMNS = [(0, 12, 1, 0),
           (1, 16, 2, 0),
           (2, 25, 5, -9000000),
           (3, 7, 0, 0),
           (4, 14, -1, 0),
           (5, 14, 1, 0),  # 201130: 2 bits wider
           (6, 12, 2, 0),  # 202129: scale + 1
           (7, 29, 6, -90000000),  # 207001: scale + 1, refval * 10, nbits + 4
           (9, 12, 1, NEW_REFVAL)]  # 203012: new reference value
N_VALUES = 10


def make(subsets, compressed=False):
    return [['BUFR', 0, 4],
            [22, 0, 0, 98, 0, False, '0000000', 0, 0, 0, 25, 0, 2020, 1, 2, 3, 4, 5],
            [0, '00000000', len(subsets), True, compressed, '000000', list(DESCRIPTORS)],
            [0, '00000000', [list(s) for s in subsets]],
            ['7777']]


def row(idx=None, value=None):
    r = [None] * N_VALUES
    r[IDX_NEW_REFVAL] = NEW_REFVAL
    if idx is not None:
        r[idx] = value
    return r


def encode(subsets, compressed=False):
    """Encode with the plain and with the compiled template; both must agree."""
    outcomes = []
    for enc in (ENC, ENC_COMPILED):
        try:
            outcomes.append(enc.process(make(subsets, compressed)).serialized_bytes)
        except Exception as e:
            outcomes.append(type(e))
    assert outcomes[0] == outcomes[1], outcomes
    if isinstance(outcomes[0], type):
        raise outcomes[0]()
    return outcomes[0]


def decode(b):
    values = REN.render(DEC.process(b))[3][2]
    assert values == REN.render(DEC_COMPILED.process(b))[3][2]
    return values


def reencode(b):
    """bytes -> message -> flat JSON text -> bytes"""
    return ENC.process(json.dumps(REN.render(DEC.process(b)), **JSON_DUMPS_KWARGS)).serialized_bytes


def value_of(raw, scale, refval):
    return (raw + refval) / 10.0 ** scale if scale else raw + refval


def check_within_half_unit(x, y, scale):
    unit = 10.0 ** -scale
    assert y is not None, (x, y)
    assert abs(y - x) <= 0.5 * unit * (1 + 1e-9) + abs(x) * 1e-12, (x, y, scale)


n_checked = n_refused = 0
rnd = random.Random(3)

# ---------------------------------------------------------------- uncompressed
for idx, nbits, scale, refval in COLUMNS:
    top = (1 << nbits) - 2  # the largest raw value that is not the missing value
    raws = {0, 1, 2, top - 1, top, top // 2} | {rnd.randint(0, top) for _ in range(6)}
    for raw in sorted(raws):
        offsets = (0,) if scale == 0 else (0, 0.3, -0.3, 0.49, -0.49)
        for offset in offsets:
            if scale == 0:
                x = raw + refval
            else:
                x = value_of(raw + offset, scale, refval)
            b = encode([row(idx, x)])
            values = decode(b)
            assert len(values) == 1 and len(values[0]) == N_VALUES
            got = values[0]
            check_within_half_unit(x, got[idx], scale)
            if scale == 0:
                assert got[idx] == x and isinstance(got[idx], int)
            # everything else is missing and reads back as missing, the new refval exactly
            for i in range(N_VALUES):
                if i == IDX_NEW_REFVAL:
                    assert got[i] == NEW_REFVAL
                elif i != idx:
                    assert got[i] is None
            # a value that came from a decoder reads back exactly, and the bytes are a fixpoint
            b2 = encode([got])
            assert b2 == b
            assert decode(b2) == values
            assert reencode(b) == b
            n_checked += 1

    # the all-ones pattern is the missing value of FM 94
    assert decode(encode([row(idx, value_of(top + 1, scale, refval))]))[0][idx] is None

    # beyond the range on either side: refused with the error of the bit writer, never wrapped
    for raw in (-1, -2, -1000, top + 2, top + 3, (1 << nbits) + 5, 1 << (nbits + 1), (1 << (nbits + 3)) + 1):
        x = value_of(raw, scale, refval)
        try:
            encode([row(idx, x)])
        except ValueError:
            n_refused += 1
        else:
            raise AssertionError('not refused: column %d value %r' % (idx, x))

    # a value that is not a number at all
    for bad, error in (('x', (TypeError, ValueError)), ([1], (TypeError, ValueError))):
        try:
            encode([row(idx, bad)])
        except error:
            n_refused += 1
        else:
            raise AssertionError('not refused: %r' % (bad,))

# half way between two grid points: either neighbour is within half a unit
for x in (0.05, 0.15, 0.25, 409.35, 409.45, 100.05, 273.15):
    got = decode(encode([row(0, x)]))[0][0]
    check_within_half_unit(x, got, 1)
# slightly negative rounds to zero, a bit more is refused
assert decode(encode([row(0, -0.04)]))[0][0] == 0
try:
    encode([row(0, -0.06)])
except ValueError:
    n_refused += 1
else:
    raise AssertionError('-0.06 not refused')

# the input list is not altered by the encoder
subsets = [row(2, -12.345678)]
message = make(subsets)
before = json.dumps(message)
ENC.process(message)
assert json.dumps(message) == before

# several subsets, all columns filled
subsets = []
for _ in range(5):
    r = row()
    for idx, nbits, scale, refval in COLUMNS:
        raw = rnd.randint(0, (1 << nbits) - 2)
        r[idx] = value_of(raw + (rnd.uniform(-0.45, 0.45) if scale else 0), scale, refval)
    subsets.append(r)
b = encode(subsets)
values = decode(b)
for r, got in zip(subsets, values):
    for idx, nbits, scale, refval in COLUMNS:
        check_within_half_unit(r[idx], got[idx], scale)
assert encode(values) == b and reencode(b) == b

# ------------------------------------------------------------------ compressed
def check_compressed(subsets):
    b = encode(subsets, compressed=True)
    values = decode(b)
    assert len(values) == len(subsets)
    for r, got in zip(subsets, values):
        assert got[IDX_NEW_REFVAL] == NEW_REFVAL
        for idx, nbits, scale, refval in COLUMNS:
            if r[idx] is None:
                assert got[idx] is None, (idx, r[idx], got[idx])
            else:
                check_within_half_unit(r[idx], got[idx], scale)
    # canonical: the decoded values give the same bytes again
    assert encode(values, compressed=True) == b
    assert reencode(b) == b
    return values


# all missing
check_compressed([row(), row(), row()])
for idx, nbits, scale, refval in COLUMNS:
    top = (1 << nbits) - 2
    lo, hi, mid = (value_of(raw, scale, refval) for raw in (0, top, top // 2))
    off = 0.4 * 10.0 ** -scale if scale else 0
    # all equal (also at both ends of the range), all equal off the grid
    for x in (lo, hi, mid, mid + off, mid - off):
        check_compressed([row(idx, x)] * 3)
        check_compressed([row(idx, x)])
    # different values, with and without missing ones, full span of the field
    check_compressed([row(idx, lo), row(idx, mid), row(idx, mid + off)])
    check_compressed([row(idx, lo), row(idx, None), row(idx, hi)])
    check_compressed([row(idx, None), row(idx, mid - off), row(idx, None), row(idx, mid)])
    check_compressed([row(idx, value_of(5, scale, refval)), row(idx, value_of(6, scale, refval))])
    check_compressed([row(idx, value_of(5, scale, refval)), row(idx, None), row(idx, value_of(6, scale, refval))])
    for _ in range(3):
        check_compressed([row(idx, value_of(rnd.randint(0, top), scale, refval)) for _ in range(4)])
    # the minimum does not fit: refused
    for xs in ([value_of(-1, scale, refval)] * 2,
               [value_of(-3, scale, refval), mid],
               [value_of(top + 2, scale, refval)] * 3,
               [value_of(top + 2, scale, refval), value_of(top + 9, scale, refval)]):
        try:
            encode([row(idx, x) for x in xs], compressed=True)
        except ValueError:
            n_refused += 1
        else:
            raise AssertionError('not refused: %r' % (xs,))
    # not numbers
    for xs in (['x', 'x'], ['x', mid], [mid, 'x', None]):
        try:
            encode([row(idx, x) for x in xs], compressed=True)
        except (TypeError, ValueError):
            n_refused += 1
        else:
            raise AssertionError('not refused: %r' % (xs,))

# ---------------------------------------------------------------------- corpus
for name in ('207003', 'ISMD01_OKPR', 'IUSK73_AMMC_182300', 'amv2_87', 'b002_95', 'b005_89',
             'contrived', 'g2nd_208', 'jaso_214', 'mpco_217', 'profiler_european'):
    with open(os.path.join('tests', 'data', name + '.bufr'), 'rb') as ins:
        b0 = ins.read()
    b1 = reencode(b0)
    b2 = reencode(b1)
    assert b1 == b2, name
    assert REN.render(DEC.process(b1))[-2][-1] == REN.render(DEC.process(b0))[-2][-1], name
    b1c = ENC_COMPILED.process(json.dumps(REN.render(DEC.process(b0)), **JSON_DUMPS_KWARGS)).serialized_bytes
    assert b1c == b1, name

print('OK: %d round trips, %d refusals' % (n_checked, n_refused))
