"""
Demo for refactor 4: CoderState.__init__ - one descriptor list / one dictionary of
attribute links shared by all subsets of compressed data, independent ones for
uncompressed data, and the per-subset rows of values.

Run as:  cd /tmp/tw_C05 && /venv/bin/python _out/4/demo.py
Exits 0 when every assertion holds (both without and with the patch).
"""
import os, sys; sys.path.insert(0, os.getcwd())

import json
import logging
import random

import pybufrkit
assert os.path.dirname(os.path.abspath(pybufrkit.__file__)) == os.path.join(os.getcwd(), 'pybufrkit'), \
    'run me with the worktree as current directory'

from pybufrkit.coder import CoderState, AuditedList
from pybufrkit.decoder import Decoder
from pybufrkit.encoder import Encoder
from pybufrkit.templatecompiler import CompilerState

SEC1 = [0, 0, 89, 0, 0, False, '0000000', 0, 2, 0, 13, 0, 2007, 11, 21, 12, 0, 0]
DATA_DIR = os.path.join(os.getcwd(), 'tests', 'data')
assert logging.root.level != logging.DEBUG


# ---------------------------------------------------------------------------
# 1. the state object itself
# ---------------------------------------------------------------------------
def distinct(objects):
    return len(set(id(o) for o in objects)) == len(objects)


def same(objects):
    return len(set(id(o) for o in objects)) <= 1


def check_state(is_compressed, n, given, debug):
    passed = None if given is None else [list(r) for r in given]
    state = CoderState(is_compressed, n, passed) if given is not None else CoderState(is_compressed, n)

    assert state.is_compressed is is_compressed and state.n_subsets == n
    assert state.idx_subset == 0 and state.idx_value == 0

    # descriptors and links: one object for all subsets when compressed, one per subset otherwise
    for containers, kind in ((state.decoded_descriptors_all_subsets, list),
                             (state.bitmap_links_all_subsets, dict)):
        assert type(containers) is list and len(containers) == n
        assert all(type(c) is kind and len(c) == 0 for c in containers)
        if is_compressed:
            assert same(containers)
        else:
            assert distinct(containers)
    if n == 0:
        assert state.decoded_descriptors == [] and type(state.decoded_descriptors) is list
        assert state.bitmap_links == [] and type(state.bitmap_links) is list      # a list, as it always was
        assert state.decoded_values == [] and type(state.decoded_values) is list
    else:
        assert state.decoded_descriptors is state.decoded_descriptors_all_subsets[0]
        assert state.bitmap_links is state.bitmap_links_all_subsets[0]
        assert state.decoded_values is state.decoded_values_all_subsets[0]

    # the rows of values are independent, compressed or not
    rows = state.decoded_values_all_subsets
    row_type = AuditedList if debug else list
    if given:
        assert rows == given and len(rows) == len(given)
        assert all(type(r) is row_type for r in rows)
        if debug:
            assert rows is not passed and all(r is not p for r, p in zip(rows, passed))   # copies
        else:
            assert rows is passed and all(r is p for r, p in zip(rows, passed))            # the caller's own lists
    else:
        assert type(rows) is list and len(rows) == n
        assert all(type(r) is row_type and len(r) == 0 for r in rows)
        assert distinct(rows)
        if given is not None:
            assert rows is not passed

    # appending through the current-subset handles shows up in all subsets only when compressed
    if n > 1:
        state.decoded_descriptors.append('d')
        state.bitmap_links[3] = 1
        state.decoded_values.append(42)
        others_d = [len(c) for c in state.decoded_descriptors_all_subsets[1:]]
        others_l = [len(c) for c in state.bitmap_links_all_subsets[1:]]
        assert others_d == others_l == [1 if is_compressed else 0] * (n - 1)
        if not given:
            assert [len(r) for r in rows[1:]] == [0] * (n - 1)
        # switching the subset
        state.switch_subset_context(n - 1)
        assert state.decoded_descriptors is state.decoded_descriptors_all_subsets[n - 1]
        assert state.bitmap_links is state.bitmap_links_all_subsets[n - 1]
        assert state.decoded_values is state.decoded_values_all_subsets[n - 1]
    return state


def all_state_checks(debug):
    for is_compressed in (True, False):
        for n in (0, 1, 2, 3, 7):
            check_state(is_compressed, n, None, debug)
            check_state(is_compressed, n, [], debug)
            if n:
                check_state(is_compressed, n, [[i, None, 'x'] for i in range(n)], debug)
                check_state(is_compressed, n, [[] for _ in range(n)], debug)   # truthy list of empty rows
        # fewer rows than subsets are taken as they are
        state = CoderState(is_compressed, 3, [[1], [2]])
        assert len(state.decoded_values_all_subsets) == 2 and len(state.decoded_descriptors_all_subsets) == 3
        # truthy flags other than True/False
        assert same(CoderState(1, 3).decoded_descriptors_all_subsets)
        assert distinct(CoderState(0, 3).decoded_descriptors_all_subsets)
        assert distinct(CoderState(None, 3).bitmap_links_all_subsets)

    # error cases keep their types
    for is_compressed in (True, False):
        for bad in (None, 2.0, 'x'):
            try:
                CoderState(is_compressed, bad)
            except TypeError:
                pass
            else:
                raise AssertionError('TypeError expected for n_subsets={!r}'.format(bad))
        try:
            CoderState(is_compressed, -1)        # no containers, but "not zero subsets"
        except IndexError:
            pass
        else:
            raise AssertionError('IndexError expected')
        try:
            CoderState(is_compressed, 2, 5)      # values that are not rows
        except TypeError:
            pass
        else:
            raise AssertionError('TypeError expected')
    return True


all_state_checks(debug=False)
logging.root.setLevel(logging.DEBUG)
try:
    all_state_checks(debug=True)
    # an AuditedList row behaves as the list it copies
    state = CoderState(True, 2, [[1, 2], [3, 4]])
    assert state.decoded_values_all_subsets == [[1, 2], [3, 4]] and state.decoded_values[1] == 2
finally:
    logging.root.setLevel(logging.WARNING)

# the state of the template compiler is an uncompressed single-subset state
cs = CompilerState.__mro__
assert CoderState in cs

# ---------------------------------------------------------------------------
# 2. the property at message level: descriptors and attribute links of a
#    compressed message are those of the uncompressed one, for every subset
# ---------------------------------------------------------------------------
ENC = Encoder()
ENC_COMPILED = Encoder(compiled_template_cache_max=8)
DEC = Decoder()
DEC_COMPILED = Decoder(compiled_template_cache_max=8)


def message(descriptors, subsets, compressed):
    return [['BUFR', 0, 4], list(SEC1),
            [0, '00000000', len(subsets), True, compressed, '000000', list(descriptors)],
            [0, '00000000', [list(s) for s in subsets]], ['7777']]


def summary(template_data):
    return (template_data.decoded_values_all_subsets,
            [[d.id for d in ds] for ds in template_data.decoded_descriptors_all_subsets],
            [dict(links) for links in template_data.bitmap_links_all_subsets])


def both_ways(js_compressed, js_uncompressed, n_subsets, what):
    results = []
    for enc, dec in ((ENC, DEC), (ENC_COMPILED, DEC_COMPILED)):
        mc = enc.process(json.dumps(js_compressed))
        mu = enc.process(json.dumps(js_uncompressed))
        # the encoder keeps the caller's rows and reports the same structure as the decoder
        ec, eu = mc.template_data.value, mu.template_data.value
        dc = dec.process(mc.serialized_bytes).template_data.value
        du = dec.process(mu.serialized_bytes).template_data.value
        assert summary(dc) == summary(du), what
        assert summary(ec)[1:] == summary(dc)[1:] and summary(eu)[1:] == summary(du)[1:], what
        for td in (ec, dc):      # compressed: one shared object
            assert len(td.decoded_descriptors_all_subsets) == n_subsets
            assert same(td.decoded_descriptors_all_subsets) and same(td.bitmap_links_all_subsets), what
            assert n_subsets < 2 or distinct(td.decoded_values_all_subsets)
        for td in (eu, du):      # uncompressed: one object per subset
            assert len(td.decoded_descriptors_all_subsets) == n_subsets
            assert distinct(td.decoded_descriptors_all_subsets) and distinct(td.bitmap_links_all_subsets), what
            assert distinct(td.decoded_values_all_subsets)
        results.append(summary(dc))
    assert results[0] == results[1], what
    return results[0]


# a template with a bitmap: 222000 quality information for 012001 and 020011, not for 007004
TEMPLATE = [12001, 7004, 20011, 222000, 101003, 31031, 1031, 1032, 101002, 33007]
rnd = random.Random(4)
for _ in range(25):
    n = rnd.randint(1, 12)
    subsets = []
    for _ in range(n):
        subsets.append([rnd.choice([None, rnd.randint(2000, 3200) / 10.0]),
                        rnd.choice([None, rnd.randint(0, 11000) * 10.0]),
                        rnd.choice([None, rnd.randint(0, 14)]),
                        0, 0, 1, 0, 98, 1,
                        rnd.choice([None, rnd.randint(0, 100)]),
                        rnd.choice([None, rnd.randint(0, 100)])])
    values, ids, links = both_ways(message(TEMPLATE, subsets, True), message(TEMPLATE, subsets, False), n, 'bitmap')
    assert values == subsets
    assert ids == [[12001, 7004, 20011, 222000, 31031, 31031, 31031, 1031, 1032, 33007, 33007]] * n
    assert links == [{9: 0, 10: 2}] * n

# a template without any attribute: empty dictionaries for every subset
values, ids, links = both_ways(message([12001, 1015], [[280.0, 'A'], [None, None], [281.5, 'B']], True),
                               message([12001, 1015], [[280.0, 'A'], [None, None], [281.5, 'B']], False), 3, 'plain')
assert links == [{}, {}, {}] and ids == [[12001, 1015]] * 3

# real compressed messages (bitmaps, first order statistics, associated fields, delayed replication)
n_links = 0
for stub in ('207003', 'amv2_87', 'b005_89', 'jaso_214', 'g2nd_208', 'ISMD01_OKPR', 'mpco_217', 'asr3_190'):
    with open(os.path.join(DATA_DIR, stub + '.json')) as ins:
        js = json.load(ins)
    sec3 = next(s for s in js if isinstance(s[-1], list) and isinstance(s[3], bool) and isinstance(s[4], bool))
    assert sec3[4] is True, stub
    js_u = json.loads(json.dumps(js))
    next(s for s in js_u if isinstance(s[-1], list) and isinstance(s[3], bool) and isinstance(s[4], bool))[4] = False
    values, ids, links = both_ways(js, js_u, sec3[2], stub)
    n_links += len(links[0])
assert n_links > 0

# a message declaring no subsets at all
m = ENC.process(json.dumps(message([12001], [], False)))
td = DEC.process(m.serialized_bytes).template_data.value
assert summary(td) == ([], [], []) and summary(m.template_data.value) == ([], [], [])
try:
    ENC.process(json.dumps(message([12001], [], True)))
except IndexError:
    pass        # there is no first value to compare the others with
else:
    raise AssertionError('IndexError expected')

print('demo 4 OK')
