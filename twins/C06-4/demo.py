"""
Demo for refactor 4 (Encoder.process_template_data: the loop over the subsets
of an uncompressed message is a helper of its own, the branches are swapped).

Run as:  cd /tmp/tw_C06 && /venv/bin/python _out/4/demo.py
Exits 0 when every assertion holds (with or without the patch).
"""
import os, sys; sys.path.insert(0, os.getcwd())
import copy
import itertools
import json

import pybufrkit
assert os.path.dirname(os.path.abspath(pybufrkit.__file__)) == os.path.join(os.getcwd(), 'pybufrkit'), \
    'wrong copy of pybufrkit imported: ' + pybufrkit.__file__

from pybufrkit.coder import CoderState
from pybufrkit.decoder import Decoder
from pybufrkit.encoder import Encoder
from pybufrkit.errors import PyBufrKitError
from pybufrkit.descriptors import BufrTemplate
from pybufrkit.templatedata import TemplateData
from pybufrkit.templatecompiler import CompiledTemplateManager
from pybufrkit.renderer import NestedJsonRenderer


# ---------------------------------------------------------------------------
# Part 1: whole messages. Every subset alone == the same subset in company.
# ---------------------------------------------------------------------------
def make_message(descriptors, subsets):
    return [["BUFR", 0, 4],
            [22, 0, 1, 0, 0, False, '0000000', 2, 4, 0, 18, 0, 2016, 2, 18, 23, 0, 0],
            [0, '00000000', len(subsets), True, False, '000000', list(descriptors)],
            [0, '00000000', [list(s) for s in subsets]],
            ["7777"]]


def views(msg):
    td = msg.template_data.value
    nested = NestedJsonRenderer().render(msg)[-2][-1]['value']
    assert len(nested) == len(td.decoded_values_all_subsets)
    return [(list(td.decoded_values_all_subsets[i]),
             [(type(d).__name__, d.id) for d in td.decoded_descriptors_all_subsets[i]],
             dict(td.bitmap_links_all_subsets[i]),
             json.dumps(nested[i], sort_keys=True, default=repr))
            for i in range(len(nested))]


def roundtrip(descriptors, subsets, cache=None):
    enc = Encoder(compiled_template_cache_max=cache).process(json.dumps(make_message(descriptors, subsets)))
    dec = Decoder(compiled_template_cache_max=cache).process(enc.serialized_bytes)
    return views(enc), views(dec), enc.serialized_bytes


def check_independence(descriptors, subsets, cache=None, max_orders=40):
    alone = [roundtrip(descriptors, [s], cache) for s in subsets]
    n_orders = 0
    for r in range(2, len(subsets) + 1):
        for order in itertools.permutations(range(len(subsets)), r):
            n_orders += 1
            if n_orders > max_orders:
                return
            enc, dec, _ = roundtrip(descriptors, [subsets[i] for i in order], cache)
            assert len(enc) == len(dec) == len(order)
            for pos, i in enumerate(order):
                assert enc[pos] == alone[i][0][0], ('encoder', descriptors, order, pos)
                assert dec[pos] == alone[i][1][0], ('decoder', descriptors, order, pos)


def ta_subset(temps, bits, temps2=(271.5, 272.5), bits2=(0, 1)):
    z, z2 = list(bits).count(0), list(bits2).count(0)
    return ([len(temps)] + list(temps) + [0, 0, len(bits)] + list(bits) + [1, 2, z] + [50 + k for k in range(z)]
            + [0, 0, 3, 4, 4, z] + [200.5 + k for k in range(z)] + [0]
            + list(temps2) + [0, len(bits2)] + list(bits2) + [5, 6, z2] + [70 + k for k in range(z2)])


# delayed replication before a bitmap, bitmap reuse (236000/237000), first order
# statistics markers, 237255 and 235000 cancellations, then a second, direct bitmap
TA = [101000, 31001, 12001, 222000, 236000, 101000, 31001, 31031, 1031, 1032, 101000, 31001, 33007,
      224000, 237000, 1031, 1032, 8023, 101000, 31001, 224255, 237255, 235000,
      12001, 12001, 222000, 101000, 31001, 31031, 1031, 1032, 101000, 31001, 33007]
TA_SUBSETS = [ta_subset([280.5, 281.5, 282.5], [0, 1, 0]),
              ta_subset([250.0], [0, 0], bits2=(1, 0)),
              ta_subset([260.0, 261.0, 262.0, 263.0, 264.0], [1, 1, 0, 1, 1], bits2=(0, 0)),
              ta_subset([], [0])]

# 203: the new reference value is still in force when the subset ends
TB = [101000, 31001, 12001, 203010, 12001, 203255, 101000, 31001, 12001]
TB_SUBSETS = [[1, 280.0, -50, 2, 10.0, 20.0], [0, 20, 1, 5.5], [3, 1.0, 2.0, 3.0, 0, 0]]

# 201, 202, 208, 204, 207 are all still in force when the subset ends
TC = [12001, 1015, 201134, 202129, 12001, 208004, 1015, 204008, 31021, 12001, 207001, 12001]
TC_SUBSETS = [[280.5, 'STATION A', 250.55, 'ABCD', 1, 3, 260.25, 7, 270.125],
              [180.5, None, None, 'WXYZ', 2, None, None, None, 170.0],
              [None, 'B', 1.0, None, 63, 255, 2.0, 0, None]]

# 221: one "data not present" still to go when the subset ends
TD = [12001, 1001, 221003, 1001, 12001]
TD_SUBSETS = [[280.5, 94, 95], [None, 1, 2], [100.0, None, None]]

# the template ends in the middle of a bitmap definition
TE = [101000, 31001, 12001, 222000, 236000, 101000, 31001, 31031]
TE_SUBSETS = [[2, 280.5, 281.5, 0, 0, 3, 0, 1, 0], [0, 0, 0, 1, 1], [1, 200.0, 0, 0, 0]]

# the template ends while 222000 waits for its class 33 values, and starts with one
TF = [33007, 12001, 12001, 222000, 101000, 31001, 31031, 1031]
TF_SUBSETS = [[10, 280.5, 281.5, 0, 2, 0, 1, 7], [None, 1.0, 2.0, 0, 3, 1, 1, 0, 8], [99, None, None, 0, 1, 0, 9]]


class PositionDecoder(Decoder):
    """Notes where in the message each subset starts and ends."""

    def process_template(self, state, bit_operator, template):
        start = bit_operator.get_pos()
        super(PositionDecoder, self).process_template(state, bit_operator, template)
        self.spans.append((start, bit_operator.get_pos()))


def subset_bits(data):
    decoder = PositionDecoder()
    decoder.spans = []
    decoder.process(data)
    bits = ''.join(format(b, '08b') for b in bytearray(data))
    return [bits[start:end] for start, end in decoder.spans]


def check_bits(descriptors, subsets, max_orders=12):
    """The bits written for a subset are the same in any company, at any position."""
    alone = []
    for s in subsets:
        _, _, data = roundtrip(descriptors, [s])
        alone.extend(subset_bits(data))
    assert len(alone) == len(subsets)
    n_orders = 0
    for r in range(2, len(subsets) + 1):
        for order in itertools.permutations(range(len(subsets)), r):
            n_orders += 1
            if n_orders > max_orders:
                return
            datas = set()
            for cache in (None, 3):
                datas.add(roundtrip(descriptors, [subsets[i] for i in order], cache)[2])
            assert len(datas) == 1  # compiled or not: the same message
            assert subset_bits(datas.pop()) == [alone[i] for i in order], (descriptors, order)


def message_checks():
    check_independence(TA, TA_SUBSETS, max_orders=40)
    check_independence(TA, TA_SUBSETS, cache=4, max_orders=10)
    check_independence(TA, TA_SUBSETS, cache=0, max_orders=4)  # compiled, never cached
    check_bits(TA, TA_SUBSETS, max_orders=30)
    for descriptors, subsets in ((TB, TB_SUBSETS), (TC, TC_SUBSETS), (TD, TD_SUBSETS),
                                 (TE, TE_SUBSETS), (TF, TF_SUBSETS)):
        check_independence(descriptors, subsets)
        check_independence(descriptors, subsets, cache=4)
        check_bits(descriptors, subsets)

    # absolute results
    enc, dec, _ = roundtrip(TA, TA_SUBSETS)
    for v in (enc, dec):
        assert v[0][2] == {13: 1, 14: 3, 21: 1, 22: 3, 33: 24}
        assert v[1][2] == {10: 0, 11: 1, 18: 0, 19: 1, 30: 22}
        assert v[2][2] == {17: 3, 24: 3, 35: 26, 36: 27}
        assert v[3][2] == {8: 0, 15: 0, 26: 17}
    assert [v[0] for v in enc] == TA_SUBSETS
    assert [v[1] for v in enc] == [v[1] for v in dec]

    # one encoder for many messages of different subset counts
    for cache in (None, 0, 4):
        encoder = Encoder(compiled_template_cache_max=cache)
        for subsets in (TA_SUBSETS, TA_SUBSETS[2:], TA_SUBSETS[::-1], [TA_SUBSETS[1]], []):
            expected, _, data = roundtrip(TA, subsets)
            msg = encoder.process(json.dumps(make_message(TA, subsets)))
            assert views(msg) == expected and msg.serialized_bytes == data


# ---------------------------------------------------------------------------
# Part 2: how process_template_data drives the state and the template
# ---------------------------------------------------------------------------
class Recorder(object):
    def __init__(self):
        self.switches = []
        self.runs = []
        self.compilations = 0

    def install(self):
        recorder = self
        self.saved = (CoderState.switch_subset_context, CompiledTemplateManager.get_or_compile)
        original_switch, original_compile = self.saved

        def switch_subset_context(state, idx_subset):
            recorder.switches.append((id(state), idx_subset))
            return original_switch(state, idx_subset)

        def get_or_compile(manager, template, table_group):
            recorder.compilations += 1
            return original_compile(manager, template, table_group)

        CoderState.switch_subset_context = switch_subset_context
        CompiledTemplateManager.get_or_compile = get_or_compile

    def uninstall(self):
        CoderState.switch_subset_context, CompiledTemplateManager.get_or_compile = self.saved

    def reset(self):
        self.switches, self.runs, self.compilations = [], [], 0


class SpyEncoder(Encoder):
    def __init__(self, recorder, **kwargs):
        super(SpyEncoder, self).__init__(**kwargs)
        self.recorder = recorder

    def process_template(self, state, bit_operator, template):
        self.recorder.runs.append((id(state), state.idx_subset, state.idx_value, type(template),
                                   len(state.decoded_descriptors), bit_operator.get_pos()))
        return super(SpyEncoder, self).process_template(state, bit_operator, template)


def expect(exception, func, *args):
    try:
        func(*args)
    except exception as e:
        return e
    raise AssertionError('%s expected' % exception.__name__)


def driver_checks():
    recorder = Recorder()
    recorder.install()
    try:
        # uncompressed, plain template; the input is a python object here, not a string
        json_data = make_message(TA, TA_SUBSETS)
        given_subsets = json_data[3][2]
        given_copy = copy.deepcopy(given_subsets)
        encoder = SpyEncoder(recorder)
        msg = encoder.process(json_data)
        assert [idx for _, idx in recorder.switches] == [0, 1, 2, 3]
        assert len(set(sid for sid, _ in recorder.switches)) == 1
        # every run starts at value 0 of its subset with no descriptor seen yet
        assert [(idx, idx_value, kls, n) for _, idx, idx_value, kls, n, _ in recorder.runs] == \
            [(i, 0, BufrTemplate, 0) for i in range(4)]
        positions = [pos for _, _, _, _, _, pos in recorder.runs]
        assert positions == sorted(set(positions))
        assert recorder.compilations == 0
        td = msg.template_data.value
        assert type(td) is TemplateData and td.is_compressed is False and td.n_subsets == 4
        assert type(td.template) is BufrTemplate
        # the values are the lists that were handed in, untouched
        assert td.decoded_values_all_subsets is given_subsets
        assert given_subsets == given_copy
        assert len(set(map(id, td.decoded_descriptors_all_subsets))) == 4
        assert len(set(map(id, td.bitmap_links_all_subsets))) == 4
        plain_bytes = msg.serialized_bytes
        assert plain_bytes == roundtrip(TA, TA_SUBSETS)[2]

        # compiled template
        for cache in (0, 4):
            recorder.reset()
            encoder = SpyEncoder(recorder, compiled_template_cache_max=cache)
            for n_messages in (1, 2):
                msg = encoder.process(json.dumps(make_message(TA, TA_SUBSETS)))
                assert msg.serialized_bytes == plain_bytes
                assert [idx for _, idx in recorder.switches] == [0, 1, 2, 3] * n_messages
                assert recorder.runs == [] and recorder.compilations == n_messages
            assert type(msg.template_data.value.template) is BufrTemplate

        # compressed: no switch, a single run
        with open(os.path.join('tests', 'data', 'b005_89.json')) as ins:
            compressed_json = ins.read()
        with open(os.path.join('tests', 'data', 'b005_89.bufr'), 'rb') as ins:
            compressed_values = Decoder().process(ins.read()).template_data.value.decoded_values_all_subsets
        compressed_bytes = set()
        for cache in (None, 2):
            recorder.reset()
            msg = SpyEncoder(recorder, compiled_template_cache_max=cache).process(compressed_json)
            assert recorder.switches == []
            assert len(recorder.runs) == (1 if cache is None else 0)
            assert recorder.compilations == (0 if cache is None else 1)
            td = msg.template_data.value
            assert td.is_compressed is True and td.n_subsets == 128
            assert len(set(map(id, td.decoded_descriptors_all_subsets))) == 1
            compressed_bytes.add(msg.serialized_bytes)
            assert Decoder().process(msg.serialized_bytes).template_data.value.decoded_values_all_subsets == \
                compressed_values
        assert len(compressed_bytes) == 1

        # no subset
        recorder.reset()
        for cache in (None, 4):
            msg = SpyEncoder(recorder, compiled_template_cache_max=cache).process(make_message(TA, []))
            td = msg.template_data.value
            assert recorder.switches == [] and recorder.runs == []
            assert td.n_subsets == 0 and td.decoded_values_all_subsets == []
            assert td.decoded_descriptors_all_subsets == [] and td.bitmap_links_all_subsets == []

        # errors: the type of the error and the subset it comes from
        good = TA_SUBSETS[0]
        for cache in (None, 4):
            def encode(subsets, n_declared=None):
                recorder.reset()
                message = make_message(TA, subsets)
                if n_declared is not None:
                    message[2][2] = n_declared
                SpyEncoder(recorder, compiled_template_cache_max=cache).process(message)

            # fewer lists of values than subsets declared
            expect(IndexError, encode, [good, good], 3)
            assert [idx for _, idx in recorder.switches] == [0, 1, 2]
            # more lists than declared: the extra ones are ignored
            encode([good, TA_SUBSETS[1], good], 2)
            assert [idx for _, idx in recorder.switches] == [0, 1]
            # a subset that is too short
            expect(IndexError, encode, [good, good[:-1], good])
            assert [idx for _, idx in recorder.switches] == [0, 1]
            # the value of 222000 has to be zero
            wrong_constant = list(good)
            assert wrong_constant[4] == 0
            wrong_constant[4] = 1
            e = expect(AssertionError, encode, [good, good, wrong_constant])
            assert 'Value must be zero' in str(e)
            assert [idx for _, idx in recorder.switches] == [0, 1, 2]
            # a missing replication factor
            expect(PyBufrKitError, encode, [[None] + good[1:], good])
            assert [idx for _, idx in recorder.switches] == [0]
            # a bitmap that does not fit
            e = expect(PyBufrKitError, encode, [good, ta_subset([250.0], [0, 0, 0])])
            assert 'Back referenced descriptors not matching defined Bitmap' in str(e)
            # a number of subsets that is no number
            expect(TypeError, encode, [good], 1.5)
            assert recorder.switches == []
    finally:
        recorder.uninstall()


def sample_file_checks():
    """The uncompressed sample files give the same message, compiled or not."""
    for stub in ('IUSK73_AMMC_182300', 'rado_250', 'profiler_european', 'uegabe', 'b002_95'):
        with open(os.path.join('tests', 'data', stub + '.json')) as ins:
            text = ins.read()
        results = []
        for cache in (None, 2):
            msg = Encoder(compiled_template_cache_max=cache).process(text)
            assert msg.is_compressed.value is False
            results.append(msg.serialized_bytes)
            dec = Decoder().process(msg.serialized_bytes)
            a, b = msg.template_data.value, dec.template_data.value
            assert a.bitmap_links_all_subsets == b.bitmap_links_all_subsets, stub
            assert [[d.id for d in ds] for ds in a.decoded_descriptors_all_subsets] == \
                [[d.id for d in ds] for ds in b.decoded_descriptors_all_subsets], stub
        assert results[0] == results[1], stub


if __name__ == '__main__':
    message_checks()
    driver_checks()
    sample_file_checks()
    print('demo 4: OK')
