"""
Demo for refactor 3: flat text rendering (pybufrkit/renderer.py FlatTextRenderer) and
its conversion back to flat JSON (fixed column 81).

Run as:  cd /tmp/tw_C09 && /venv/bin/python _out/3/demo.py
"""
import os, sys; sys.path.insert(0, os.getcwd())

import ast
import logging
import shutil
import tempfile

logging.disable(logging.CRITICAL)

import pybufrkit
assert os.path.dirname(os.path.abspath(pybufrkit.__file__)) == os.path.join(os.getcwd(), 'pybufrkit'), pybufrkit.__file__

from pybufrkit.commands import command_encode
from pybufrkit.decoder import Decoder
from pybufrkit.descriptors import (ElementDescriptor, MarkerDescriptor, AssociatedDescriptor,
                                   SkippedLocalDescriptor, OperatorDescriptor)
from pybufrkit.encoder import Encoder
from pybufrkit.renderer import FlatJsonRenderer, FlatTextRenderer
from pybufrkit.templatedata import TemplateData
from pybufrkit.utils import flat_text_to_flat_json

decoder = Decoder()
encoder = Encoder()
renderer = FlatTextRenderer()


class NS(object):
    def __init__(self, **kwargs):
        self._m = kwargs

    def __getattr__(self, item):
        return self.__dict__['_m'].get(item, None)


def build(descriptors, subsets, compressed=False):
    return [
        ['BUFR', 0, 4],
        [0, 0, 0, 0, 0, False, '0000000', 0, 0, 0, 25, 0, 2020, 1, 2, 3, 4, 5],
        [0, '00000000', len(subsets), True, compressed, '000000', list(descriptors)],
        [0, '00000000', [list(s) for s in subsets]],
        ['7777'],
    ]


def raises(exc_type, func, *args):
    try:
        func(*args)
    except Exception as e:
        assert type(e) is exc_type, (type(e), e)
        return e
    raise AssertionError('no exception')


def bits_set(value, nbits):
    """1-based numbers (most significant bit first) of the bits set in value"""
    return [k for k in range(1, nbits + 1) if (value >> (nbits - k)) & 1]


def check_template_data_text(template_data, label):
    """
    Every line of the flat text of the template data, against the decoded lists:
    index in columns 1-5, description in a fixed width, value from column 82 on.
    """
    text = renderer.render(template_data)
    lines = text.split('\n')
    n_subsets = template_data.n_subsets
    iline = 0
    for idx_subset in range(n_subsets):
        assert lines[iline] == '###### subset {} of {} ######'.format(idx_subset + 1, n_subsets), label
        iline += 1
        descriptors = template_data.decoded_descriptors_all_subsets[idx_subset]
        values = template_data.decoded_values_all_subsets[idx_subset]
        links = template_data.bitmap_links_all_subsets[idx_subset]
        assert len(descriptors) == len(values)
        for idx, (descriptor, value) in enumerate(zip(descriptors, values)):
            line = lines[iline]
            iline += 1
            number = idx + 1
            assert line[:5] == ('{:>5d}'.format(number) if number <= 99999 else '*****'), (label, line)
            assert line[5] == ' ' and line[80] == ' ', (label, line)
            description = renderer.render(descriptor)
            if idx in links:
                assert line[6:70] == '{:64.64}'.format(description), (label, line)
                target = links[idx] + 1
                assert line[70:80] == ' -> ' + ('{:>6d}'.format(target) if target <= 999999 else '******'), (label, line)
            else:
                assert line[6:80] == '{:74.74}'.format(description), (label, line)
            shown = ast.literal_eval(line[81:])
            if value is not None and getattr(descriptor, 'unit', None) == 'FLAG TABLE':
                assert shown == (value, bits_set(value, descriptor.nbits)), (label, line)
                assert type(shown[0]) is type(value)
            else:
                assert shown == value and type(shown) is type(value), (label, line)
                assert line[81:] == repr(value), (label, line)
    assert iline == len(lines), label
    return text


tmpdir = tempfile.mkdtemp()


def cli_encode_flat_text(flat_text):
    fin, fout = os.path.join(tmpdir, 'in.txt'), os.path.join(tmpdir, 'out.bufr')
    with open(fin, 'w') as outs:
        outs.write(flat_text)
    command_encode(NS(filename=fin, output_filename=fout, json=False, attributed=False))
    with open(fout, 'rb') as ins:
        return ins.read()


def check_message(message, label, reencode=False):
    flat = FlatJsonRenderer().render(message)
    flat_text = renderer.render(message)
    converted = flat_text_to_flat_json(flat_text)
    assert converted == flat, label
    assert repr(converted) == repr(flat), label
    template_data = message.template_data.value
    template_data_text = check_template_data_text(template_data, label)
    # the message rendering embeds exactly the rendering of the template data
    assert ('\n' + template_data_text + '\n') in flat_text, label
    # rendering twice gives the same text and leaves the decoded lists alone
    assert renderer.render(message) == flat_text
    assert FlatJsonRenderer().render(message) == flat
    if reencode:
        assert encoder.process(converted).serialized_bytes == encoder.process(flat).serialized_bytes, label
        assert cli_encode_flat_text(flat_text) == encoder.process(flat).serialized_bytes, label
    return flat_text


try:
    # ------------------------------------------------------------ sample files
    SAMPLES = (
        ('tests/data/contrived.bufr', True),
        ('tests/data/207003.bufr', True),
        ('tests/data/rado_250.bufr', False),          # bitmap links: 222000, 224000
        ('tests/data/profiler_european.bufr', True),  # associated fields
        ('tests/data/uegabe.bufr', True),
        ('tests/data/jaso_214.bufr', False),
        ('tests/data/b002_95.bufr', False),           # skipped local descriptors
        ('tests/data/ISMD01_OKPR.bufr', True),        # compressed strings
        ('tests/data/IUSK73_AMMC_182300.bufr', False),  # flag tables, 205YYY
        ('tests/data/prepbufr.bufr', False),
        ('tests/benchmark_data/ocea_133.bufr', True),   # QA info linked to a replication factor
        ('tests/benchmark_data/pilo_91.bufr', False),
        ('tests/benchmark_data/temp_101.bufr', False),
        ('tests/benchmark_data/ship_13.bufr', False),
        ('tests/benchmark_data/syno_1.bufr', False),
    )
    n_flag_lines = n_link_lines = 0
    for path, reencode in SAMPLES:
        with open(path, 'rb') as ins:
            message = decoder.process(ins.read())
        text = check_message(message, path, reencode)
        n_flag_lines += sum(1 for line in text.split('\n') if line[81:82] == '(')
        n_link_lines += sum(1 for line in text.split('\n') if line[71:73] == '->')
    assert n_flag_lines > 20 and n_link_lines > 100, (n_flag_lines, n_link_lines)

    # -------------------------------------------------------- synthetic shapes
    CASES = {
        'strings_flags_zero_replication': (
            [1015, 2002, 102000, 31001, 12001, 1015, 20003],
            [[b'A "q" \'s\'  x\xe9\xff', 5, 2, 280.5, b"it's", None, b' lead', 3],
             [None, None, 0, None]]),
        'flag_tables': (      # 002002: 4 bits, 008042: 18 bits
            [2002, 2002, 2002, 2002, 8042, 8042, 8042],
            [[0, 1, 8, 14, 0, 1, 2 ** 17 + 2 ** 9 + 2],
             [None, 12, 10, 5, None, 2 ** 18 - 2, 2 ** 17]]),
        'associated_fields': (
            [204008, 31021, 12001, 10004, 204000, 12001],
            [[1, 3, 280.5, None, 10000.0, 281.5]]),
        'data_not_present_221': (
            [221003, 4001, 12001, 4002, 12001],
            [[2020, 11, 280.0]]),
        'qa_on_elements_and_replication_factor': (
            [1001, 1002, 101000, 31001, 12001, 222000, 236000, 101005, 31031, 1031, 1032, 101005, 33007],
            [[1, 2, 2, 280.0, 281.0, 0, 0, 0, 0, 0, 0, 0, 98, 1, 70, 71, 72, 73, 74]]),
        'chained_attributes_first_order_stats': (
            [1001, 12001, 224000, 236000, 101002, 31031, 1031, 1032, 8023, 101002, 224255],
            [[1, 280.0, 0, 0, 0, 0, 98, 1, 4, 2, 281.0]]),
        'flag_table_with_qa': (
            [2002, 12001, 222000, 236000, 101002, 31031, 1031, 1032, 101002, 33007],
            [[9, 280.0, 0, 0, 0, 0, 98, 1, 70, None]]),
    }
    texts = {}
    for name, (descriptors, subsets) in CASES.items():
        encoded = encoder.process(build(descriptors, subsets))
        message = decoder.process(encoded.serialized_bytes)
        texts[name] = check_message(message, name, reencode=True)
        assert encoder.process(flat_text_to_flat_json(texts[name])).serialized_bytes == encoded.serialized_bytes

    # a few lines literally
    lines = texts['flag_tables'].split('\n')
    first = lines.index('###### subset 1 of 2 ######')
    assert lines[first + 1] == '    1 002002 TYPE OF INSTRUMENTATION FOR WIND MEASUREMENT' + ' ' * 24 + '(0, [])'
    assert lines[first + 4][81:] == '(14, [1, 2, 3])'
    assert lines[first + 7][81:] == '(131586, [1, 9, 17])'
    second = lines.index('###### subset 2 of 2 ######')
    assert lines[second + 1][81:] == 'None'
    assert lines[second + 2][81:] == '(12, [1, 2])'
    assert lines[second + 6][81:] == '(262142, [1, 2, 3, 4, 5, 6, 7, 8, 9, 10, 11, 12, 13, 14, 15, 16, 17])'
    lines = texts['flag_table_with_qa'].split('\n')
    assert lines[-4] == '    9 033007 PER CENT CONFIDENCE' + ' ' * 39 + '->      1 70', lines[-4]
    assert lines[-3] == '   10 033007 PER CENT CONFIDENCE' + ' ' * 39 + '->      2 None'
    assert texts['strings_flags_zero_replication'].split('\n')[first + 1][81:] == \
        'b\'A "q" \\\'s\\\'  x\\xe9\\xff      \''

    # ------------------------------------------- hand-made template data objects
    long_name = 'N' * 100
    flag = ElementDescriptor(2002, long_name, 'FLAG TABLE', 0, 0, 4, 'FLAG TABLE', 0, 2)
    numeric = ElementDescriptor(12001, 'TEMPERATURE', 'K', 1, 0, 12, 'C', 1, 3)
    marker = MarkerDescriptor.from_element_descriptor(flag, 224255)
    descriptors = [flag, numeric, marker, AssociatedDescriptor(2002, 8), SkippedLocalDescriptor(2250, 16),
                   OperatorDescriptor(222000), flag]
    values = [6, 1.5, 6, None, 12, 0, None]
    links = {2: 0, 6: 1}
    td = TemplateData(None, False, [descriptors, []], [values, []], [links, {}])
    text = check_template_data_text(td, 'hand made')
    assert text.split('\n') == [
        '###### subset 1 of 2 ######',
        '    1 002002 ' + 'N' * 67 + ' (6, [2, 3])',
        '    2 012001 TEMPERATURE' + ' ' * 57 + '1.5',
        '    3 F02002' + ' ' * 58 + ' ->      1 (6, [2, 3])',   # a marker shows no name
        '    4 A02002 8 bits' + ' ' * 62 + 'None',
        '    5 S02250 16 bits' + ' ' * 61 + '12',
        '    6 222000' + ' ' * 69 + '0',
        '    7 002002 ' + 'N' * 57 + ' ->      2 None',
        '###### subset 2 of 2 ######',
    ]
    assert values == [6, 1.5, 6, None, 12, 0, None] and links == {2: 0, 6: 1}    # inputs untouched
    assert renderer.render(TemplateData(None, False, [], [], [])) == ''
    assert renderer.render(TemplateData(None, True, [[]], [[]], [{}])) == '###### subset 1 of 1 ######'
    # zip stops at the shorter list
    assert renderer.render(TemplateData(None, False, [[numeric, numeric]], [[1.0]], [{}])).count('\n') == 1

    # more lines than the index column can show, links beyond the width of theirs
    n = 100002
    td = TemplateData(None, False, [[numeric] * n], [[None] * (n - 1) + [2.5]],
                      [{n - 1: 999998, n - 2: 999999, 5: 0}])
    big = renderer.render(td).split('\n')
    assert big[99999][:6] == '99999 ' and big[100000][:6] == '***** ' and big[100002][:6] == '***** '
    assert big[6][70:81] == ' ->      1 ' and big[6][81:] == 'None'
    assert big[100001][70:81] == ' -> ****** ' and big[100002][70:81] == ' -> 999999 '
    assert big[100002][81:] == '2.5'

    # -------------------------------------------------------------- error cases
    # a flag table value that is not an integer cannot be shown as bits
    raises(ValueError, renderer.render, TemplateData(None, False, [[flag]], [[1.5]], [{}]))
    raises(TypeError, renderer.render, TemplateData(None, False, [[flag]], [[b'x']], [{}]))
    # ... and that is found out before the missing link table is
    raises(ValueError, renderer.render, TemplateData(None, False, [[flag]], [[1.5]], [None]))
    raises(TypeError, renderer.render, TemplateData(None, False, [[numeric]], [[1.5]], [None]))
    raises(TypeError, renderer.render, TemplateData(None, False, [[numeric]], [[1.5]], [{0: None}]))
    raises(IndexError, renderer.render, TemplateData(None, False, [[numeric]], [[1.5]], []))
    raises(IndexError, renderer.render, TemplateData(None, False, [[numeric]], [], [{}]))
    # negative flag value: formatted with a sign, as before
    assert renderer.render(TemplateData(None, False, [[flag]], [[-3]], [{}])).endswith('(-3, [3, 4])')
    raises(AttributeError, renderer._render_template_data, None)

    # flat text -> flat JSON on broken text
    header = 'table group key\n<<<<<< section 0 >>>>>>\na = 1\n'
    good_line = '    1 012001 TEMPERATURE' + ' ' * 57 + '1.5'
    assert flat_text_to_flat_json(header + '###### subset 1 of 1 ######\n' + good_line +
                                  '\n<<<<<< section 5 >>>>>>') == [[1, [[1.5]]], []]
    raises(IndexError, flat_text_to_flat_json, header + '###### subset 1 of 1 ######\n' + good_line)
    raises(SyntaxError, flat_text_to_flat_json, header + '###### subset 1 of 1 ######\n    1 012001 T 1.5\n<<<<<<')
    raises(ValueError, flat_text_to_flat_json, header + 'b : 1')
finally:
    shutil.rmtree(tmpdir, ignore_errors=True)

print('demo 3 OK')
