import os, sys; sys.path.insert(0, os.getcwd())
# ---------------------------------------------------------------------------
# Independent, minimal BUFR message builder (no pybufrkit code involved).
# ---------------------------------------------------------------------------
class Bits(object):
    """Big-endian bit accumulator."""

    def __init__(self):
        self.chunks = []

    def u(self, value, nbits):
        """Append an unsigned integer of nbits."""
        assert nbits >= 0 and 0 <= value < (1 << nbits) or (nbits == 0 and value == 0), (value, nbits)
        if nbits:
            self.chunks.append(format(value, '0{}b'.format(nbits)))
        return self

    def ones(self, nbits):
        """Append nbits of all ones (the missing value)."""
        return self.u((1 << nbits) - 1, nbits)

    def s(self, data):
        """Append raw bytes."""
        for byte in bytearray(data):
            self.u(byte, 8)
        return self

    def sm(self, value, nbits):
        """Append a sign-magnitude integer (operator 203 reference values)."""
        self.u(1 if value < 0 else 0, 1)
        return self.u(abs(value), nbits - 1)

    def nbits(self):
        return sum(len(c) for c in self.chunks)

    def to_bytes(self):
        s = ''.join(self.chunks)
        s += '0' * (-len(s) % 8)
        return bytes(bytearray(int(s[i:i + 8], 2) for i in range(0, len(s), 8)))


def _u(value, nbytes):
    return bytes(bytearray((value >> (8 * (nbytes - 1 - i))) & 0xFF for i in range(nbytes)))


def build_message(descriptors, data, n_subsets=1, compressed=False, edition=4,
                  master_table_version=25, pad_data_to=None):
    """
    Assemble a complete BUFR message.

    :param descriptors: list of int descriptor ids (FXXYYY as decimal number)
    :param data: bytes of the data section payload (after the 4 octet header)
    """
    if edition == 4:
        sec1 = (_u(22, 3) + _u(0, 1) + _u(0, 2) + _u(0, 2) + _u(0, 1) + _u(0, 1) +
                _u(0, 1) + _u(0, 1) + _u(0, 1) + _u(master_table_version, 1) + _u(0, 1) +
                _u(2020, 2) + _u(1, 1) + _u(2, 1) + _u(3, 1) + _u(4, 1) + _u(5, 1))
        assert len(sec1) == 22
    elif edition == 3:
        sec1 = (_u(18, 3) + _u(0, 1) + _u(0, 1) + _u(0, 1) + _u(0, 1) + _u(0, 1) +
                _u(0, 1) + _u(0, 1) + _u(master_table_version, 1) + _u(0, 1) +
                _u(20, 1) + _u(1, 1) + _u(2, 1) + _u(3, 1) + _u(4, 1) + _u(0, 1))
        assert len(sec1) == 18
    elif edition == 2:
        sec1 = (_u(18, 3) + _u(0, 1) + _u(0, 2) + _u(0, 1) + _u(0, 1) +
                _u(0, 1) + _u(0, 1) + _u(master_table_version, 1) + _u(0, 1) +
                _u(20, 1) + _u(1, 1) + _u(2, 1) + _u(3, 1) + _u(4, 1) + _u(0, 1))
        assert len(sec1) == 18
    else:
        raise ValueError(edition)

    desc_bytes = b''
    for d in descriptors:
        f, x, y = d // 100000, d // 1000 % 100, d % 1000
        desc_bytes += _u((f << 14) | (x << 8) | y, 2)
    flags = 0x80 | (0x40 if compressed else 0)
    sec3_body = _u(0, 1) + _u(n_subsets, 2) + _u(flags, 1) + desc_bytes
    if edition < 4 and (len(sec3_body) + 3) % 2:
        sec3_body += b'\0'
    sec3 = _u(len(sec3_body) + 3, 3) + sec3_body

    if pad_data_to is not None:
        data = data + b'\0' * (pad_data_to - len(data))
    if edition < 4 and (len(data) + 4) % 2:
        data += b'\0'
    sec4 = _u(len(data) + 4, 3) + _u(0, 1) + data

    body = sec1 + sec3 + sec4 + b'7777'
    total = 8 + len(body)
    return b'BUFR' + _u(total, 3) + _u(edition, 1) + body


def decode(message, **kwargs):
    """Decode with the library under test; return (values, labels) per subset."""
    from pybufrkit.decoder import Decoder
    bufr = Decoder(**kwargs).process(message)
    td = bufr.template_data.value
    values = [list(vs) for vs in td.decoded_values_all_subsets]
    labels = [[str(d) for d in ds] for ds in td.decoded_descriptors_all_subsets]
    return values, labels


def num(raw, scale, ref):
    """The FM-94 value of a numeric field: (raw + reference) / 10**scale."""
    if raw is None:
        return None
    value = raw + ref
    if scale != 0:
        value = value / (1.0 * 10 ** scale)
    return value


def same(actual, expected):
    """Exact equality including the int/float distinction, element by element."""
    assert len(actual) == len(expected), (len(actual), len(expected), actual, expected)
    for i, (a, e) in enumerate(zip(actual, expected)):
        assert type(a) is type(e) and a == e, (i, a, e, actual, expected)
    return True


# ---------------------------------------------------------------------------
# Demo for refactor 1: numeric decoding (uncompressed and compressed)
# ---------------------------------------------------------------------------
from pybufrkit.errors import PyBufrKitError, BitReadError
from pybufrkit.decoder import Decoder
from pybufrkit.coder import CoderState
from pybufrkit.bitops import get_bit_reader

# (id, nbits, scale, refval) of the numeric Table B entries used below
B = {
    1001: (7, 0, 0),
    12001: (12, 1, 0),
    10004: (14, -1, 0),
    7001: (15, 0, -400),
    5001: (25, 5, -9000000),
}
TEMPLATE = [1001, 12001, 10004, 7001, 5001]
BOTH = ({}, {'compiled_template_cache_max': 8})


def expect_error(exc_type, func, *args, **kwargs):
    try:
        func(*args, **kwargs)
    except Exception as e:
        assert type(e) is exc_type, (type(e), e)
        return e
    raise AssertionError('no error raised, expected {}'.format(exc_type.__name__))


# --- 1. uncompressed: raw 0, raw max - 1, missing, in every edition -----------
for edition in (2, 3, 4):
    bits = Bits()
    expected = []
    for kind in ('zero', 'max', 'missing', 'mid'):
        row = []
        for d in TEMPLATE:
            nbits, scale, ref = B[d]
            raw = {'zero': 0, 'max': (1 << nbits) - 2, 'missing': None, 'mid': (1 << nbits) // 3}[kind]
            if raw is None:
                bits.ones(nbits)
            else:
                bits.u(raw, nbits)
            row.append(num(raw, scale, ref))
        expected.append(row)
    msg = build_message(TEMPLATE, bits.to_bytes(), n_subsets=4, edition=edition)
    for kw in BOTH:
        values, labels = decode(msg, **kw)
        assert len(values) == 4
        for got, exp in zip(values, expected):
            same(got, exp)
        assert labels == [['001001', '012001', '010004', '007001', '005001']] * 4
# literal spot checks of the oracle itself
assert expected[0] == [0, 0.0, 0.0, -400, -90.0]
assert expected[2] == [None] * 5
assert type(expected[0][0]) is int and type(expected[0][3]) is int and type(expected[0][1]) is float
assert expected[1][1] == 409.4 and expected[1][3] == 32766 - 400

# --- 2. 1-bit numeric field: a raw value of 1 is a value, not missing ------------
for kw in BOTH:
    v, l = decode(build_message([101000, 31000, 1001], Bits().u(1, 1).u(5, 7).to_bytes()), **kw)
    assert same(v[0], [1, 5]) and l == [['031000', '001001']]
    v, l = decode(build_message([101000, 31000, 1001], Bits().u(0, 1).to_bytes()), **kw)
    assert same(v[0], [0]) and l == [['031000']]

# --- 3. operators 201, 202, 203, 207 change width, scale and reference ----------
for kw in BOTH:
    # 201130: two more bits; 202129: scale one more
    data = Bits().u(10000, 14).u(2731, 12).u(2731, 12).ones(14).to_bytes()
    v, l = decode(build_message([201130, 12001, 201000, 202129, 12001, 202000, 12001, 201130, 12001, 201000],
                                data), **kw)
    same(v[0], [10000 / 10.0, 2731 / 100.0, 2731 / 10.0, None])
    assert l == [['012001'] * 4]

    # 207001: width + 4, scale + 1, reference * 10
    data = Bits().u(0, 19).u(123456, 19).ones(19).u(77, 15).to_bytes()
    v, l = decode(build_message([207001, 7001, 7001, 7001, 207000, 7001], data), **kw)
    same(v[0], [(0 - 4000) / 10.0, (123456 - 4000) / 10.0, None, 77 - 400])

    # 203012: new reference value -500 (sign and magnitude), concluded by 203255, cancelled by 203000
    data = Bits().sm(-500, 12).u(100, 15).u(0, 15).ones(15).u(100, 15).to_bytes()
    v, l = decode(build_message([203012, 7001, 203255, 7001, 7001, 7001, 203000, 7001], data), **kw)
    same(v[0], [-500, -400, -500, None, -300])
    assert l == [['007001'] * 5]

    # a new reference value of zero: raw value is returned unchanged, as an int
    data = Bits().sm(0, 12).u(100, 15).to_bytes()
    v, l = decode(build_message([203012, 7001, 203255, 7001], data), **kw)
    same(v[0], [0, 100])

    # 203 together with 207: new reference value is multiplied as well
    data = Bits().sm(-7, 8).u(1000, 19).to_bytes()
    v, l = decode(build_message([203008, 7001, 203255, 207001, 7001, 207000], data), **kw)
    same(v[0], [-7, (1000 - 70) / 10.0])

# --- 4. compressed columns ---------------------------------------------------------
for edition in (2, 3, 4):
    bits = Bits()
    bits.ones(12).u(0, 6)                                         # 012001 all missing
    bits.u(2731, 12).u(0, 6)                                      # 012001 all equal
    bits.u(100, 15).u(3, 6).u(0, 3).u(7, 3).u(6, 3).u(1, 3)       # 007001 min 100, 3-bit increments
    bits.u(10, 7).u(1, 6).u(0, 1).u(1, 1).u(0, 1).u(1, 1)         # 001001 1-bit increments
    bits.u(1000, 14).u(2, 6).u(0, 2).u(1, 2).u(2, 2).u(3, 2)      # 010004 negative scale
    bits.u(0, 25).u(25, 6).u(0, 25).u((1 << 25) - 2, 25).ones(25).u(9000000, 25)  # 005001 widest legal increments
    bits.u(0, 7).u(0, 6)                                          # 001001 all equal to zero
    msg = build_message([12001, 12001, 7001, 1001, 10004, 5001, 1001], bits.to_bytes(),
                        n_subsets=4, compressed=True, edition=edition)
    columns = [
        [None] * 4,
        [273.1] * 4,
        [-300, None, -294, -299],
        [10, None, 10, None],
        [1000 / 0.1, 1001 / 0.1, 1002 / 0.1, None],
        [-90.0, ((1 << 25) - 2 - 9000000) / 100000.0, None, 0.0],
        [0] * 4,
    ]
    for kw in BOTH:
        values, labels = decode(msg, **kw)
        assert len(values) == 4
        for i in range(4):
            same(values[i], [c[i] for c in columns])
        assert labels == [['012001', '012001', '007001', '001001', '010004', '005001', '001001']] * 4

# compressed, one subset and no subset at all
for kw in BOTH:
    v, l = decode(build_message([7001], Bits().u(5, 15).u(0, 6).to_bytes(), n_subsets=1, compressed=True), **kw)
    assert same(v[0], [-395])
    td = Decoder(**kw).process(
        build_message([7001], Bits().u(5, 15).u(0, 6).to_bytes(), n_subsets=0, compressed=True),
        wire_template_data=False).template_data.value
    assert td.decoded_values_all_subsets == [] and td.decoded_descriptors_all_subsets == []

# compressed with 207 in force
for kw in BOTH:
    data = Bits().u(50000, 19).u(4, 6).u(0, 4).u(15, 4).u(3, 4).to_bytes()
    v, l = decode(build_message([207001, 7001, 207000], data, n_subsets=3, compressed=True), **kw)
    assert [x[0] for x in v] == [4600.0, None, 4600.3]

# --- 5. error cases ------------------------------------------------------------------
for kw in BOTH:
    # all-missing minimum with a non-zero increment width is refused
    data = Bits().ones(15).u(2, 6).u(0, 2).u(0, 2).to_bytes()
    e = expect_error(PyBufrKitError, decode, build_message([7001], data, n_subsets=2, compressed=True), **kw)
    assert 'nbits_diff must be zero' in e.message and e.message.startswith('007001')

    # running out of bits is a BitReadError, for plain and compressed data
    msg = build_message([5001, 5001, 5001], Bits().u(1, 25).u(2, 25).u(3, 25).to_bytes())
    expect_error(BitReadError, decode, msg[:-8], **kw)
    data = Bits().u(1, 25).u(20, 6).u(0, 20).u(1, 20).u(2, 20).u(3, 20).to_bytes()
    msg = build_message([5001], data, n_subsets=4, compressed=True)
    expect_error(BitReadError, decode, msg[:-9], **kw)


# --- 6. the two methods called directly, with their side effects on the state -----------
class Marker(object):
    nbits = 8


decoder = Decoder()
d = Marker()

state = CoderState(False, 1)
reader = get_bit_reader(Bits().u(5, 8).u(5, 8).u(5, 8).u(255, 8).u(1, 1).u(0, 8).to_bytes())
decoder.process_numeric_uncompressed(state, reader, d, 8, 1.0, 0)
decoder.process_numeric_uncompressed(state, reader, d, 8, 100.0, -3)
decoder.process_numeric_uncompressed(state, reader, d, 8, 1, 10)
decoder.process_numeric_uncompressed(state, reader, d, 8, 10.0, 7)
decoder.process_numeric_uncompressed(state, reader, d, 1, 1.0, 0)
decoder.process_numeric_uncompressed(state, reader, d, 8, 0.01, 0)
same(state.decoded_values, [5, 0.02, 15, None, 1, 0.0])
assert state.decoded_values_all_subsets[0] is state.decoded_values
assert len(state.decoded_descriptors) == 6 and all(x is d for x in state.decoded_descriptors)
assert reader.get_pos() == 41
# out of bits: the descriptor is already recorded, no value is
expect_error(BitReadError, decoder.process_numeric_uncompressed, state, reader, d, 8, 1.0, 0)
assert len(state.decoded_descriptors) == 7 and len(state.decoded_values) == 6

state = CoderState(True, 3)
reader = get_bit_reader(
    Bits().u(5, 8).u(2, 6).u(1, 2).u(3, 2).u(0, 2)     # increments
    .u(9, 8).u(0, 6)                                   # all equal
    .u(255, 8).u(0, 6)                                 # all missing
    .u(4, 8).u(1, 6).u(1, 1).u(0, 1).u(1, 1)           # one-bit increments
    .u(255, 8).u(1, 6)                                 # malformed
    .u(7, 8).u(2, 6).u(2, 2)                           # truncated
    .to_bytes())
assert decoder.process_numeric_compressed(state, reader, d, 8, 10.0, -1) is None
assert decoder.process_numeric_compressed(state, reader, d, 8, 1.0, 0) is None
assert decoder.process_numeric_compressed(state, reader, d, 8, 10.0, 5) is None
assert decoder.process_numeric_compressed(state, reader, d, 8, 1.0, 100) is None
same(state.decoded_values_all_subsets[0], [0.5, 9, None, None])
same(state.decoded_values_all_subsets[1], [None, 9, None, 104])
same(state.decoded_values_all_subsets[2], [0.4, 9, None, None])
assert len(state.decoded_descriptors) == 4
assert state.decoded_descriptors_all_subsets[0] is state.decoded_descriptors_all_subsets[2]
pos = reader.get_pos()
e = expect_error(PyBufrKitError, decoder.process_numeric_compressed, state, reader, d, 8, 1.0, 0)
assert reader.get_pos() == pos + 14
assert [len(x) for x in state.decoded_values_all_subsets] == [4, 4, 4]
assert len(state.decoded_descriptors) == 5
# truncated in the middle of the increments: the first subset already has its value
expect_error(BitReadError, decoder.process_numeric_compressed, state, reader, d, 8, 1.0, 0)
assert [len(x) for x in state.decoded_values_all_subsets] == [5, 4, 4]
assert state.decoded_values_all_subsets[0][-1] == 9

# --- 7. real messages of the sample corpus against their stored values ----------------------
import json

for name in ('207003', 'IUSK73_AMMC_182300', 'b002_95', 'b005_89', 'g2nd_208', 'jaso_214',
             'profiler_european', 'rado_250', 'uegabe'):
    with open(os.path.join('tests', 'data', name + '.json')) as f:
        stored = json.load(f)[-2][-1]
    with open(os.path.join('tests', 'data', name + '.bufr'), 'rb') as f:
        raw = f.read()
    for kw in BOTH:
        values, _ = decode(raw, **kw)
        assert len(values) == len(stored)
        for got, exp in zip(values, stored):
            same([x.decode('latin-1') if isinstance(x, bytes) else x for x in got], exp)

print('demo 1 OK')
