import os, sys; sys.path.insert(0, os.getcwd())
"""
Differential demonstration for refactor 5 (the section loops of Decoder.process and
Encoder.process pulled up into Coder.process_sections).

Everything the decoder / encoder produces is compared with messages assembled here
bit by bit with plain string arithmetic (ref_message), never with the library itself.
Exits 0 on the unpatched and on the patched tree.
"""
import glob
import json
import logging
import shutil
import tempfile

logging.disable(logging.CRITICAL)

import pybufrkit
from pybufrkit.constants import BITPOS_START
from pybufrkit.decoder import Decoder
from pybufrkit.encoder import Encoder
from pybufrkit.errors import PyBufrKitError, BitReadError

assert os.path.dirname(os.path.abspath(pybufrkit.__file__)) == os.path.join(os.getcwd(), 'pybufrkit'), \
    'run me from the worktree root'

N_CHECKS = [0]


def check(cond, *what):
    N_CHECKS[0] += 1
    if not cond:
        raise AssertionError('demo 5 FAILED: ' + ' '.join(str(w) for w in what))


def raises(exc_type, func, *args, **kwargs):
    """Exact exception type (not a subclass) expected."""
    try:
        func(*args, **kwargs)
    except BaseException as e:
        check(type(e) is exc_type, 'expected', exc_type.__name__, 'got', type(e).__name__, e)
        return e
    check(False, 'expected', exc_type.__name__, 'but nothing was raised')


# ---------------------------------------------------------------------------
# Independent reference: a message made of k subsets of 004004 (hour, 5 bits)
# ---------------------------------------------------------------------------
def u(value, nbits):
    return format(value, '0{}b'.format(nbits))


def hours_of(k):
    return [(i * 7 + 3) % 24 for i in range(k)]


def section1_values(ed, has_sec2, declared=0):
    if ed == 4:
        return [declared, 0, 98, 5, 1, has_sec2, '0000000', 7, 8, 9, 13, 0, 2020, 1, 2, 3, 4, 5]
    if ed == 3:
        return [declared, 0, 5, 98, 1, has_sec2, '0000000', 7, 9, 13, 0, 20, 1, 2, 3, 4, 5]
    return [declared, 0, 98, 1, has_sec2, '0000000', 7, 9, 13, 0, 20, 1, 2, 3, 4, 5]


def section1_body(ed, has_sec2):
    flag = ('1' if has_sec2 else '0') + '0000000'
    if ed == 4:
        return (u(0, 8) + u(98, 16) + u(5, 16) + u(1, 8) + flag + u(7, 8) + u(8, 8) + u(9, 8) + u(13, 8) + u(0, 8) +
                u(2020, 16) + ''.join(u(v, 8) for v in (1, 2, 3, 4, 5)))
    if ed == 3:
        return (u(0, 8) + u(5, 8) + u(98, 8) + u(1, 8) + flag + u(7, 8) + u(9, 8) + u(13, 8) + u(0, 8) +
                ''.join(u(v, 8) for v in (20, 1, 2, 3, 4, 5)))
    return (u(0, 8) + u(98, 16) + u(1, 8) + flag + u(7, 8) + u(9, 8) + u(13, 8) + u(0, 8) +
            ''.join(u(v, 8) for v in (20, 1, 2, 3, 4, 5)))


def framed(body, ed, surplus):
    """Prefix the 24-bit length, pad to (even) octets, add `surplus` zero octets."""
    unit = 16 if ed <= 3 else 8
    nbits = 24 + len(body)
    nbits += -nbits % unit
    nbytes = nbits // 8 + surplus
    bits = u(nbytes, 24) + body
    return bits + '0' * (nbytes * 8 - len(bits)), nbytes


def ref_message(ed, k, sec2=None, surplus=(0, 0, 0, 0)):
    """:return: (bytes of the message, [section lengths 1..4 (without 2 if absent)])"""
    parts, lengths = [], []
    bodies = [(section1_body(ed, sec2 is not None), surplus[0])]
    if sec2 is not None:
        bodies.append(('00000000' + sec2, surplus[1]))
    bodies.append(('00000000' + u(k, 16) + '10' + '000000' + u(0, 2) + u(4, 6) + u(4, 8), surplus[2]))
    bodies.append(('00000000' + ''.join(u(h, 5) for h in hours_of(k)), surplus[3]))
    for body, extra in bodies:
        bits, nbytes = framed(body, ed, extra)
        parts.append(bits)
        lengths.append(nbytes)
    total = 8 + sum(lengths) + 4
    bits = ''.join(u(c, 8) for c in b'BUFR') + u(total, 24) + u(ed, 8) + ''.join(parts) + \
        ''.join(u(c, 8) for c in b'7777')
    assert len(bits) == total * 8
    return bytes(int(bits[i:i + 8], 2) for i in range(0, len(bits), 8)), lengths


def json_message(ed, k, sec2=None, declared=None, total=0):
    """The input of the encoder. declared: section lengths 1..4 (without 2 if absent)"""
    n_sections = 4 if sec2 is not None else 3
    declared = list(declared) if declared is not None else [0] * n_sections
    out = [['BUFR', total, ed], section1_values(ed, sec2 is not None, declared.pop(0))]
    if sec2 is not None:
        out.append([declared.pop(0), '00000000', sec2])
    out.append([declared.pop(0), '00000000', k, True, False, '000000', [4004]])
    out.append([declared.pop(0), '00000000', [[h] for h in hours_of(k)]])
    out.append(['7777'])
    return out


def section_lengths(message):
    return [s.section_length.value for s in message.sections if 'section_length' in s]


def check_message(message, expected_bytes, expected_lengths, ed, k, sec2, tag):
    check(message.serialized_bytes == expected_bytes, tag, 'bytes')
    check(message.length.value == len(expected_bytes), tag, 'length')
    check(section_lengths(message) == expected_lengths, tag, 'section lengths', section_lengths(message))
    indexes = [s.get_metadata('index') for s in message.sections]
    check(indexes == ([0, 1, 2, 3, 4, 5] if sec2 is not None else [0, 1, 3, 4, 5]), tag, 'sections', indexes)
    check(message.edition.value == ed and message.n_subsets.value == k, tag, 'edition / n_subsets')
    check(message.template_data.value.decoded_values_all_subsets == [[h] for h in hours_of(k)], tag, 'values')
    # The start bit position of each section is the running sum of what was processed before
    starts = [s.get_metadata(BITPOS_START) for s in message.sections]
    expected_starts = [0, 64]
    for n in expected_lengths:
        expected_starts.append(expected_starts[-1] + n * 8)
    check(starts == expected_starts, tag, 'BITPOS_START', starts, expected_starts)


SEC2_CHOICES = (None, '', '1', '10101010', '101010101', '1' * 23)

decoder = Decoder()
encoder = Encoder()  # recomputes every length
honouring = Encoder(ignore_declared_length=False)

# --- A. encoder, lengths recomputed; every residue of the data section modulo 16 ----------
for ed in (2, 3, 4):
    for k in range(1, 17):
        for sec2 in SEC2_CHOICES:
            expected, lengths = ref_message(ed, k, sec2)
            # bogus declarations must be ignored
            bogus = [999, 1, 3, 2][:len(lengths)]
            for as_string in (False, True):
                data = json_message(ed, k, sec2, declared=bogus, total=12345)
                message = encoder.process(json.dumps(data) if as_string else data)
                check_message(message, expected, lengths, ed, k, sec2, ('A', ed, k, sec2, as_string))

# --- B. encoder honouring declared lengths: longer zero filled, shorter refused -----------
for ed in (2, 3, 4):
    for k in (1, 2, 3, 5, 8, 13, 16):
        for sec2 in (None, '1', '101010101'):
            base, natural = ref_message(ed, k, sec2)
            n = len(natural)
            idx3 = n - 2
            surpluses = [(0,) * n]
            for i in range(n):
                for extra in (1, 2, 3):
                    if i == idx3 and (ed <= 3 or extra != 1):
                        continue  # surplus octets of section 3 would be read back as descriptors
                    surpluses.append(tuple(extra if j == i else 0 for j in range(n)))
            surpluses.append(tuple(0 if j == idx3 else j + 1 for j in range(n)))
            for surplus in surpluses:
                full = list(surplus) if sec2 is not None else [surplus[0], 0] + list(surplus[1:])
                expected, lengths = ref_message(ed, k, sec2, full)
                check(lengths == [a + b for a, b in zip(natural, surplus)], 'B reference')
                for total in (0, len(expected)):
                    message = honouring.process(json_message(ed, k, sec2, declared=lengths, total=total))
                    check_message(message, expected, lengths, ed, k, sec2, ('B', ed, k, sec2, surplus, total))
                    # and the decoder consumes exactly the declared extents, whatever surrounds the message
                    for before, after in ((b'', b''), (b'\r\n', b'7777BUFR'), (b'BUF', b'\x00' * 9)):
                        decoded = decoder.process(before + expected + after)
                        check_message(decoded, expected, lengths, ed, k, sec2,
                                      ('C', ed, k, sec2, surplus, before, after))
                # a declared total that is not the number of bytes written
                for wrong in (len(expected) - 1, len(expected) + 1):
                    raises(PyBufrKitError, honouring.process,
                           json_message(ed, k, sec2, declared=lengths, total=wrong))
            # a section declared one octet shorter than its content, each section in turn
            for i in range(n):
                short = list(natural)
                short[i] -= 2 if ed <= 3 else 1
                raises(PyBufrKitError, honouring.process, json_message(ed, k, sec2, declared=short))
            # zero means "compute" also when honouring
            message = honouring.process(json_message(ed, k, sec2))
            check_message(message, base, natural, ed, k, sec2, ('B0', ed, k, sec2))

# --- D. decoder: errors of a section propagate out of the loop unchanged ------------------
for ed in (2, 3, 4):
    for sec2 in (None, '10101010'):
        good, lengths = ref_message(ed, 3, sec2, (1, 1, 0, 1))
        offsets = [8]
        for n in lengths:
            offsets.append(offsets[-1] + n)
        for i, offset in enumerate(offsets[:-1]):
            if sec2 is not None and i == 1:
                continue  # a shorter section 2 just has fewer local bits
            bad = bytearray(good)
            # declare the section shorter than the fixed part of its content
            bad[offset:offset + 3] = (3 if (sec2 is None and i >= 1) or i >= 2 else 4).to_bytes(3, 'big')
            raises(PyBufrKitError, decoder.process, bytes(bad))
        raises(PyBufrKitError, decoder.process, good[:3])  # not even a start signature
        for cut in (4, 7, 8, 12, offsets[1] + 2, offsets[-1] - 1, len(good) - 4, len(good) - 1):
            raises(BitReadError, decoder.process, good[:cut])
        raises(PyBufrKitError, decoder.process, good[:-4] + b'7778')  # value not as expected
        raises(PyBufrKitError, decoder.process, b'BUFX' + good[4:])  # no start signature
        raises(PyBufrKitError, decoder.process, b'BUFX' + good[4:], start_signature=None)  # value not as expected

        # info_only: the loop ends with the (truncated) section 4, which still spans its declared length
        info = decoder.process(b'junk' + good + b'more', info_only=True)
        check(info.serialized_bytes == good[:-4], 'info_only bytes')
        check([s.get_metadata('index') for s in info.sections] ==
              ([0, 1, 2, 3, 4] if sec2 is not None else [0, 1, 3, 4]), 'info_only sections')
        check(section_lengths(info) == lengths and info.length.value == len(good), 'info_only lengths')
        check(not hasattr(info, 'template_data'), 'info_only stops before the template data')

        # ignore_value_expectation: both transformers together, and alone
        odd = b'BUFX' + good[4:-4] + b'7778'
        for info_only in (False, True):
            message = decoder.process(odd + b'tail', start_signature=None, ignore_value_expectation=True,
                                      info_only=info_only)
            check(message.serialized_bytes == (odd[:-4] if info_only else odd), 'ignore_value_expectation bytes')
            check(section_lengths(message) == lengths, 'ignore_value_expectation lengths')
        # a signature other than the default
        message = decoder.process(b'BUFR' + odd + b'tail', start_signature=b'BUFX', ignore_value_expectation=True)
        check(message.serialized_bytes == odd, 'custom start signature')

# --- E. encoder: what goes wrong while configuring a section comes out unchanged ----------
for ed in (2, 3, 4):
    for sec2 in (None, '1'):
        data = json_message(ed, 2, sec2)
        for n_kept in range(0, len(data)):
            raises(IndexError, encoder.process, data[:n_kept])  # json_data runs out
        for i in range(len(data)):
            broken = [list(v) for v in data]
            broken[i].append(0)  # one value too many for the section
            raises(AssertionError, encoder.process, broken)
        # extra trailing elements are never looked at
        check(encoder.process(data + [['x'], 5]).serialized_bytes == ref_message(ed, 2, sec2)[0], 'extra elements')
        # section 2 declared present but its values missing: the values of section 3 are taken for it
        if sec2 is not None:
            raises(AssertionError, encoder.process, data[:2] + data[3:])
        else:
            lying = [list(v) for v in data]
            lying[1][5 if ed != 2 else 4] = True
            raises(AssertionError, encoder.process, lying)
        # wire_template_data=False leaves the flat lists alone, the bytes are the same
        unwired = encoder.process(data, wire_template_data=False)
        check(unwired.serialized_bytes == ref_message(ed, 2, sec2)[0], 'unwired bytes')

# --- F. definitions without an end-of-message section: the loop walks off the known sections
tmp_dir = tempfile.mkdtemp()
try:
    definitions_dir = os.path.join(tmp_dir, 'definitions')
    shutil.copytree(os.path.join(os.getcwd(), 'pybufrkit', 'definitions'), definitions_dir)
    path = os.path.join(definitions_dir, 'section5.json')
    with open(path) as ins:
        config = json.load(ins)
    del config['end_of_message']
    with open(path, 'w') as outs:
        json.dump(config, outs)
    endless_decoder = Decoder(definitions_dir=definitions_dir)
    endless_encoder = Encoder(definitions_dir=definitions_dir)
    for sec2 in (None, '1'):
        good, _ = ref_message(4, 2, sec2)
        e = raises(KeyError, endless_decoder.process, good + b'BUFR')
        check(e.args == (6,), 'KeyError(6) from the decoder', e.args)
        data = json_message(4, 2, sec2)
        raises(IndexError, endless_encoder.process, data)
        e = raises(KeyError, endless_encoder.process, data + [[]])
        check(e.args == (6,), 'KeyError(6) from the encoder', e.args)

    # ... and definitions whose message ends with section 3
    path = os.path.join(definitions_dir, 'section3.json')
    with open(path) as ins:
        config = json.load(ins)
    config['end_of_message'] = True
    with open(path, 'w') as outs:
        json.dump(config, outs)
    short_decoder = Decoder(definitions_dir=definitions_dir)
    short_encoder = Encoder(definitions_dir=definitions_dir)
    for ed in (3, 4):
        for sec2 in (None, '1'):
            good, lengths = ref_message(ed, 2, sec2)
            n_bytes = 8 + sum(lengths[:-1])
            message = short_decoder.process(good, wire_template_data=False)
            check(message.serialized_bytes == good[:n_bytes], 'ends with section 3: decoded bytes')
            check(section_lengths(message) == lengths[:-1], 'ends with section 3: decoded lengths')
            message = short_encoder.process(json_message(ed, 2, sec2)[:-2], wire_template_data=False)
            expected = bytearray(good[:n_bytes])
            expected[4:7] = n_bytes.to_bytes(3, 'big')
            check(message.serialized_bytes == bytes(expected), 'ends with section 3: encoded bytes')
            check(message.length.value == n_bytes, 'ends with section 3: encoded length')
finally:
    shutil.rmtree(tmp_dir)

# --- G. the sample files --------------------------------------------------------------------
n_files = 0
for path in sorted(glob.glob(os.path.join('tests', 'data', '*.bufr'))):
    if os.path.basename(path) == 'multi_invalid_messages.bufr':
        continue
    with open(path, 'rb') as ins:
        data = ins.read()
    start = data.find(b'BUFR')
    declared = int.from_bytes(data[start + 4:start + 7], 'big')
    message = decoder.process(data)
    check(message.serialized_bytes == data[start:start + declared], path, 'span')
    check(message.serialized_bytes.endswith(b'7777'), path, 'end')
    check(8 + sum(section_lengths(message)) + 4 == declared == message.length.value, path, 'sum of sections')
    has_sec2 = message.is_section2_presents.value
    check([s.get_metadata('index') for s in message.sections] == ([0, 1, 2, 3, 4, 5] if has_sec2 else [0, 1, 3, 4, 5]),
          path, 'sections')
    json_path = path[:-5] + '.json'
    if os.path.exists(json_path):
        with open(json_path) as ins:
            encoded = encoder.process(ins.read())
        raw = encoded.serialized_bytes
        check(raw.startswith(b'BUFR') and raw.endswith(b'7777'), json_path, 'framing')
        check(int.from_bytes(raw[4:7], 'big') == len(raw) == encoded.length.value, json_path, 'total length')
        check(8 + sum(section_lengths(encoded)) + 4 == len(raw), json_path, 'sum of sections')
        offset = 8
        for section in encoded.sections[1:-1]:
            check(int.from_bytes(raw[offset:offset + 3], 'big') == section.section_length.value, json_path, 'field')
            check(section.get_metadata(BITPOS_START) == offset * 8, json_path, 'start')
            if encoded.edition.value <= 3:
                check(section.section_length.value % 2 == 0, json_path, 'even')
            offset += section.section_length.value
        check(raw[offset:] == b'7777', json_path, 'end section')
        check(decoder.process(raw + b'BUFR').serialized_bytes == raw, json_path, 'round trip span')
    n_files += 1
check(n_files == 16, 'sample files', n_files)

print('demo 5 OK: {} checks'.format(N_CHECKS[0]))
