import os, sys; sys.path.insert(0, os.getcwd())
"""
Differential demonstration for refactor 5 (the choice "compiled template or the
template itself" and the loop over the subsets, shared by Decoder and Encoder).

Every branch of the shared code is reached
  * without a manager of compiled templates, and with one of size 0, 1, 2, 200,
  * compressed data (one pass) and uncompressed data (one pass per subset, 0, 1, 2, 3 subsets),
  * from the Decoder and from the Encoder (where the index to the values has
    to restart at zero for every subset: delayed replication and bitmaps read it),
  * templates that cannot be compiled, in a message without any subset
    (the compilation takes place before the loop, even if the loop does nothing).

Expected results are computed independently of the library: the values, the
descriptor labels and the attribute links are written down by hand, and the
bytes of section 4 are produced by a small bit packer of this file from widths,
scales and reference values copied from WMO Table B.
"""
import glob
import json
import logging

from pybufrkit.decoder import Decoder
from pybufrkit.encoder import Encoder

logging.disable(logging.CRITICAL)  # the warnings about local tables of the samples are of no interest

CACHE_SIZES = (None, 0, 1, 2, 200)
N_CHECKS = [0]


def check(cond, what):
    N_CHECKS[0] += 1
    if not cond:
        print('FAILED: ' + what)
        sys.exit(1)


def message(ids, subsets, compressed):
    return [["BUFR", 0, 4],
            [22, 0, 0, 0, 0, False, "0000000", 0, 0, 0, 29, 0, 2020, 1, 2, 3, 4, 5],
            [0, "00000000", len(subsets), True, compressed, "000000", list(ids)],
            [0, "00000000", [list(s) for s in subsets]],
            ["7777"]]


# ---------------------------------------------------------------------------
# An independent bit packer
class Bits(object):
    def __init__(self):
        self.s = ''

    def uint(self, value, nbits):
        assert 0 <= value < 2 ** nbits, (value, nbits)
        if nbits:
            self.s += format(value, '0{}b'.format(nbits))

    def text(self, value, nbytes):
        for c in value.ljust(nbytes).encode('latin-1'):
            self.uint(c, 8)

    def section4(self):
        s = self.s + '0' * (-len(self.s) % 8)
        data = bytes(int(s[i:i + 8], 2) for i in range(0, len(s), 8))
        return (len(data) + 4).to_bytes(3, 'big') + b'\x00' + data


# (nbits, scale, refval) copied from WMO Table B; None as nbits marks a string of 20 bytes
TABLE_B = {
    1001: (7, 0, 0), 1002: (10, 0, 0), 1015: None, 31001: (8, 0, 0), 12001: (12, 1, 0),
    31031: (1, 0, 0), 1031: (16, 0, 0), 1032: (8, 0, 0), 33007: (7, 0, 0),
    222000: (0, 0, 0), 236000: (0, 0, 0),
}


def raw(id_, value):
    nbits, scale, refval = TABLE_B[id_]
    return int(round(value * 10 ** scale)) - refval, nbits


def pack_uncompressed(labels_all_subsets, values_all_subsets):
    bits = Bits()
    for labels, values in zip(labels_all_subsets, values_all_subsets):
        for id_, value in zip(labels, values):
            if TABLE_B[id_] is None:
                bits.text(value, 20)
            else:
                bits.uint(*raw(id_, value))
    return bits.section4()


def pack_compressed(labels, values_all_subsets):
    bits = Bits()
    for idx, id_ in enumerate(labels):
        nbits = TABLE_B[id_][0]
        if nbits == 0:  # operators carry no bits
            continue
        raws = [raw(id_, values[idx])[0] for values in values_all_subsets]
        lo, hi = min(raws), max(raws)
        bits.uint(lo, nbits)
        if lo == hi:
            bits.uint(0, 6)
        else:
            # the width of the differences leaves room for the all-ones pattern of a missing value
            n = 1
            while hi - lo + 1 > 2 ** n - 2:
                n += 1
            bits.uint(n, 6)
            for r in raws:
                bits.uint(r - lo, n)
    return bits.section4()


def labels_of(template_data):
    return [[d.id for d in descriptors] for descriptors in template_data.decoded_descriptors_all_subsets]


def decoded_strings_stripped(values_all_subsets):
    return [[v.decode('latin-1').rstrip() if isinstance(v, bytes) else v for v in values]
            for values in values_all_subsets]


def run_both_ways(title, ids, subsets, compressed, expected_labels, expected_links, expected_section4):
    """
    Encode with every cache size, then decode the bytes with every cache size.
    """
    json_string = json.dumps(message(ids, subsets, compressed))
    serialized = set()
    for k in CACHE_SIZES:
        encoder = Encoder() if k is None else Encoder(compiled_template_cache_max=k)
        for turn in range(2):  # the second turn is a cache hit when k > 0
            m = encoder.process(json_string)
            td = m.template_data.value
            what = '{}: encoder cache={} turn={}'.format(title, k, turn)
            check(m.serialized_bytes[-4 - len(expected_section4):-4] == expected_section4, what + ' section 4')
            check(m.serialized_bytes[-4:] == b'7777', what + ' section 5')
            check(labels_of(td) == expected_labels, what + ' labels')
            check([dict(x) for x in td.bitmap_links_all_subsets] == expected_links, what + ' links')
            check(td.decoded_values_all_subsets == [list(s) for s in subsets], what + ' values')
            serialized.add(m.serialized_bytes)
    check(len(serialized) == 1, title + ': same bytes from every encoder')
    s = serialized.pop()

    for k in CACHE_SIZES:
        decoder = Decoder() if k is None else Decoder(compiled_template_cache_max=k)
        for turn in range(2):
            td = decoder.process(s).template_data.value
            what = '{}: decoder cache={} turn={}'.format(title, k, turn)
            check(labels_of(td) == expected_labels, what + ' labels')
            check([dict(x) for x in td.bitmap_links_all_subsets] == expected_links, what + ' links')
            check(decoded_strings_stripped(td.decoded_values_all_subsets) == [list(x) for x in subsets],
                  what + ' values')
            if compressed and len(subsets) > 1:
                check(td.decoded_descriptors_all_subsets[0] is td.decoded_descriptors_all_subsets[1],
                      what + ' shared descriptors')
    return s


# ---------------------------------------------------------------------------
# 1. Uncompressed data: delayed replications and a bitmap whose sizes differ from subset to subset
IDS_1 = [1001, 1002, 1015, 101000, 31001, 12001,
         222000, 236000, 101000, 31001, 31031, 1031, 1032, 101000, 31001, 33007]
A = [12, 345, 'STATION-A', 2, 280.5, 290.1, 0, 0, 3, 1, 0, 0, 98, 1, 2, 70, 80]
B = [13, 346, 'STATION-B', 1, 270.0, 0, 0, 2, 0, 0, 98, 1, 2, 50, 60]
C = [14, 347, 'STATION-C', 0, 0, 0, 1, 0, 98, 1, 1, 33]
LABELS_A = [1001, 1002, 1015, 31001, 12001, 12001, 222000, 236000, 31001, 31031, 31031, 31031,
            1031, 1032, 31001, 33007, 33007]
LABELS_B = [1001, 1002, 1015, 31001, 12001, 222000, 236000, 31001, 31031, 31031, 1031, 1032, 31001, 33007, 33007]
LABELS_C = [1001, 1002, 1015, 31001, 222000, 236000, 31001, 31031, 1031, 1032, 31001, 33007]
# The bitmap covers the last elements before 222000; a zero bit selects the element
LINKS_A = {15: 4, 16: 5}
LINKS_B = {13: 3, 14: 4}
LINKS_C = {11: 3}

for name, subsets, labels, links in (
        ('uncompressed, 3 subsets', [A, B, C], [LABELS_A, LABELS_B, LABELS_C], [LINKS_A, LINKS_B, LINKS_C]),
        ('uncompressed, 3 subsets, other order', [C, A, B], [LABELS_C, LABELS_A, LABELS_B],
         [LINKS_C, LINKS_A, LINKS_B]),
        ('uncompressed, 2 equal subsets', [B, B], [LABELS_B, LABELS_B], [LINKS_B, LINKS_B]),
        ('uncompressed, 1 subset', [A], [LABELS_A], [LINKS_A]),
        ('uncompressed, no subset', [], [], []),
):
    run_both_ways(name, IDS_1, subsets, False, labels, links, pack_uncompressed(labels, subsets))

# ---------------------------------------------------------------------------
# 2. Compressed data: one pass for all the subsets
IDS_2 = [1001, 1002, 101000, 31001, 12001, 222000, 101000, 31001, 31031, 1031, 1032, 101000, 31001, 33007]
P = [12, 345, 2, 280.5, 290.1, 0, 3, 1, 0, 0, 98, 1, 2, 70, 80]
Q = [12, 346, 2, 281.0, 290.1, 0, 3, 1, 0, 0, 98, 1, 2, 71, 90]
R = [12, 350, 2, 250.3, 290.1, 0, 3, 1, 0, 0, 98, 1, 2, 72, 100]
LABELS_P = [1001, 1002, 31001, 12001, 12001, 222000, 31001, 31031, 31031, 31031, 1031, 1032, 31001, 33007, 33007]
LINKS_P = {13: 3, 14: 4}
for name, subsets in (('compressed, 3 subsets', [P, Q, R]),
                      ('compressed, 2 equal subsets', [Q, Q]),
                      ('compressed, 1 subset', [R])):
    n = len(subsets)
    run_both_ways(name, IDS_2, subsets, True, [LABELS_P] * n, [LINKS_P] * n, pack_compressed(LABELS_P, subsets))

# ---------------------------------------------------------------------------
# 3. Templates that the compiler refuses (241000 is not implemented; 204000 cancels an associated
#    field that was never opened), in a message without subsets: without compilation nothing is
#    run, with compilation the template is compiled before the subsets are gone through, so that
#    the refusal shows. With one subset the same refusal comes from both paths.
for ids, error_type, error_text in (
        ([1001, 241000, 1002], NotImplementedError, 'Operator Descriptor 241000 not implemented'),
        ([1001, 204000, 1002], IndexError, 'pop from empty list'),
):
    json_string = json.dumps(message(ids, [], False))
    m = Encoder().process(json_string)
    check(m.template_data.value.decoded_values_all_subsets == [], 'no subset: encoder without compilation')
    td = Decoder().process(m.serialized_bytes).template_data.value
    check(td.decoded_values_all_subsets == [] and td.decoded_descriptors_all_subsets == [],
          'no subset: decoder without compilation')
    for k in (0, 1, 200):
        for coder, arg in ((Encoder(compiled_template_cache_max=k), json_string),
                           (Decoder(compiled_template_cache_max=k), m.serialized_bytes)):
            for turn in range(2):
                try:
                    coder.process(arg)
                except error_type as e:
                    check(type(e) is error_type and str(e) == error_text, 'no subset: text of the refusal')
                    check(len(coder.compiled_template_manager.cache) == 0, 'no subset: nothing cached')
                else:
                    check(False, 'no subset: {} cache={} must refuse {}'.format(type(coder).__name__, k, ids))

    json_string = json.dumps(message(ids, [[1, 2]], False))
    for k in CACHE_SIZES:
        try:
            (Encoder() if k is None else Encoder(compiled_template_cache_max=k)).process(json_string)
        except error_type as e:
            check(type(e) is error_type and str(e) == error_text, 'one subset: text of the refusal')
        else:
            check(False, 'one subset: cache={} must refuse {}'.format(k, ids))

# ---------------------------------------------------------------------------
# 4. The sample files: each decoded message is compared with the decoding without compilation,
#    each JSON file is encoded with and without compilation, and what was encoded is decoded
#    again to the values of the JSON file. One coder per cache size goes through all files, forwards and backwards,
#    so that compiled templates are evicted and compiled again.
def comparable(template_data):
    return (labels_of(template_data),
            [[type(d).__name__ for d in ds] for ds in template_data.decoded_descriptors_all_subsets],
            [[str(d) for d in ds] for ds in template_data.decoded_descriptors_all_subsets],
            template_data.decoded_values_all_subsets,
            [dict(x) for x in template_data.bitmap_links_all_subsets])


def to_text(values_all_subsets):
    return [[v.decode('latin-1') if isinstance(v, bytes) else v for v in values]
            for values in values_all_subsets]


def outcome(coder, arg, with_bytes=False):
    """
    What comes out of a coder: the data, or the error.
    """
    try:
        m = coder.process(arg)
    except Exception as e:
        return 'error', type(e).__name__, str(e)
    if with_bytes:
        return 'fine', m.serialized_bytes, comparable(m.template_data.value)
    return 'fine', comparable(m.template_data.value)


bufr_files = sorted(glob.glob('tests/data/*.bufr')) + sorted(glob.glob('tests/benchmark_data/*.bufr'))[::10]
check(len(bufr_files) > 25, 'sample files found')
contents = {}
for f in bufr_files:
    with open(f, 'rb') as ins:
        contents[f] = ins.read()

reference_decoder = Decoder()
reference = {}
for f in bufr_files:
    reference[f] = outcome(reference_decoder, contents[f])

for k in (0, 1, 2, 200):
    decoder = Decoder(compiled_template_cache_max=k)
    for f in bufr_files + bufr_files[::-1]:
        check(outcome(decoder, contents[f]) == reference[f],
              '{}: decoder cache={}'.format(f, k))
    check(len(decoder.compiled_template_manager.cache) <= k, 'cache bound')
check(sum(1 for f in bufr_files if reference[f][0] == 'fine') > 25, 'sample files decoded')

json_files = sorted(glob.glob('tests/data/*.json'))
check(len(json_files) >= 10, 'JSON files found')
texts = {}
for f in json_files:
    with open(f) as ins:
        texts[f] = ins.read()
reference_encoder = Encoder()
reference = {}
for f in json_files:
    reference[f] = outcome(reference_encoder, texts[f], with_bytes=True)
    if reference[f][0] == 'fine':
        # what was encoded decodes to the values of the JSON file
        again = reference_decoder.process(reference[f][1]).template_data.value.decoded_values_all_subsets
        check(to_text(again) == json.loads(texts[f])[-2][-1], f + ': encoded values decode to themselves')
for k in (0, 1, 2, 200):
    encoder = Encoder(compiled_template_cache_max=k)
    for f in json_files + json_files[::-1]:
        check(outcome(encoder, texts[f], with_bytes=True) == reference[f],
              '{}: encoder cache={}'.format(f, k))

check(sum(1 for f in json_files if reference[f][0] == 'fine') >= 10, 'JSON files encoded')

print('OK ({} checks)'.format(N_CHECKS[0]))
