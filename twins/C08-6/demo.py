import os, sys; sys.path.insert(0, os.getcwd())
"""
Differential demonstration for refactor 6 (the recording methods of CompilerState and
TemplateCompiler name the recorded method themselves instead of asking the call stack).

1. A template written by hand reaches every recording method (six of CompilerState, eight of
   TemplateCompiler, the loops with a constant and with a recorded factor, the two 031031
   statements). The compiled program is compared, statement by statement, with the program
   written down by hand below (method names, arguments with their types, state properties).
2. A message with that template is encoded and decoded without compilation, with compilation,
   and with the compiled template written to JSON and loaded back; values, labels, attribute
   links are compared with those written down by hand, the bytes of section 4 with the
   output of a bit packer of this file.
3. The compiled programs of the templates of the sample files are compared with a digest
   taken from the code before the refactor, and the samples are decoded with and without
   compilation.
"""
import glob
import hashlib
import json
import logging

from pybufrkit.coder import CoderState, BSRModifier
from pybufrkit.decoder import Decoder
from pybufrkit.encoder import Encoder
from pybufrkit.tables import TableGroupCacheManager
from pybufrkit import templatecompiler as tc

logging.disable(logging.CRITICAL)  # the warnings about local tables of the samples are of no interest

N_CHECKS = [0]


def check(cond, what):
    N_CHECKS[0] += 1
    if not cond:
        print('FAILED: ' + what)
        sys.exit(1)


def message(ids, subsets, compressed):
    return [["BUFR", 0, 4],
            [22, 0, 0, 0, 0, False, "0000000", 0, 0, 0, 29, 0, 2020, 1, 2, 3, 4, 5],
            [0, "00000000", len(subsets), True, compressed, "000000", list(ids)],
            [0, "00000000", [list(s) for s in subsets]],
            ["7777"]]


# ---------------------------------------------------------------------------
# 1. The program of a template that uses every recording method
T1 = [1001,
      201130, 12001, 201000,
      207001, 12001, 207000,
      208002, 1015, 208000,
      1015, 2001, 205003,
      203012, 12001, 203255, 12001, 203000, 12001,
      101000, 31001, 2001,
      102002, 1001, 1002,
      222000, 236000, 101003, 31031, 1031, 101002, 33007,
      223000, 237000, 201129, 223255, 201000, 237255, 235000,
      31021]
# An associated field, apart: a compiled template that went through JSON forgets that the field
# is an associated one and labels it 001001 instead of A01001 (before and after this refactor),
# so this one is not sent through JSON below
T2 = [204007, 31021, 1001, 204000]

E, O, A = 'ElementDescriptor', 'OperatorDescriptor', 'AssociatedDescriptor'
NO_BSR = BSRModifier(nbits_increment=0, scale_increment=0, refval_factor=1)


def coder(name, *args, **kwargs):
    return ('CoderMethodCall', name, args, kwargs.get('state_properties'))


def state(name):
    return ('StateMethodCall', name, (), None)


# Widths, scales and reference values are those of WMO Table B: 001001 7 bits, 001002 10 bits,
# 012001 12 bits scale 1, 001015 20 bytes, 002001 2 bits (code), 031001 8 bits, 031031 1 bit (flag),
# 001031 16 bits (code), 033007 7 bits, 031021 6 bits (code)
EXPECTED_PROGRAM = [
    coder('process_numeric', (E, 1001), 7, 1.0, 0),
    coder('process_numeric', (E, 12001), 14, 10.0, 0),  # 201130: two bits more
    coder('process_numeric', (E, 12001), 16, 100.0, 0),  # 207001: (10 + 2) // 3 bits more, scale + 1, refval * 10
    coder('process_string', (E, 1015), 2),  # 208002
    coder('process_string', (E, 1015), 20),
    coder('process_codeflag', (E, 2001), 2),
    coder('process_string', (O, 205003), 3),
    coder('process_new_refval', (E, 12001), 12),  # 203012
    coder('process_numeric_of_new_refval', (E, 12001), 12, 10.0, 1),
    state('cancel_new_refvals'),  # 203000
    coder('process_numeric', (E, 12001), 12, 10.0, 0),
    coder('process_numeric', (E, 31001), 8, 1.0, 0),
    ('Loop', coder('get_value_for_delayed_replication_factor'), [
        coder('process_codeflag', (E, 2001), 2),
    ]),
    ('Loop', 2, [
        coder('process_numeric', (E, 1001), 7, 1.0, 0),
        coder('process_numeric', (E, 1002), 10, 1.0, 0),
    ]),
    state('mark_back_reference_boundary'),
    coder('process_constant', (O, 222000), 0),
    ('State031031Reset',),  # on 236000
    coder('process_constant', (O, 236000), 0),
    ('State031031Reset',),  # on 101003, still waiting for the first bit
    ('Loop', 3, [
        ('State031031Increment',),
        coder('process_codeflag', (E, 31031), 1),
    ]),
    coder('define_bitmap', True),
    coder('process_codeflag', (E, 1031), 16),
    ('Loop', 2, [
        state('add_bitmap_link'),
        coder('process_numeric', (E, 33007), 7, 1.0, 0),
    ]),
    state('mark_back_reference_boundary'),
    coder('process_constant', (O, 223000), 0),
    state('recall_bitmap'),
    coder('process_constant', (O, 237000), 0),
    coder('process_bitmapped_descriptor', (O, 223255),
          state_properties={'new_nbytes': 0, 'nbits_offset': 1, 'scale_offset': 0, 'bsr_modifier': NO_BSR}),
    state('cancel_bitmap'),
    coder('process_constant', (O, 237255), 0),
    state('cancel_all_back_references'),
    coder('process_codeflag', (E, 31021), 6),
]
EXPECTED_PROGRAM_2 = [
    coder('process_codeflag', (E, 31021), 6),  # no associated field for class 31
    coder('process_codeflag', (A, 1001), 7),  # 204007
    coder('process_numeric', (E, 1001), 7, 1.0, 0),
]


def plain(statement):
    """
    A statement of a compiled template as plain data.
    """
    t = type(statement)
    if t is tc.Loop:
        repeat = statement.repeat if type(statement.repeat) is int else plain(statement.repeat)
        return 'Loop', repeat, [plain(x) for x in statement.statements]
    if t in (tc.CoderMethodCall, tc.StateMethodCall):
        check(type(statement.method_name) is str, 'method name is a string')
        check(type(statement.args) is tuple, 'arguments are a tuple')
        args = tuple((type(a).__name__, a.id) if hasattr(a, 'id') else a for a in statement.args)
        return t.__name__, statement.method_name, args, statement.state_properties
    check(t in (tc.State031031Reset, tc.State031031Increment), 'known statement type ' + t.__name__)
    check(vars(statement) == {}, 'no attributes on ' + t.__name__)
    return (t.__name__,)


def same_with_types(a, b):
    """
    Equality that tells 1 from 1.0 and from True
    """
    if type(a) is not type(b):
        return False
    if isinstance(a, (list, tuple)):
        return len(a) == len(b) and all(same_with_types(x, y) for x, y in zip(a, b))
    if isinstance(a, dict):
        return sorted(a) == sorted(b) and all(same_with_types(a[k], b[k]) for k in a)
    return a == b


table_group = TableGroupCacheManager.get_table_group(master_table_version=29)
template = table_group.template_from_ids(*T1)
compiled = tc.TemplateCompiler().process(template, table_group)
check(type(compiled) is tc.CompiledTemplate, 'a compiled template')
for ids, expected_program in ((T1, EXPECTED_PROGRAM), (T2, EXPECTED_PROGRAM_2)):
    program = [plain(x) for x in
               tc.TemplateCompiler().process(table_group.template_from_ids(*ids), table_group).statements]
    check(len(program) == len(expected_program), 'length of the program')
    for i, (got, expected) in enumerate(zip(program, expected_program)):
        check(same_with_types(got, expected), 'statement {}: {!r} instead of {!r}'.format(i, got, expected))
check(str(compiled.statements[0]) == 'coder.process_numeric(001001,7,1.0,0)', 'text of a coder call')
check(str(compiled.statements[9]) == 'state.cancel_new_refvals()', 'text of a state call')
check(str(compiled.statements[12]) ==
      '<coder.get_value_for_delayed_replication_factor(), [coder.process_codeflag(002001,2)]>', 'text of a loop')

# Every recorded name is a method of the object it is to be called on when the template runs,
# and the recording methods keep their names and give nothing back
for cls in (Decoder, Encoder):
    for statement in EXPECTED_PROGRAM:
        if statement[0] == 'CoderMethodCall':
            check(callable(getattr(cls, statement[1])), cls.__name__ + '.' + statement[1])
for name in ('cancel_new_refvals', 'mark_back_reference_boundary', 'recall_bitmap', 'cancel_bitmap',
             'cancel_all_back_references', 'add_bitmap_link'):
    check(callable(getattr(CoderState, name)), 'CoderState.' + name)
    check(getattr(tc.CompilerState, name).__name__ == name, 'name of CompilerState.' + name)
    compiler_state = tc.CompilerState(table_group, template)
    compiler_state.new_refvals[12001] = None
    check(getattr(compiler_state, name)() is None, name + ' returns nothing')
    check([plain(x) for x in compiler_state.compiled_template.statements] == [state(name)], name + ' recorded once')
    check(compiler_state.new_refvals == ({} if name == 'cancel_new_refvals' else {12001: None}),
          name + ' and the new reference values of the compiler')

# Twice the same template: two programs that are equal and share nothing but descriptors
again = tc.TemplateCompiler().process(template, table_group)
check(again is not compiled and again.to_dict() == compiled.to_dict(), 'compiling again')

# ---------------------------------------------------------------------------
# 2. Running the program
V1 = [12, 300.0, 300.25, 'AB', 'STATION', 1, 'XYZ', -100, -5.0, 280.5, 2, 1, 2, 5, 100, 6, 101,
      0, 0, 0, 1, 0, 98, 70, 80, 0, 0, 200, 0, 1]
EXPECTED_LABELS = ['001001', '012001', '012001', '001015', '001015', '002001', '205003', '012001', '012001',
                   '012001', '031001', '002001', '002001', '001001', '001002', '001001', '001002',
                   '222000', '236000', '031031', '031031', '031031', '001031', '033007', '033007',
                   '223000', '237000', 'T01002', '237255', '031021']
# The three bits 0 1 0 are for the last three elements before 222000: 001002 (index 14), 001001, 001002 (index 16)
EXPECTED_LINKS = {23: 14, 24: 16, 27: 14}
FIELDS = [(12, 7), (3000, 14), (30025, 16), ('AB', 2), ('STATION', 20), (1, 2), ('XYZ', 3),
          ((1 << 11) | 100, 12),  # a new reference value of -100: sign bit and magnitude
          (-50 + 100, 12), (2805, 12), (2, 8), (1, 2), (2, 2), (5, 7), (100, 10), (6, 7), (101, 10),
          (0, 1), (1, 1), (0, 1), (98, 16), (70, 7), (80, 7),
          (200, 11),  # the substituted value of 001002 under 201129
          (1, 6)]


def section4(fields):
    s = ''
    for value, n in fields:
        if isinstance(value, str):
            s += ''.join(format(c, '08b') for c in value.ljust(n).encode('latin-1'))
        else:
            assert 0 <= value < 2 ** n
            s += format(value, '0{}b'.format(n))
    s += '0' * (-len(s) % 8)
    data = bytes(int(s[i:i + 8], 2) for i in range(0, len(s), 8))
    return (len(data) + 4).to_bytes(3, 'big') + b'\x00' + data


def text(values_all_subsets):
    return [[v.decode('latin-1').rstrip() if isinstance(v, bytes) else v for v in values]
            for values in values_all_subsets]


def labels(template_data):
    return [[str(d) for d in ds] for ds in template_data.decoded_descriptors_all_subsets]


def with_loaded_templates(coder_):
    """
    Replace every compiled template of the cache by what comes back from its JSON form.
    """
    cache = coder_.compiled_template_manager.cache
    check(len(cache) > 0, 'something to reload')
    for key in list(cache):
        cache[key] = tc.loads_compiled_template(json.dumps(cache[key].to_dict()))
    return dict(cache)


def all_ways(cls, arg, title, reload=True):
    """
    The results of: no compilation, compilation (miss, hit), compiled template reloaded from JSON
    """
    results = [cls().process(arg)]
    c = cls(compiled_template_cache_max=0)
    results += [c.process(arg), c.process(arg)]
    c = cls(compiled_template_cache_max=3)
    results += [c.process(arg), c.process(arg)]
    if reload:
        loaded = with_loaded_templates(c)
        results += [c.process(arg)]
        check(all(c.compiled_template_manager.cache[k] is v for k, v in loaded.items()),
              title + ': reloaded template used')
    return results


EXPECTED_SECTION4 = section4(FIELDS)
for compressed, n_subsets in ((False, 1), (False, 2), (True, 1), (True, 3)):
    title = 'compressed={} subsets={}'.format(compressed, n_subsets)
    json_string = json.dumps(message(T1, [V1] * n_subsets, compressed))
    encoded = all_ways(Encoder, json_string, title)
    for m in encoded:
        td = m.template_data.value
        check(m.serialized_bytes == encoded[0].serialized_bytes, title + ': same bytes')
        check(labels(td) == [EXPECTED_LABELS] * n_subsets, title + ': labels (encoder) ' + repr(labels(td)))
        check([dict(x) for x in td.bitmap_links_all_subsets] == [EXPECTED_LINKS] * n_subsets, title + ': links (encoder)')
    s = encoded[0].serialized_bytes
    if not compressed:
        # the subsets follow one another without padding: one subset is enough for the packer
        if n_subsets == 1:
            check(s[-4 - len(EXPECTED_SECTION4):-4] == EXPECTED_SECTION4, title + ': bytes of section 4')
        else:
            check(s[-4 - len(section4(FIELDS * n_subsets)):-4] == section4(FIELDS * n_subsets),
                  title + ': bytes of section 4')
    for m in all_ways(Decoder, s, title):
        td = m.template_data.value
        check(text(td.decoded_values_all_subsets) == [V1] * n_subsets, title + ': values')
        check(labels(td) == [EXPECTED_LABELS] * n_subsets, title + ': labels')
        check([dict(x) for x in td.bitmap_links_all_subsets] == [EXPECTED_LINKS] * n_subsets, title + ': links')
        check(type(td.decoded_descriptors_all_subsets[0][27]).__name__ == 'MarkerDescriptor', title + ': marker')

# The associated field: 6 bits of 031021, 7 bits of associated field, 7 bits of 001001
for compressed in (False, True):
    title = 'associated field, compressed={}'.format(compressed)
    encoded = all_ways(Encoder, json.dumps(message(T2, [[1, 3, 9]], compressed)), title, reload=False)
    for m in encoded:
        check(m.serialized_bytes == encoded[0].serialized_bytes, title + ': same bytes')
        check(labels(m.template_data.value) == [['031021', 'A01001', '001001']], title + ': labels (encoder)')
    if not compressed:
        check(encoded[0].serialized_bytes[-11:-4] == section4([(1, 6), (3, 7), (9, 7)]), title + ': bytes of section 4')
    for m in all_ways(Decoder, encoded[0].serialized_bytes, title, reload=False):
        check(m.template_data.value.decoded_values_all_subsets == [[1, 3, 9]], title + ': values')
        check(labels(m.template_data.value) == [['031021', 'A01001', '001001']], title + ': labels')

# Errors at run time come from the recorded state methods as from the direct ones:
# 237000 with no bitmap defined for reuse, and more 033007 than zero bits in the bitmap
for ids, values, error_type, error_text in (
        ([1001, 223000, 237000, 223255], [1, 0, 0, 1], 'PyBufrKitError', 'Error: No bitmap is defined for reuse'),
        ([1001, 1002, 222000, 101002, 31031, 101002, 33007], [1, 2, 0, 0, 1, 50, 60], 'StopIteration', ''),
):
    json_string = json.dumps(message(ids, [values], False))
    for encoder in (Encoder(), Encoder(compiled_template_cache_max=0), Encoder(compiled_template_cache_max=2)):
        try:
            encoder.process(json_string)
        except BaseException as e:
            check((type(e).__name__, str(e)) == (error_type, error_text),
                  '{}: {} {!r}'.format(ids, type(e).__name__, str(e)))
        else:
            check(False, '{} must fail'.format(ids))

# ---------------------------------------------------------------------------
# 3. The sample files
GOLDEN = '9100ff4858c91f96631cad047e8156468499c3f3351b4dc77d7a4a0e0ba0afb4'
bufr_files = sorted(glob.glob('tests/data/*.bufr')) + sorted(glob.glob('tests/benchmark_data/*.bufr'))[::10]
check(len(bufr_files) > 25, 'sample files found')


def outcome(decoder, s):
    try:
        td = decoder.process(s).template_data.value
    except Exception as e:
        return 'error', type(e).__name__, str(e)
    return 'fine', labels(td), td.decoded_values_all_subsets, [dict(x) for x in td.bitmap_links_all_subsets]


def forgetful(result):
    """
    A template that went through JSON labels associated fields and skipped local descriptors as
    the plain element (021192 for S21192, 011001 for A11001), before and after this refactor.
    The comparison with reloaded templates leaves this letter aside.
    """
    if result[0] == 'fine':
        return (result[0], [['0' + x[1:] if x[0] in 'AS' else x for x in xs] for xs in result[1]]) + result[2:]
    return result


plain_decoder, compiling_decoder = Decoder(), Decoder(compiled_template_cache_max=1000)
n_fine = 0
for f in bufr_files:
    with open(f, 'rb') as ins:
        s = ins.read()
    expected = outcome(plain_decoder, s)
    n_fine += expected[0] == 'fine'
    check(outcome(compiling_decoder, s) == expected, f + ': with compilation')
check(n_fine > 25, 'sample files decoded')
reloading_decoder = Decoder(compiled_template_cache_max=1000)
reloading_decoder.compiled_template_manager.cache.update(compiling_decoder.compiled_template_manager.cache)
with_loaded_templates(reloading_decoder)
for f in bufr_files:
    with open(f, 'rb') as ins:
        s = ins.read()
    check(forgetful(outcome(reloading_decoder, s)) == forgetful(outcome(compiling_decoder, s)),
          f + ': with reloaded templates')

digest = hashlib.sha256()
cache = compiling_decoder.compiled_template_manager.cache
check(len(cache) > 20, 'compiled templates of the samples')
for key in sorted(cache, key=lambda k: (k[0], tuple(str(x) for x in k[1]))):
    digest.update(json.dumps([key[0], cache[key].to_dict()['statements']], sort_keys=True).encode('ascii'))
check(digest.hexdigest() == GOLDEN, 'digest of the compiled sample templates: ' + digest.hexdigest())

print('OK ({} checks)'.format(N_CHECKS[0]))
