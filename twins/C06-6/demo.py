import os, sys; sys.path.insert(0, os.getcwd())
"""
Differential demonstration for refactor 6 (TemplateData: the bracket around the wiring of a
replication / sequence turned into a context manager).

A subset is written down as a TREE (sequences, fixed and delayed replications with their repetitions,
elements with the raw bits they take and the value they stand for, quality information with the element
it refers to). From the tree, the demo derives by its own walk

  * the bits of the data section (message built by hand, bit by bit),
  * the hierarchical structure that wiring has to come up with, attributes included.

The library goes the other way round: from the bits to flat lists, and from the flat lists (wire) back
to a tree. Both trees are compared, for

  * a template with a sequence holding a fixed replication of sequences, a delayed replication holding
    an element, a fixed replication and a sequence, and a bitmap of delayed length with quality
    information, attached to elements inside the replications and to a replication factor,
  * delayed replications of 0, 1, 2, 3 repetitions; subsets alone, in all orders of two and three, all together,
  * decoder and encoder, plain and compiled template, uncompressed and compressed data,
  * wiring that fails inside a sequence / fixed replication / delayed replication (also in a later
    subset): same exception, same nodes left behind, the current node list left where it was, and the
    failure met again on the next attempt.

Exits 0 when everything agrees.
"""
import itertools

import pybufrkit
from pybufrkit.decoder import Decoder
from pybufrkit.encoder import Encoder
from pybufrkit.renderer import NestedJsonRenderer
from pybufrkit.templatedata import (TemplateData, ValueDataNode, NoValueDataNode, FixedReplicationNode,
                                    DelayedReplicationNode, SequenceNode)

assert os.path.dirname(os.path.dirname(os.path.abspath(pybufrkit.__file__))) == os.getcwd(), pybufrkit.__file__

N_CHECKS = [0]


def check(cond, what):
    N_CHECKS[0] += 1
    if not cond:
        print('FAILED: {}'.format(what))
        sys.exit(1)


# ---------------------------------------------------------------------------
# An independent bit packer and message builder (edition 4, no section 2)
def pack(fields):
    """fields: iterable of (uint value, nbits). Zero padded to a whole byte."""
    for v, n in fields:
        assert 0 <= v < (1 << n) or n == 0, (v, n)
    bits = ''.join(format(v, '0{}b'.format(n)) if n else '' for v, n in fields)
    bits += '0' * (-len(bits) % 8)
    return bytes(bytearray(int(bits[i:i + 8], 2) for i in range(0, len(bits), 8)))


def u(value, nbytes):
    return pack([(value, nbytes * 8)])


def build_message(descriptor_ids, n_subsets, compressed, data_fields):
    sec1 = (u(22, 3) + u(0, 1) + u(98, 2) + u(0, 2) + u(0, 1) + u(0, 1) + u(0, 1) + u(0, 1) + u(0, 1) +
            u(25, 1) + u(0, 1) + u(2020, 2) + u(1, 1) + u(2, 1) + u(3, 1) + u(4, 1) + u(5, 1))
    sec3_body = u(0, 1) + u(n_subsets, 2) + u(0x80 | (0x40 if compressed else 0), 1)
    for id_ in descriptor_ids:
        sec3_body += pack([(id_ // 100000, 2), (id_ // 1000 % 100, 6), (id_ % 1000, 8)])
    sec3 = u(3 + len(sec3_body), 3) + sec3_body
    data = pack(data_fields)
    sec4 = u(4 + len(data), 3) + u(0, 1) + data
    total = 8 + len(sec1) + len(sec3) + len(sec4) + 4
    return b'BUFR' + u(total, 3) + u(4, 1) + sec1 + sec3 + sec4 + b'7777'


def json_message(descriptor_ids, n_subsets, compressed, values_all_subsets):
    return [
        ['BUFR', 0, 4],
        [22, 0, 98, 0, 0, False, '0000000', 0, 0, 0, 25, 0, 2020, 1, 2, 3, 4, 5],
        [0, '00000000', n_subsets, True, compressed, '000000', list(descriptor_ids)],
        [0, '00000000', [list(values) for values in values_all_subsets]],
        ['7777'],
    ]


# ---------------------------------------------------------------------------
# The tree a subset is written down as
class El(object):
    """An element: nbits raw bits standing for value. ref: label of the element a quality information is about"""

    def __init__(self, id_, nbits, raw, value, label=None, ref=None):
        self.id, self.nbits, self.raw, self.value, self.label, self.ref = id_, nbits, raw, value, label, ref


class Op(object):
    """An operator that is given the constant value 0 and takes no bits, e.g. 222000"""

    def __init__(self, id_):
        self.id = id_


class Seq(object):
    def __init__(self, id_, members):
        self.id, self.members = id_, members


class Fixed(object):
    def __init__(self, id_, repetitions):
        self.id, self.repetitions = id_, repetitions


class Delayed(object):
    def __init__(self, id_, factor_label, repetitions):
        self.id, self.repetitions = id_, repetitions
        self.factor = El(31001, 8, len(repetitions), len(repetitions), label=factor_label)


class Flat(object):
    """What the walk over a tree leaves behind"""

    def __init__(self):
        self.ids, self.values, self.stream, self.links = [], [], [], {}
        self.by_label = {}  # label -> (index, shape of the node)

    def value_shape(self, item, class_name='ValueDataNode'):
        index = len(self.ids)
        self.ids.append(item.id)
        if isinstance(item, Op):
            self.values.append(0)
        else:
            self.values.append(item.value)
            self.stream.append((item.raw, item.nbits))
        shape = [class_name, item.id, index, []]
        if getattr(item, 'label', None) is not None:
            self.by_label[item.label] = (index, shape)
        return shape

    def walk(self, members):
        shapes = []
        for item in members:
            if isinstance(item, El) and item.ref is not None:
                shape = self.value_shape(item, 'QualityInfoNode')
                index_referred, shape_referred = self.by_label[item.ref]
                self.links[shape[2]] = index_referred
                shape_referred[3].append(shape)  # the attribute of the element it is about ...
                shapes.append(shape)  # ... and a node in its own place
            elif isinstance(item, (El, Op)):
                shapes.append(self.value_shape(item))
            elif isinstance(item, Seq):
                shapes.append(['SequenceNode', item.id, self.walk(item.members)])
            elif isinstance(item, Fixed):
                shapes.append(['FixedReplicationNode', item.id,
                               [shape for repetition in item.repetitions for shape in self.walk(repetition)]])
            elif isinstance(item, Delayed):
                factor_shape = self.value_shape(item.factor)
                shapes.append(['DelayedReplicationNode', item.id, factor_shape,
                               [shape for repetition in item.repetitions for shape in self.walk(repetition)]])
            else:
                raise AssertionError(item)
        return shapes


def flatten(tree):
    flat = Flat()
    flat.shapes = flat.walk(tree)
    return flat


# The same for what the library wired
def descriptor_id(descriptor):
    return getattr(descriptor, 'marker_id', descriptor.id)


def shape_of(node):
    class_name = type(node).__name__
    if isinstance(node, ValueDataNode):
        return [class_name, descriptor_id(node.descriptor), node.index,
                [shape_of(a) for a in getattr(node, 'attributes', [])]]
    if isinstance(node, DelayedReplicationNode):
        return [class_name, node.descriptor.id, shape_of(node.factor), [shape_of(m) for m in node.members]]
    if isinstance(node, (FixedReplicationNode, SequenceNode)):
        return [class_name, node.descriptor.id, [shape_of(m) for m in node.members]]
    assert type(node) is NoValueDataNode, node
    return [class_name, node.descriptor.id]


def shapes_of(nodes):
    return [shape_of(node) for node in nodes]


# ---------------------------------------------------------------------------
# 301014 is (102002 301011 301012); 301011 is (004001 004002 004003); 301012 is (004004 004005)
W = [301014,
     104000, 31001, 12001, 101002, 7004, 301012,
     222000, 101000, 31001, 31031,
     101000, 31001, 33007]


def ymd(y, m, d, labels=(None, None, None)):
    return Seq(301011, [El(4001, 12, y, y, labels[0]), El(4002, 4, m, m, labels[1]), El(4003, 6, d, d, labels[2])])


def hm(h, m, labels=(None, None)):
    return Seq(301012, [El(4004, 5, h, h, labels[0]), El(4005, 6, m, m, labels[1])])


def temperature(raw, label):  # 012001: K, scale 1, 12 bits
    return El(12001, 12, raw, raw / 10.0, label)


def pressure(raw, label):  # 007004: Pa, scale -1, 14 bits
    return El(7004, 14, raw, raw * 10.0, label)


def subset(period, levels, bits, qa):
    """
    period: ((y, m, d, h, mi), (y, m, d, h, mi)); its very last element is labelled 'mi', the one before 'h'
    levels: list of (t raw, p raw, p raw, h, mi); the elements of level i are labelled t<i>, p<i>0, p<i>1, h<i>, mi<i>
    bits: the bitmap; qa: list of (raw, value, label of the element referred to)
    """
    a, b = period
    return [
        Seq(301014, [Fixed(102002, [[ymd(*a[:3]), hm(*a[3:])],
                                    [ymd(*b[:3]), hm(*b[3:], labels=('h', 'mi'))]])]),
        Delayed(104000, 'f', [
            [temperature(t, 't%d' % i),
             Fixed(101002, [[pressure(p0, 'p%d0' % i)], [pressure(p1, 'p%d1' % i)]]),
             hm(h, mi, labels=('h%d' % i, 'mi%d' % i))]
            for i, (t, p0, p1, h, mi) in enumerate(levels)]),
        Op(222000),
        Delayed(101000, None, [[El(31031, 1, bit, bit)] for bit in bits]),
        Delayed(101000, None, [[El(33007, 7, raw, value, ref=ref)] for raw, value, ref in qa]),
    ]


PERIOD = ((2020, 1, 2, 3, 4), (2021, 5, 6, 7, 8))
SUBSETS = [
    # The bitmap is about the last len(bits) elements in front of 222000, in the order of the data
    subset(PERIOD, [(2731, 1000, 1001, 1, 2), (2741, 900, 901, 3, 4)],
           [0, 1, 1, 0], [(70, 70, 'p10'), (71, 71, 'mi1')]),
    # no repetition at all: the last elements are the minute of the period and the replication factor
    subset(((1999, 12, 31, 23, 59), (2000, 1, 1, 0, 0)), [],
           [1, 0], [(127, None, 'f')]),
    subset(PERIOD, [(2500, 950, 951, 5, 6)],
           [1], []),
    subset(PERIOD, [(2600, 800, 801, 7, 8), (2610, 810, 811, 9, 10), (2620, 820, 821, 11, 12)],
           [0, 0, 0, 0, 0, 0], [(1, 1, 'mi1'), (2, 2, 't2'), (3, 3, 'p20'), (4, 4, 'p21'), (5, 5, 'h2'), (6, 6, 'mi2')]),
    # quality information about the factor and about elements in front of the delayed replication
    subset(PERIOD, [(2700, 700, 701, 13, 14)],
           [0, 1, 0, 1, 1, 1, 1, 0], [(9, 9, 'h'), (8, 8, 'f'), (7, 7, 'mi0')]),
]


def observed(bufr_message):
    td = bufr_message.template_data.value
    return ([[descriptor_id(d) for d in ds] for ds in td.decoded_descriptors_all_subsets],
            [list(vs) for vs in td.decoded_values_all_subsets],
            [dict(ls) for ls in td.bitmap_links_all_subsets])


def wired(bufr_message):
    return [shapes_of(nodes) for nodes in bufr_message.template_data.value.decoded_nodes_all_subsets]


def rendered(bufr_message):
    for section in NestedJsonRenderer().render(bufr_message):
        for parameter in section:
            if parameter['name'] == 'template_data':
                return parameter['value']


def run_uncompressed():
    flats = [flatten(tree) for tree in SUBSETS]
    n = len(SUBSETS)
    orders = ([(i,) for i in range(n)] +
              list(itertools.permutations(range(n), 2)) +
              list(itertools.permutations(range(n), 3)) +
              [tuple(range(n)), tuple(reversed(range(n)))])
    rendered_alone = {}
    for order in orders:
        chosen = [flats[i] for i in order]
        message_bytes = build_message(W, len(order), False, [bf for flat in chosen for bf in flat.stream])
        expected_flat = ([f.ids for f in chosen], [f.values for f in chosen], [f.links for f in chosen])
        expected_shapes = [f.shapes for f in chosen]
        for compiled in (False, True):
            kwargs = {'compiled_template_cache_max': 10} if compiled else {}
            what = 'order {} (compiled={})'.format(order, compiled)
            message = Decoder(**kwargs).process(message_bytes)
            check(observed(message) == expected_flat, 'decoder: flat lists of ' + what)
            check(wired(message) == expected_shapes, 'decoder: structure of ' + what)
            td = message.template_data.value
            check(td.decoded_nodes is td.decoded_nodes_all_subsets[-1],
                  'decoder: current node list is the top level one of the last subset, ' + what)
            check(not hasattr(td, 'index_to_node') and td._is_wired, 'decoder: wiring finished, ' + what)
            if len(order) == 1:
                rendered_alone.setdefault(order[0], rendered(message)[0])
            check(rendered(message) == [rendered_alone[i] for i in order], 'decoder: rendering of ' + what)

            encoded = Encoder(**kwargs).process(json_message(W, len(order), False, expected_flat[1]))
            check(encoded.serialized_bytes == message_bytes, 'encoder: bytes of ' + what)
            check(observed(encoded) == expected_flat, 'encoder: flat lists of ' + what)
            check(wired(encoded) == expected_shapes, 'encoder: structure of ' + what)
            check(rendered(encoded) == [rendered_alone[i] for i in order], 'encoder: rendering of ' + what)

            # wiring twice changes nothing
            message.wire()
            check(wired(message) == expected_shapes, 'decoder: wired once only, ' + what)

    # The shapes are not vacuous
    check(flats[0].shapes[1][0] == 'DelayedReplicationNode' and len(flats[0].shapes[1][3]) == 6 and
          flats[0].shapes[1][3][1][0] == 'FixedReplicationNode' and flats[0].shapes[1][3][2][0] == 'SequenceNode' and
          flats[0].shapes[1][3][4][2][0][3] == [['QualityInfoNode', 33007, 28, []]] and
          flats[1].shapes[1] == ['DelayedReplicationNode', 104000,
                                 ['ValueDataNode', 31001, 10, [['QualityInfoNode', 33007, 16, []]]], []],
          'the expected structure is what was meant')


# ---------------------------------------------------------------------------
def width_of_increments(max_increment):
    nbits = 1
    while (1 << nbits) - 1 <= max_increment:
        nbits += 1
    return nbits


def run_compressed():
    # Same structure in every subset, different values. The values are chosen so that the width of the
    # increments (smallest width where the largest increment is not all ones) is also the one the encoder takes.
    trees = [
        subset(PERIOD, [(2731, 1000, 1001, 1, 2), (2741, 900, 901, 3, 4)], [0, 1, 1, 0], [(70, 70, 'p10'), (71, 71, 'mi1')]),
        subset(PERIOD, [(2735, 1000, 1011, 1, 7), (2741, 950, 901, 3, 9)], [0, 1, 1, 0], [(70, 70, 'p10'), (75, 75, 'mi1')]),
        subset(PERIOD, [(2739, 1000, 1021, 1, 6), (2741, 990, 901, 3, 4)], [0, 1, 1, 0], [(70, 70, 'p10'), (127, None, 'mi1')]),
    ]
    flats = [flatten(tree) for tree in trees]
    check(all(f.ids == flats[0].ids and f.links == flats[0].links for f in flats), 'compressed: same structure')
    stream = []
    for j, (_, nbits) in enumerate(flats[0].stream):
        raws = [f.stream[j][0] for f in flats]
        missing = (1 << nbits) - 1 if nbits > 1 else None
        present = [raw for raw in raws if raw != missing]
        if len(set(raws)) == 1:
            stream += [(raws[0], nbits), (0, 6)]
        else:
            low = min(present)
            n = width_of_increments(max(present) - low)
            stream += [(low, nbits), (n, 6)] + [((1 << n) - 1 if raw == missing else raw - low, n) for raw in raws]
    message_bytes = build_message(W, len(flats), True, stream)
    expected_flat = ([f.ids for f in flats], [f.values for f in flats], [f.links for f in flats])
    for compiled in (False, True):
        kwargs = {'compiled_template_cache_max': 10} if compiled else {}
        message = Decoder(**kwargs).process(message_bytes)
        check(observed(message) == expected_flat, 'compressed decoder: flat lists (compiled={})'.format(compiled))
        check(wired(message) == [f.shapes for f in flats], 'compressed decoder: structure (compiled={})'.format(compiled))
        nodes_all = message.template_data.value.decoded_nodes_all_subsets
        check(all(nodes is nodes_all[0] for nodes in nodes_all), 'compressed decoder: one node list for all subsets')
        encoded = Encoder(**kwargs).process(json_message(W, len(flats), True, expected_flat[1]))
        check(encoded.serialized_bytes == message_bytes, 'compressed encoder: bytes (compiled={})'.format(compiled))
        check(wired(encoded) == [f.shapes for f in flats], 'compressed encoder: structure (compiled={})'.format(compiled))
        check(rendered(encoded) == rendered(message), 'compressed: rendering')


# ---------------------------------------------------------------------------
def outcome(func):
    try:
        func()
    except Exception as e:
        return type(e), str(e)
    return None


def unwired(order, mutate):
    flats = [flatten(SUBSETS[i]) for i in order]
    message_bytes = build_message(W, len(order), False, [bf for flat in flats for bf in flat.stream])
    message = Decoder().process(message_bytes, wire_template_data=False)
    source = message.template_data.value
    descriptors = [list(ds) for ds in source.decoded_descriptors_all_subsets]
    values = [list(vs) for vs in source.decoded_values_all_subsets]
    mutate(descriptors, values)
    return flats, TemplateData(source.template, False, descriptors, values,
                               [dict(ls) for ls in source.bitmap_links_all_subsets])


def run_failures():
    full = flatten(SUBSETS[0]).shapes

    # Flat index in subset 0: 0-9 the period, 10 the factor, 11 t0, 12 p00, 13 p01, 14 h0, 15 mi0, 16 t1, ...
    def expect(name, order, mutate, exc_type, top_level, current, idx_failing=0):
        """top_level: shapes in the top level list of the failing subset; current: shapes in the current list"""
        flats, td = unwired(order, mutate)
        for attempt in (1, 2):
            result = outcome(td.wire)
            check(result is not None and result[0] is exc_type, '{}: {} raised (attempt {})'.format(
                name, exc_type.__name__, attempt))
            check(td._is_wired is False, '{}: not marked as wired'.format(name))
            for i in range(idx_failing):
                check(shapes_of(td.decoded_nodes_all_subsets[i]) == flats[i].shapes * attempt,
                      '{}: subset {} in front of the failing one is wired in full'.format(name, i))
            check(shapes_of(td.decoded_nodes_all_subsets[idx_failing]) == top_level * attempt,
                  '{}: top level nodes left behind (attempt {})'.format(name, attempt))
            for i in range(idx_failing + 1, len(order)):
                check(td.decoded_nodes_all_subsets[i] == [], '{}: subset {} not reached'.format(name, i))
            check(td.decoded_nodes is not td.decoded_nodes_all_subsets[idx_failing],
                  '{}: current node list is left where the failure was'.format(name))
            check(shapes_of(td.decoded_nodes) == current, '{}: nodes in the current list'.format(name))
            check(hasattr(td, 'index_to_node'), '{}: index_to_node left behind'.format(name))

    def cut(idx_subset, length):
        def mutate(descriptors, values):
            del descriptors[idx_subset][length:]
        return mutate

    def no_factor(idx_subset, index):
        def mutate(descriptors, values):
            values[idx_subset][index] = None
        return mutate

    value = lambda id_, index: ['ValueDataNode', id_, index, []]
    period_a_ymd = ['SequenceNode', 301011, [value(4001, 0), value(4002, 1), value(4003, 2)]]

    # inside a sequence (301012) inside a fixed replication inside a sequence (301014)
    expect('sequence', (0,), cut(0, 4), IndexError, [], [value(4004, 3)])
    # inside a fixed replication (101002) inside a delayed replication
    expect('fixed replication', (0,), cut(0, 13), IndexError, [full[0]], [value(7004, 12)])
    # inside a delayed replication: first in its second repetition, then at its factor, then with no factor value
    expect('delayed replication', (0,), cut(0, 16), IndexError, [full[0]], full[1][3][:3])
    expect('delayed replication factor', (0,), cut(0, 10), IndexError, [full[0]], [])
    expect('delayed replication count', (0,), no_factor(0, 10), TypeError, [full[0]], [])
    # the same in a later subset
    expect('sequence, third subset', (2, 1, 0, 3), cut(2, 4), IndexError, [], [value(4004, 3)], idx_failing=2)
    expect('delayed replication count, second subset', (3, 0), no_factor(1, 10), TypeError, [full[0]], [],
           idx_failing=1)

    # An attribute that cannot be attached (the link points nowhere): KeyError inside the last delayed replication
    flats, td = unwired((0,), lambda descriptors, values: None)
    check(td.bitmap_links_all_subsets[0] == {28: 17, 29: 20}, 'dangling link: the links as decoded')
    td.bitmap_links_all_subsets[0][28] = 999
    result = outcome(td.wire)
    check(result is not None and result[0] is KeyError, 'dangling link: KeyError')
    check([s[:2] for s in shapes_of(td.decoded_nodes_all_subsets[0])] ==
          [['SequenceNode', 301014], ['DelayedReplicationNode', 104000], ['ValueDataNode', 222000],
           ['DelayedReplicationNode', 101000]], 'dangling link: top level nodes left behind')
    check(shapes_of(td.decoded_nodes) == [['QualityInfoNode', 33007, 28, []]],
          'dangling link: the node is in the current list already')
    check(td.decoded_nodes is not td.decoded_nodes_all_subsets[0], 'dangling link: current list left where it was')


if __name__ == '__main__':
    run_uncompressed()
    run_compressed()
    run_failures()
    print('OK ({} checks)'.format(N_CHECKS[0]))
