import os, sys; sys.path.insert(0, os.getcwd())

"""
Differential demonstration for refactor 8 (tables._descriptors_from_ids / _descriptors_from_ids_iter: the IDs
travel as a shared iterator, members of a replication come from an itertools.islice of it).

The trees built by the library are compared with a model that does not stream at all: it works on the complete
list with index spans (a replication at position i owns ids[i+1 : i+1+X] cut at the end of the span of the
replication that encloses it; the class 31 factor of a delayed replication sits in front of that span and
belongs to the enclosing span). Table B / D contents are read straight from the JSON files.
Exits 0 unpatched and patched.
"""
import json
import random

import pybufrkit

assert os.path.dirname(os.path.dirname(os.path.abspath(pybufrkit.__file__))) == os.getcwd(), pybufrkit.__file__

from pybufrkit import tables
from pybufrkit.errors import PyBufrKitError
from pybufrkit.tables import TableGroupCacheManager
from pybufrkit.descriptors import (ElementDescriptor, FixedReplicationDescriptor, DelayedReplicationDescriptor,
                                   OperatorDescriptor, SequenceDescriptor, BufrTemplate,
                                   UndefinedElementDescriptor, UndefinedSequenceDescriptor, flat_member_ids)

TABLES_DIR = os.path.join(os.getcwd(), 'pybufrkit', 'tables')
N_CHECKS = [0]


def check(condition, what):
    N_CHECKS[0] += 1
    if not condition:
        print('FAILED: {}'.format(what))
        sys.exit(1)


def load_json(sn, fname):
    with open(os.path.join(TABLES_DIR, *(sn + (fname,)))) as ins:
        return dict((int(k), v) for k, v in json.load(ins).items())


# ---------------------------------------------------------------------------------------------------------------------
# The model
# ---------------------------------------------------------------------------------------------------------------------
class ModelError(Exception):
    pass


def to_int(x):
    return x if isinstance(x, int) else int(x)


def model_tree(ids, in_b, expand):
    """
    ids -> nested tuples. in_b(id) says whether Table B has the element; expand(id) gives the tree of a sequence,
    or None if Table D does not have it. IDs are converted when they are first looked at, as the library does, so that
    an invalid ID behind the point of failure goes unnoticed.
    """
    ids = list(ids)

    def at(i):
        ids[i] = to_int(ids[i])
        return ids[i]

    def element(id_):
        return ('ElementDescriptor' if in_b(id_) else 'UndefinedElementDescriptor'), id_

    def span(i, end):
        out = []
        while i < end:
            id_ = at(i)
            i += 1
            if id_ >= 300000:
                members = expand(id_)
                out.append(('UndefinedSequenceDescriptor', id_) if members is None else
                           ('SequenceDescriptor', id_, members))
            elif id_ >= 200000:
                out.append(('OperatorDescriptor', id_))
            elif id_ >= 100000:
                x, y = id_ // 1000 % 100, id_ % 1000
                factor = None
                if y == 0:
                    if i >= end:
                        raise ModelError(
                            'Delayed replication descriptor {} is not followed by a replication factor'.format(id_))
                    factor = element(at(i))
                    i += 1
                stop = min(i + x, end)
                out.append((('DelayedReplicationDescriptor' if y == 0 else 'FixedReplicationDescriptor'),
                            id_, factor, span(i, stop)))
                i = stop
            else:
                out.append(element(id_))
        return tuple(out)

    return span(0, len(ids))


def model_flat(tree):
    out = []
    for node in tree:
        if node[0] == 'SequenceDescriptor':
            out.extend(model_flat(node[2]))
        elif node[0] in ('FixedReplicationDescriptor', 'DelayedReplicationDescriptor'):
            out.append(node[1])
            if node[2] is not None:
                out.append(node[2][1])
            out.extend(model_flat(node[3]))
        else:
            out.append(node[1])
    return out


def shape(descriptor, deep=True):
    kind = type(descriptor).__name__
    if kind in ('SequenceDescriptor', 'BufrTemplate'):
        return kind, descriptor.id, (shapes(descriptor.members, deep) if deep else '...')
    if kind in ('FixedReplicationDescriptor', 'DelayedReplicationDescriptor'):
        factor = getattr(descriptor, 'factor', None)
        return kind, descriptor.id, None if factor is None else shape(factor), shapes(descriptor.members, deep)
    return kind, descriptor.id


def shapes(descriptors, deep=True):
    return tuple(shape(d, deep) for d in descriptors)


def elements_of(descriptors):
    for d in descriptors:
        if isinstance(d, ElementDescriptor):
            yield d
        elif isinstance(d, DelayedReplicationDescriptor) and isinstance(d.factor, ElementDescriptor):
            yield d.factor
        for x in elements_of(getattr(d, 'members', None) or ()):
            yield x


# ---------------------------------------------------------------------------------------------------------------------
# 1. Every sequence of every bundled Table D (the loader builds the members with the same function)
# ---------------------------------------------------------------------------------------------------------------------
def table_d_model(b, d_files):
    """
    Trees of the sequences as the files define them. A later file (local table) replaces definitions of an earlier
    one, and its sequences see the replaced ones; the sequences of the earlier file keep what they saw.
    """
    trees, env = {}, {}
    for d_file in d_files:
        env = dict(env)
        env.update((k, (v[1], None)) for k, v in d_file.items())
        scope = env
        cache = {}

        def expand(id_, scope=scope, cache=cache):
            if id_ not in scope:
                return None
            member_ids, tree_of_earlier_file = scope[id_]
            if tree_of_earlier_file is not None:
                return tree_of_earlier_file
            if id_ not in cache:
                cache[id_] = model_tree(member_ids, b.__contains__, expand)
            return cache[id_]

        for id_ in d_file:
            trees[id_] = expand(id_)
        env = dict((k, (v[0], trees[k])) for k, v in env.items())
    return trees


n_sequences = n_groups = n_elements = 0
wmo_versions = sorted((int(v) for v in os.listdir(os.path.join(TABLES_DIR, '0', '0_0'))))
local_versions = sorted((int(v) for v in os.listdir(os.path.join(TABLES_DIR, '0', '98_0'))))
check(len(wmo_versions) == 36 and local_versions == [1, 2, 3, 101], (wmo_versions, local_versions))
for version in wmo_versions:
    for local_version in [0] + (local_versions if version in (13, 33, 41) else local_versions[version % 4:][:1]):
        sns = [('0', '0_0', str(version))] + ([('0', '98_0', str(local_version))] if local_version else [])
        b = {}
        for sn in sns:
            b.update(load_json(sn, 'TableB.json'))
        d_files = [load_json(sn, 'TableD.json') for sn in sns]
        trees = table_d_model(b, d_files)

        group = TableGroupCacheManager.get_table_group(
            originating_centre=98 if local_version else None,
            master_table_version=version, local_table_version=local_version)
        check(group.key.wmo_tables_sn == sns[0] and group.key.local_tables_sn == (sns[1] if local_version else None),
              group.key)
        check(sorted(group.D.descriptors) == sorted(trees), 'sequences of {}'.format(sns))
        for id_, tree in trees.items():
            sequence = group.lookup(id_)
            check(type(sequence) is SequenceDescriptor and type(sequence.members) is list, id_)
            if shapes(sequence.members) != tree:
                check(False, '{} {}: {} instead of {}'.format(sns, id_, shapes(sequence.members), tree))
            N_CHECKS[0] += 1
            if flat_member_ids(sequence) != model_flat(tree):
                check(False, '{} {}: flat {}'.format(sns, id_, flat_member_ids(sequence)))
            N_CHECKS[0] += 1
            for element in elements_of(sequence.members):
                n_elements += 1
                if (element.as_list() + [element.crex_unit, element.crex_scale, element.crex_nchars]
                        != [element.id] + b[element.id] or element is not group.B.descriptors[element.id]):
                    check(False, '{} {}: element {}'.format(sns, id_, element))
            n_sequences += 1
        n_groups += 1
check(n_sequences > 18000, n_sequences)

# ---------------------------------------------------------------------------------------------------------------------
# 2. Descriptor lists: hand written
# ---------------------------------------------------------------------------------------------------------------------
TableGroupCacheManager.invalidate()
group = TableGroupCacheManager.get_table_group()
check(group.key.wmo_tables_sn == ('0', '0_0', '33') and group.key.local_tables_sn is None, group.key)
B = load_json(('0', '0_0', '33'), 'TableB.json')
D = load_json(('0', '0_0', '33'), 'TableD.json')


def expand_shallow(id_):
    return '...' if id_ in D else None


def run_model(ids):
    try:
        return 'ok', model_tree(ids, B.__contains__, expand_shallow)
    except ModelError as e:
        return 'PyBufrKitError', str(e)
    except ValueError:
        return 'ValueError', None
    except TypeError:
        return 'TypeError', None


def run_real(build, ids):
    try:
        ret = build(*ids)
    except PyBufrKitError as e:
        check(type(e) is PyBufrKitError and type(e.__context__) is StopIteration and e.__cause__ is None, repr(e))
        check(str(e) == 'Error: ' + e.message, str(e))
        return 'PyBufrKitError', e.message
    except ValueError:
        return 'ValueError', None
    except TypeError:
        return 'TypeError', None
    check(type(ret) is list, type(ret))
    return 'ok', shapes(ret, deep=False)


def identities(descriptors):
    """table entries are shared, replication descriptors are made anew"""
    for d in descriptors:
        if isinstance(d, (FixedReplicationDescriptor, DelayedReplicationDescriptor)):
            check(type(d.members) is list, 'members are a list')
            if isinstance(d, DelayedReplicationDescriptor):
                check(d.factor is group.B.lookup(d.factor.id) or type(d.factor) is UndefinedElementDescriptor, 'factor')
            identities(d.members)
        elif type(d) in (UndefinedElementDescriptor, UndefinedSequenceDescriptor):
            pass
        else:
            check(d is group.lookup(d.id), 'shared entry {}'.format(d))


EL, UE, SQ, US, OP, FR, DR = ('ElementDescriptor', 'UndefinedElementDescriptor', 'SequenceDescriptor',
                              'UndefinedSequenceDescriptor', 'OperatorDescriptor', 'FixedReplicationDescriptor',
                              'DelayedReplicationDescriptor')
HAND = [
    ((), ('ok', ())),
    ((1001, '001002', 301011, 201129, 63255, 363255),
     ('ok', ((EL, 1001), (EL, 1002), (SQ, 301011, '...'), (OP, 201129), (UE, 63255), (US, 363255)))),
    # fixed replication owns the next two
    ((101002, 1001, 1002), ('ok', ((FR, 101002, None, ((EL, 1001),)), (EL, 1002)))),
    ((102003, 1001, 1002, 1003), ('ok', ((FR, 102003, None, ((EL, 1001), (EL, 1002))), (EL, 1003)))),
    # delayed: the factor does not count
    ((102000, 31001, 1001, 1002, 1003),
     ('ok', ((DR, 102000, (EL, 31001), ((EL, 1001), (EL, 1002))), (EL, 1003)))),
    # nested: the inner replication, its factor and its members all count for the outer one
    ((104000, 31001, 102000, 31002, 1001, 1002, 1003),
     ('ok', ((DR, 104000, (EL, 31001), ((DR, 102000, (EL, 31002), ((EL, 1001), (EL, 1002))),)), (EL, 1003)))),
    ((103000, 31001, 102000, 31002, 1001, 1002, 1003),
     ('ok', ((DR, 103000, (EL, 31001), ((DR, 102000, (EL, 31002), ((EL, 1001),)),)), (EL, 1002), (EL, 1003)))),
    ((105002, 102000, 31001, 1001, 1002, 1003, 1004),
     ('ok', ((FR, 105002, None, ((DR, 102000, (EL, 31001), ((EL, 1001), (EL, 1002))), (EL, 1003))), (EL, 1004)))),
    # depth 4
    ((110002, 108000, 31001, 105003, 103000, 31002, 301011, 1001, 1002, 1003, 1004, 1005, 1006),
     ('ok', ((FR, 110002, None, ((DR, 108000, (EL, 31001), ((FR, 105003, None, (
         (DR, 103000, (EL, 31002), ((SQ, 301011, '...'), (EL, 1001), (EL, 1002))),)), (EL, 1003), (EL, 1004))),)),
             (EL, 1005), (EL, 1006)))),
    # the inner span is cut where the outer one ends
    ((102002, 105002, 1001, 1002, 1003),
     ('ok', ((FR, 102002, None, ((FR, 105002, None, ((EL, 1001),)),)), (EL, 1002), (EL, 1003)))),
    ((102000, 31001, 101000, 31002, 1001, 1002),
     ('ok', ((DR, 102000, (EL, 31001), ((DR, 101000, (EL, 31002), ()),)), (EL, 1001), (EL, 1002)))),
    # fewer descriptors than X
    ((163002, 1001), ('ok', ((FR, 163002, None, ((EL, 1001),)),))),
    ((199000, 31001), ('ok', ((DR, 199000, (EL, 31001), ()),))),
    ((101002,), ('ok', ((FR, 101002, None, ()),))),
    # X = 0
    ((100002, 1001), ('ok', ((FR, 100002, None, ()), (EL, 1001)))),
    ((100000, 31001, 1001), ('ok', ((DR, 100000, (EL, 31001), ()), (EL, 1001)))),
    # anything can stand where the factor is expected
    ((101000, 1001, 301011), ('ok', ((DR, 101000, (EL, 1001), ((SQ, 301011, '...'),)),))),
    ((101000, 301011, 1001), ('ok', ((DR, 101000, (UE, 301011), ((EL, 1001),)),))),
    ((101000, '101000', 1001), ('ok', ((DR, 101000, (UE, 101000), ((EL, 1001),)),))),
    # no factor
    ((101000,), ('PyBufrKitError', 'Delayed replication descriptor 101000 is not followed by a replication factor')),
    ((1001, 102002, 1002, 103000),
     ('PyBufrKitError', 'Delayed replication descriptor 103000 is not followed by a replication factor')),
    # ... because the enclosing span ends, although descriptors follow
    ((101002, 103000, 31001, 1001),
     ('PyBufrKitError', 'Delayed replication descriptor 103000 is not followed by a replication factor')),
    ((103000, 31002, 1001, 101002, 105000, 31001, 1002),
     ('PyBufrKitError', 'Delayed replication descriptor 105000 is not followed by a replication factor')),
    # IDs of other types
    ((1001.0, True, '  4001 ', b'4002', -5, 0), ('ok', ((EL, 1001), (EL, 1), (EL, 4001), (EL, 4002), (UE, -5), (UE, 0)))),
    (('101001', '001001', '301011'), ('ok', ((FR, 101001, None, ((EL, 1001),)), (SQ, 301011, '...')))),
    # invalid IDs are met when they are read
    ((1001, 'abc'), ('ValueError', None)),
    ((102000, 'abc', 1001), ('ValueError', None)),
    ((101002, 102002, 'abc'), ('ValueError', None)),
    ((101000, 31001, None), ('TypeError', None)),
    ((101002, 103000, 'abc'), ('PyBufrKitError',
                               'Delayed replication descriptor 103000 is not followed by a replication factor')),
    ((101000, 'abc'), ('ValueError', None)),
    (('abc', 101000), ('ValueError', None)),
]
for ids, expected in HAND:
    check(run_model(ids) == expected, 'model of {}: {} instead of {}'.format(ids, run_model(ids), expected))
    real = run_real(group.descriptors_from_ids, ids)
    check(real == expected, '{}: {} instead of {}'.format(ids, real, expected))
    # the module function takes any iterable
    for iterable in (list(ids), iter(ids), (x for x in ids)):
        real = run_real(lambda *a: tables._descriptors_from_ids(group.B, group.C, group.R, group.D, a[0]), [iterable])
        check(real == expected, '{} (module function): {} instead of {}'.format(ids, real, expected))
    if expected[0] == 'ok':
        first, second = group.descriptors_from_ids(*ids), group.descriptors_from_ids(*ids)
        identities(first)
        for a, b_ in zip(first, second):
            if isinstance(a, (FixedReplicationDescriptor, DelayedReplicationDescriptor)):
                check(a is not b_ and a.members is not b_.members, 'replication descriptors are not shared')
        template = group.template_from_ids(*ids)
        check(type(template) is BufrTemplate and shapes(template.members, deep=False) == expected[1], ids)
        as_ints = [to_int(x) for x in ids]
        check(template.original_descriptor_ids == as_ints, (ids, template.original_descriptor_ids))
    else:
        try:
            group.template_from_ids(*ids)
            check(False, 'template_from_ids({}) must fail'.format(ids))
        except Exception as e:
            check(type(e).__name__ == expected[0], repr(e))
try:
    tables._descriptors_from_ids(group.B, group.C, group.R, group.D, None)
    check(False, 'TypeError expected')
except TypeError:
    check(True, '')

# ---------------------------------------------------------------------------------------------------------------------
# 3. Descriptor lists: random, well-formed (depth <= 4, X <= 63) and mangled
# ---------------------------------------------------------------------------------------------------------------------
rng = random.Random(20260930)
b_ids, d_ids = sorted(B), sorted(D)
factors = [31000, 31001, 31002, 31011, 31012]


def deep_tree(id_, _cache={}):
    if id_ not in D:
        return None
    if id_ not in _cache:
        _cache[id_] = model_tree(D[id_][1], B.__contains__, deep_tree)
    return _cache[id_]


def random_leaf():
    p = rng.random()
    if p < 0.55:
        return rng.choice(b_ids)
    if p < 0.75:
        return rng.choice(d_ids)
    if p < 0.85:
        return rng.choice([201129, 201000, 202130, 204008, 206012, 222000, 236000, 237255, 208016])
    if p < 0.92:
        return rng.choice([63255, 48001, 1255, 0])
    return rng.choice([363255, 348001, 399999])


def random_well_formed(depth, budget):
    """a list of at most `budget` IDs in which every replication is followed by all it asks for"""
    ids = []
    go_on = rng.choice([0.8, 0.95, 1.0])
    while len(ids) < budget and rng.random() < go_on:
        room = budget - len(ids)
        if depth < 4 and room >= 3 and rng.random() < 0.35:
            delayed = rng.random() < 0.5
            body = random_well_formed(depth + 1, min(63, room - 1 - delayed))
            if not body and rng.random() < 0.8:
                continue
            head = [100000 + 1000 * len(body) + (0 if delayed else rng.randint(1, 255))]
            ids.extend(head + ([rng.choice(factors)] if delayed else []) + body)
        else:
            ids.append(random_leaf())
    return ids


def max_depth(tree):
    return max([0] + [1 + max_depth(n[3]) for n in tree if n[0] in (FR, DR)])


n_ok = n_failed = 0
depths, xs = set(), set()
for i_case in range(3000):
    ids = random_well_formed(0, rng.choice([4, 10, 30, 80, 200]))
    kind = i_case % 3
    if kind == 1 and ids:  # cut the tail off / drop something / change an X
        how = rng.randrange(3)
        if how == 0:
            ids = ids[:rng.randrange(len(ids) + 1)]
        elif how == 1:
            del ids[rng.randrange(len(ids))]
        else:
            where = [i for i, x in enumerate(ids) if 100000 <= x < 200000]
            if where:
                i = rng.choice(where)
                ids[i] = 100000 + 1000 * rng.randint(0, 63) + ids[i] % 1000
    elif kind == 2:  # some IDs as strings
        ids = [('{:06d}'.format(x) if rng.random() < 0.5 else x) for x in ids]

    expected = run_model(ids)
    real = run_real(group.descriptors_from_ids, ids)
    if real != expected:
        check(False, '{}: {} instead of {}'.format(ids, real, expected))
    N_CHECKS[0] += 1
    if expected[0] != 'ok':
        n_failed += 1
        continue
    n_ok += 1
    depths.add(max_depth(expected[1]))
    as_ints = [to_int(x) for x in ids]
    xs.update(x // 1000 % 100 for x in as_ints if 100000 <= x < 200000)
    template = group.template_from_ids(*ids)
    if template.original_descriptor_ids != as_ints:
        check(False, 'flatten back {}: {}'.format(as_ints, template.original_descriptor_ids))
    N_CHECKS[0] += 1
    if kind == 0:
        # well-formed: every replication has exactly X items under it, counted flat with factors
        def items(tree):
            return sum(1 + (items(n[3]) + (n[2] is not None) if n[0] in (FR, DR) else 0) for n in tree)

        def exact(tree):
            return all(items(n[3]) == n[1] // 1000 % 100 and exact(n[3]) for n in tree if n[0] in (FR, DR))

        check(exact(expected[1]), 'generator of well-formed lists: {}'.format(ids))
    deep = model_tree(ids, B.__contains__, deep_tree)
    if flat_member_ids(template) != model_flat(deep) or shapes(template.members) != deep:
        check(False, 'expansion of {}'.format(ids))
    N_CHECKS[0] += 1
check(depths >= {0, 1, 2, 3, 4} and max(xs) == 63 and 0 in xs and n_failed > 20 and n_ok > 2000,
      (depths, sorted(xs), n_failed, n_ok))

print('OK ({} checks; {} sequences of {} table groups, {} elements; random lists: {} built, {} rejected, '
      'depths {}, X up to {})'.format(N_CHECKS[0], n_sequences, n_groups, n_elements, n_ok, n_failed,
                                       sorted(depths), max(xs)))
