import os, sys; sys.path.insert(0, os.getcwd())
__doc__ = """
Differential demonstration for refactor 8 (decoder: the per-subset loops of the compressed
processors become CoderState.append_to_all_subsets / CoderState.append_column fed by closures;
CoderState.column for the "same in all subsets" check).

Bit streams are put together here by hand (strings of '0' and '1', no pybufrkit code), handed to
Decoder.process_*_compressed with a CoderState made for the purpose, and the per-subset values,
the reader position and the exception (with the state it leaves behind) are compared with what
the compressed form means according to the BUFR regulation. Exits 0 unpatched and patched.
"""
import hashlib
import itertools
import json
import logging
import random

import pybufrkit
assert os.path.dirname(os.path.abspath(pybufrkit.__file__)) == os.path.join(os.getcwd(), 'pybufrkit'), pybufrkit.__file__

from pybufrkit.encoder import Encoder
from pybufrkit.decoder import Decoder
from pybufrkit.coder import CoderState
from pybufrkit.bitops import get_bit_reader
from pybufrkit.descriptors import ElementDescriptor
from pybufrkit.errors import PyBufrKitError, BitReadError

N_CHECKS = [0]
DECODER = Decoder()


def check(cond, *what):
    N_CHECKS[0] += 1
    if not cond:
        print('FAILED:', *what)
        sys.exit(1)


def same(a, b):
    """Equal and of the same types (1 is not 1.0, 'a' is not b'a')"""
    return repr(a) == repr(b)


# ---------------------------------------------------------------------------------------------
# Writing streams by hand
# ---------------------------------------------------------------------------------------------
def ubits(x, n):
    assert (0 <= x < (1 << n)) or (n == 0 and x == 0), (x, n)
    return format(x, 'b').zfill(n) if n else ''


def ones(n):
    return '1' * n


def sbits(x, n):
    return ('1' if x < 0 else '0') + ubits(abs(x), n - 1)


def tbits(b):
    return ''.join(ubits(c, 8) for c in bytearray(b))


def to_bytes(bits, pad=True):
    if pad:
        bits += '0' * (-len(bits) % 8)
    assert len(bits) % 8 == 0
    return bytes(bytearray(int(bits[i:i + 8], 2) for i in range(0, len(bits), 8)))


def descriptor(id_=1001, nbits=8, unit='NUMERIC'):
    return ElementDescriptor(id_, 'DEMO', unit, 0, 0, nbits, unit, 0, 3)


def uint_column_bits(base, nbits, k, increments):
    """base None: all ones. increments: integers, None for all ones"""
    return ((ones(nbits) if base is None else ubits(base, nbits)) + ubits(k, 6) +
            (''.join(ones(k) if i is None else ubits(i, k) for i in increments) if k else ''))


# ---------------------------------------------------------------------------------------------
# The meaning of a compressed column
# ---------------------------------------------------------------------------------------------
def unpack(raw, scale_powered, refval):
    value = raw + refval
    if scale_powered != 1:
        value = value / scale_powered
    return value


def meaning_numeric(base, nbits, k, increments, n, scale_powered=1, refval=0, code_nbits=None):
    """
    Per-subset values, or the exception class, for a numeric (code_nbits None) or code/flag column.
    base / increments are the raw fields as unsigned integers.
    """
    missing_base = nbits > 1 and base == (1 << nbits) - 1
    if missing_base:
        return [None] * n if k == 0 else PyBufrKitError
    if k == 0:
        return [unpack(base, scale_powered, refval) if code_nbits is None else base] * n
    out = []
    for inc in increments:
        if inc == (1 << k) - 1:  # all ones, also for a single bit
            out.append(None)
            continue
        raw = base + inc
        if code_nbits is None:
            out.append(unpack(raw, scale_powered, refval))
        else:
            out.append(None if code_nbits > 1 and raw == (1 << code_nbits) - 1 else raw)
    return out


def run(method, bits, args, n, pad=True, d=None, via_dispatch=False, prior=()):
    """Decode one column from ``bits``. Returns (state, reader, exception, descriptor)"""
    state = CoderState(True, n)
    for vals in state.decoded_values_all_subsets:
        vals.extend(prior)
    reader = get_bit_reader(to_bytes(bits, pad))
    d = d or descriptor()
    exc = None
    try:
        result = getattr(DECODER, method if via_dispatch else method + '_compressed')(state, reader, d, *args)
        check(result is None, 'return value', result)
    except Exception as e:
        exc = e
    return state, reader, exc, d


def expect(method, bits, args, n, expected, what, **kwargs):
    prior = kwargs.get('prior', ())
    state, reader, exc, d = run(method, bits, args, n, **kwargs)
    if isinstance(expected, type):
        check(type(exc) is expected, what, 'expected', expected.__name__, 'got', repr(exc))
        check(all(same(vals, list(prior)) for vals in state.decoded_values_all_subsets), what, 'values at the error')
    else:
        check(exc is None, what, 'raised', repr(exc))
        got = [vals[len(prior):] for vals in state.decoded_values_all_subsets]
        check(same(got, [[v] for v in expected]), what, '\n got', got, '\n exp', expected)
        check(all(same(vals[:len(prior)], list(prior)) for vals in state.decoded_values_all_subsets), what, 'prior')
        check(reader.get_pos() == len(bits), what, 'position', reader.get_pos(), len(bits))
        # one list per subset, all different objects
        check(len(set(map(id, state.decoded_values_all_subsets))) == n, what, 'lists shared')
    check(len(state.decoded_descriptors) == 1 and state.decoded_descriptors[0] is d, what, 'descriptor')
    check(all(ds is state.decoded_descriptors for ds in state.decoded_descriptors_all_subsets), what, 'shared')
    return state


# ---------------------------------------------------------------------------------------------
# 1. small scope, exhaustively: every column of up to 4 subsets over {missing, 0..2^w-2}, in every
#    legal writing of it: any base not above the minimum, any width that holds the increments
# ---------------------------------------------------------------------------------------------
def writings(col, w, max_k, which_bases='all'):
    """
    All (base, k, increments) that spell the column of raw values ``col`` (None = missing) with
    increments of up to max_k bits. which_bases: 'all', 'ends' (only the smallest and the largest
    base) or 'top' (only the largest, which is what a writer takes).
    """
    present = [v for v in col if v is not None]
    top = (1 << w) - 2
    if not present:
        if w == 1:  # one bit has no missing pattern: the base is a value, whichever
            bases = [0, 1]
        else:
            yield None, 0, []
            bases = range(top + 1)
    else:
        if len(present) == len(col) and len(set(present)) == 1:
            yield present[0], 0, []
        bases = range(min(present) + 1)
    bases = list(bases)
    bases = {'all': bases, 'ends': sorted({bases[0], bases[-1]}), 'top': bases[-1:]}[which_bases]
    for base in bases:
        for k in range(1, max_k + 1):
            incs = [None if v is None else v - base for v in col]
            if all(i is None or i < (1 << k) - 1 for i in incs):
                yield base, k, incs


def exhaustive():
    for w in (1, 2, 3, 4):
        domain = [None] + list(range((1 << w) - 1))
        for n in (1, 2, 3, 4):
            # the two largest scopes with fewer spellings of each column
            max_k, which_bases = {(4, 3): (5, 'ends'), (4, 4): (4, 'top')}.get((w, n), (6, 'all'))
            for col in itertools.product(domain, repeat=n):
                col = list(col)
                for base, k, incs in writings(col, w, max_k, which_bases):
                    bits = uint_column_bits(base, w, k, incs)
                    what = ('column', col, 'w', w, 'base', base, 'k', k)
                    expect('process_numeric', bits, (w, 1, 0), n, col, what)
                    expect('process_codeflag', bits, (w,), n, col, what, d=descriptor(nbits=w, unit='CODE TABLE'))


# ---------------------------------------------------------------------------------------------
# 2. every raw field, whether a writer would produce it or not: compared with the meaning
# ---------------------------------------------------------------------------------------------
def raw_fields():
    rnd = random.Random(3)
    # all raw streams for small widths
    for w in (1, 2, 3):
        for k in (0, 1, 2, 3):
            for n in (1, 2, 3):
                for base in range(1 << w):
                    for incs in itertools.product(range(1 << k), repeat=n) if k else [()]:
                        bits = ubits(base, w) + ubits(k, 6) + ''.join(ubits(i, k) for i in incs)
                        what = ('raw', w, k, base, incs)
                        expect('process_numeric', bits, (w, 1, 0), n,
                               meaning_numeric(base, w, k, incs, n), what)
                        expect('process_numeric', bits, (w, 10, -2), n,
                               meaning_numeric(base, w, k, incs, n, 10, -2), what, via_dispatch=True)
                        for code_nbits in (1, 2, 3):
                            expect('process_codeflag', bits, (w,), n,
                                   meaning_numeric(base, w, k, incs, n, code_nbits=code_nbits), what,
                                   d=descriptor(nbits=code_nbits, unit='FLAG TABLE'), via_dispatch=(code_nbits == 2))

    # wide fields, many subsets, scale and reference value
    for _ in range(500):
        w = rnd.choice([2, 5, 7, 8, 9, 12, 16, 17, 24, 31, 32, 33, 48, 63, 64])
        n = rnd.choice([1, 2, 3, 5, 8, 13, 40])
        k = rnd.choice([0, 1, 2, 3, 7, 8, 9, 16, 31, 32, 33, 63])
        base = rnd.choice([0, 1, (1 << w) - 1, (1 << w) - 2, rnd.randrange(1 << w)])
        incs = [rnd.choice([0, (1 << k) - 1, max(0, (1 << k) - 2), rnd.randrange(1 << k)]) for _i in range(n)]
        bits = ubits(base, w) + ubits(k, 6) + (''.join(ubits(i, k) for i in incs) if k else '')
        scale_powered, refval = rnd.choice([(1, 0), (1, -5), (100, 0), (10, -9000), (0.01, 0), (1, 7)])
        what = ('wide', w, k, base, incs, scale_powered, refval)
        prior = rnd.choice([(), ('p', None, 1.5)])
        expect('process_numeric', bits, (w, scale_powered, refval), n,
               meaning_numeric(base, w, k, incs, n, scale_powered, refval), what, prior=prior)
        code_nbits = rnd.choice([1, w, w, max(1, w - 1), w + 1])
        expect('process_codeflag', bits, (w,), n,
               meaning_numeric(base, w, k, incs, n, code_nbits=code_nbits), what,
               d=descriptor(nbits=code_nbits, unit='CODE TABLE'), prior=prior)

    # landmarks, spelled out
    # 1-bit increments: 1 is missing; base kept for 0
    expect('process_numeric', ubits(9, 8) + ubits(1, 6) + '0110', (8, 1, 0), 4, [9, None, None, 9], '1-bit')
    expect('process_codeflag', ubits(9, 8) + ubits(1, 6) + '0110', (8,), 4, [9, None, None, 9], '1-bit')
    # all missing with and without increments
    expect('process_numeric', ones(8) + ubits(0, 6), (8, 1, 0), 3, [None] * 3, 'all missing')
    expect('process_codeflag', ones(8) + ubits(0, 6), (8,), 3, [None] * 3, 'all missing')
    expect('process_numeric', ones(8) + ubits(2, 6) + '0000', (8, 1, 0), 2, PyBufrKitError, 'missing with width')
    expect('process_codeflag', ones(8) + ubits(2, 6) + '0000', (8,), 2, PyBufrKitError, 'missing with width')
    # code 14 + 1 in a 4-bit code is the missing code; not so for a numeric element, nor for a 1-bit flag
    expect('process_codeflag', ubits(14, 4) + ubits(2, 6) + '0100', (4,), 2, [None, 14], 'code 15',
           d=descriptor(nbits=4, unit='CODE TABLE'))
    expect('process_numeric', ubits(14, 4) + ubits(2, 6) + '0100', (4, 1, 0), 2, [15, 14], 'numeric 15')
    expect('process_codeflag', '0' + ubits(2, 6) + '0100', (1,), 2, [1, 0], 'flag',
           d=descriptor(nbits=1, unit='FLAG TABLE'))
    # true division, also for whole results; no division for scale 0
    expect('process_numeric', ubits(200, 16) + ubits(0, 6), (16, 100, 0), 2, [2.0, 2.0], 'scaled equal')
    expect('process_numeric', ubits(200, 16) + ubits(3, 6) + '001' + '111', (16, 100, -100), 2, [1.01, None], 'scaled')
    expect('process_numeric', ubits(200, 16) + ubits(0, 6), (16, 1, -300), 2, [-100, -100], 'refval only')


# ---------------------------------------------------------------------------------------------
# 3. strings
# ---------------------------------------------------------------------------------------------
def strings():
    rnd = random.Random(13)

    def meaning(base, nbytes, k, incs, n):
        if k == 0:
            return [base] * n
        prefix = b'' if base == b'\0' * nbytes else base
        return [prefix + i for i in incs]

    alphabet = [b'A', b'z', b' ', b'\0', b'\xff', b'\xe9']
    for _ in range(600):
        nbytes = rnd.choice([0, 1, 2, 4, 8, 20])
        n = rnd.choice([1, 2, 3, 6])
        k = rnd.choice([0, 0, nbytes, nbytes, 1, 3])
        kind = rnd.random()
        if kind < 0.4:
            base = b'\0' * nbytes
        elif kind < 0.6:
            base = b'\xff' * nbytes
        elif kind < 0.7:
            base = b'\0' * (nbytes - 1) + b'A' if nbytes else b''
        else:
            base = b''.join(rnd.choice(alphabet) for _i in range(nbytes))
        incs = [rnd.choice([b'\xff' * k, b'\0' * k, b''.join(rnd.choice(alphabet) for _i in range(k))])
                for _j in range(n)] if k else []
        bits = tbits(base) + ubits(k, 6) + ''.join(tbits(i) for i in incs)
        prior = rnd.choice([(), (b'x', 2)])
        expect('process_string', bits, (nbytes,), n, meaning(base, nbytes, k, incs, n),
               ('string', nbytes, k, base, incs), via_dispatch=rnd.random() < 0.3, prior=prior)
    # spelled out
    expect('process_string', tbits(b'\xff\xff') + ubits(0, 6), (2,), 3, [b'\xff\xff'] * 3, 'all missing string')
    expect('process_string', tbits(b'AB') + ubits(0, 6), (2,), 3, [b'AB'] * 3, 'all equal string')
    expect('process_string', tbits(b'\0\0') + ubits(2, 6) + tbits(b'AB\xff\xffCD'), (2,), 3,
           [b'AB', b'\xff\xff', b'CD'], 'place holder minimum')
    expect('process_string', tbits(b'ST') + ubits(1, 6) + tbits(b'12'), (2,), 2, [b'ST1', b'ST2'], 'common part')
    expect('process_string', tbits(b'\xff\xff') + ubits(1, 6) + tbits(b'12'), (2,), 2,
           [b'\xff\xff1', b'\xff\xff2'], 'all ones minimum with increments')


# ---------------------------------------------------------------------------------------------
# 4. new reference values, constants
# ---------------------------------------------------------------------------------------------
def refvals_and_constants():
    for value, nbits in [(0, 8), (5, 8), (-5, 8), (-127, 8), (127, 8), (-1, 2), (1000, 12), (-(2 ** 20), 22)]:
        for n in (1, 2, 5):
            for via in (False, True):
                state = expect('process_new_refval', sbits(value, nbits) + ubits(0, 6), (nbits,), n, [value] * n,
                               ('new refval', value, nbits), via_dispatch=via, prior=(1,))
                check(same(state.new_refvals, {1001: value}), 'new_refvals', state.new_refvals)
    # a field of one bit is zero whatever the bit; minus zero is zero
    for bits, nbits in [('1', 1), ('0', 1), ('1000', 4)]:
        state = expect('process_new_refval', bits + ubits(0, 6), (nbits,), 2, [0, 0], 'zero')
        check(same(state.new_refvals, {1001: 0}), 'new_refvals', state.new_refvals)
    # differing reference values are refused: nothing recorded but the descriptor
    for k in (1, 2, 63):
        state = expect('process_new_refval', sbits(5, 8) + ubits(k, 6) + '0' * 200, (8,), 3, PyBufrKitError, 'width')
        check(state.new_refvals == {}, 'new_refvals after refusal')

    for value in (0, None, 'x', 3.5):
        for n in (1, 4):
            state, reader, exc, d = run('process_constant', '10101010', (value,), n, prior=(7,))
            check(exc is None and reader.get_pos() == 0, 'constant reads nothing')
            check(same(state.decoded_values_all_subsets, [[7, value]] * n), 'constant', state.decoded_values_all_subsets)
            check(len(set(map(id, state.decoded_values_all_subsets))) == n, 'constant lists')
            check(state.decoded_descriptors == [d], 'constant descriptor')
    state, reader, exc, d = run('process_constant', '', (0,), 2, via_dispatch=True)
    check(exc is None and same(state.decoded_values_all_subsets, [[0], [0]]), 'constant via dispatch')


# ---------------------------------------------------------------------------------------------
# 5. streams that end too early: same error, same values taken before it
# ---------------------------------------------------------------------------------------------
def truncated():
    def lengths(state):
        return [len(vals) for vals in state.decoded_values_all_subsets]

    # base 5, 3-bit increments for 4 subsets, cut after 0, 1, 2, 3 increments (whole bytes only)
    full = ubits(5, 8) + ubits(3, 6) + '001' + '010' + '111' + '100'
    for method, args, d in [('process_numeric', (8, 1, 0), None),
                            ('process_codeflag', (8,), descriptor(nbits=8, unit='CODE TABLE'))]:
        # cut inside the width, and inside the first increment
        for cut in (8, 16):
            state, reader, exc, _ = run(method, full[:cut], args, 4, pad=False, d=d)
            check(type(exc) is BitReadError, method, 'cut', cut, repr(exc))
            check(lengths(state) == [0, 0, 0, 0], method, 'cut', cut, lengths(state))
        # 24 bits hold base, width and three increments and one more bit
        state, reader, exc, _ = run(method, full[:24], args, 4, pad=False, d=d)
        check(type(exc) is BitReadError, method, 'cut 24', repr(exc))
        check(same(state.decoded_values_all_subsets, [[6], [7], [None], []]), method, state.decoded_values_all_subsets)
        # seven subsets wanted, four given (26 bits padded to 32: two more of zero, not a seventh)
        state, reader, exc, _ = run(method, full, args, 7, d=d)
        check(type(exc) is BitReadError, method, 'seven subsets', repr(exc))
        check(same(state.decoded_values_all_subsets, [[6], [7], [None], [9], [5], [5], []]), method,
              state.decoded_values_all_subsets)

    s = tbits(b'\0\0') + ubits(2, 6) + tbits(b'ABCD')
    state, reader, exc, _ = run('process_string', s, (2,), 3)  # 54 bits padded to 56: third subset incomplete
    check(type(exc) is BitReadError, 'string cut', repr(exc))
    check(same(state.decoded_values_all_subsets, [[b'AB'], [b'CD'], []]), 'string cut', state.decoded_values_all_subsets)
    state, reader, exc, _ = run('process_string', tbits(b'A'), (2,), 3)
    check(type(exc) is BitReadError and lengths(state) == [0, 0, 0], 'string cut in the minimum')
    state, reader, exc, _ = run('process_new_refval', sbits(3, 8), (8,), 3)
    check(type(exc) is BitReadError and lengths(state) == [0, 0, 0] and state.new_refvals == {}, 'refval cut')

    # no subsets at all: the header of the column is read and that is it
    for method, args, bits in [('process_numeric', (8, 1, 0), ubits(5, 8) + ubits(3, 6)),
                               ('process_codeflag', (8,), ubits(5, 8) + ubits(3, 6)),
                               ('process_string', (1,), tbits(b'\0') + ubits(1, 6)),
                               ('process_new_refval', (8,), sbits(-3, 8) + ubits(0, 6))]:
        state, reader, exc, _ = run(method, bits, args, 0)
        check(exc is None and state.decoded_values_all_subsets == [] and reader.get_pos() == 14, method, 'no subsets')


# ---------------------------------------------------------------------------------------------
# 6. CoderState: the factor of a delayed replication must be the same in all subsets
# ---------------------------------------------------------------------------------------------
def replication_factor():
    def state_with(column, extra=(8, 9)):
        state = CoderState(True, len(column))
        for vals, v in zip(state.decoded_values_all_subsets, column):
            vals.extend(extra)
            vals.append(v)
        return state

    for column, expected in [([3, 3, 3], 3), ([0], 0), ([0, 0], 0), ([2, 3], PyBufrKitError), ([3, 2, 3], PyBufrKitError),
                             ([3, None], 3),  # missing entries do not count as different ...
                             ([None, 3], PyBufrKitError),  # ... but the first subset's value must be a count
                             ([None, None], PyBufrKitError), ([-1, -1], PyBufrKitError),
                             ([2, 2.0], 2), ([1, 'a'], TypeError)]:
        for getter in (lambda st: DECODER.get_value_for_delayed_replication_factor(st),
                       lambda st: st.get_value_for_delayed_replication_factor(-1),
                       lambda st: st.get_value_for_delayed_replication_factor(2)):
            state = state_with(column)
            try:
                got = getter(state)
            except Exception as e:
                got = type(e)
            check(same(got, expected), 'replication factor', column, got, expected)
    state = state_with([1, 1])
    try:
        state.get_value_for_delayed_replication_factor(5)
        check(False, 'index out of range accepted')
    except IndexError:
        check(True)
    # read from the stream, then asked for
    state = CoderState(True, 3)
    reader = get_bit_reader(to_bytes(ubits(4, 8) + ubits(0, 6) + ubits(4, 8) + ubits(2, 6) + '000001'))
    DECODER.process_numeric_compressed(state, reader, descriptor(31001), 8, 1, 0)
    check(DECODER.get_value_for_delayed_replication_factor(state) == 4, 'factor read')
    DECODER.process_numeric_compressed(state, reader, descriptor(31001), 8, 1, 0)
    try:
        DECODER.get_value_for_delayed_replication_factor(state)
        check(False, 'different factors accepted')
    except PyBufrKitError:
        check(True)


# ---------------------------------------------------------------------------------------------
# 7. with logging at DEBUG the values are kept in AuditedList objects
# ---------------------------------------------------------------------------------------------
def audited():
    level = logging.root.level
    logging.root.setLevel(logging.DEBUG)
    try:
        state = CoderState(True, 3)
        check(all(type(v).__name__ == 'AuditedList' for v in state.decoded_values_all_subsets), 'AuditedList')
        bits = (ubits(5, 8) + ubits(2, 6) + '001101' +            # numeric 5, None, 6
                ubits(5, 8) + ubits(0, 6) +                         # code 5 5 5
                tbits(b'\0') + ubits(1, 6) + tbits(b'abc') +        # strings
                sbits(-9, 8) + ubits(0, 6))                         # new reference value
        reader = get_bit_reader(to_bytes(bits))
        DECODER.process_numeric_compressed(state, reader, descriptor(1), 8, 1, 0)
        DECODER.process_codeflag_compressed(state, reader, descriptor(2), 8)
        DECODER.process_string_compressed(state, reader, descriptor(3), 1)
        DECODER.process_new_refval_compressed(state, reader, descriptor(4), 8)
        DECODER.process_constant_compressed(state, reader, descriptor(5), 0)
        check(same([list(v) for v in state.decoded_values_all_subsets],
                   [[5, 5, b'a', -9, 0], [None, 5, b'b', -9, 0], [6, 5, b'c', -9, 0]]),
              'audited', state.decoded_values_all_subsets)
        check(all(type(v).__name__ == 'AuditedList' for v in state.decoded_values_all_subsets), 'AuditedList kept')
        check(state.get_value_for_delayed_replication_factor(1) == 5, 'audited factor')
    finally:
        logging.root.setLevel(level)


# ---------------------------------------------------------------------------------------------
# 8. a whole compressed message written by hand, and the sample files
# ---------------------------------------------------------------------------------------------
def handmade_message():
    """
    3 subsets of 001001 (7 bits), 001015 (20 characters), 002001 (2-bit code), 005001 (25 bits,
    scale 5, reference -9000000), 101000 031001 012101 (delayed replication of a 16-bit
    temperature, scale 2), 001015 all missing (which the decoder hands out as octets of all ones,
    compressed or not).
    """
    n = 3
    names = [b'ALPHA'.ljust(20), b'\xff' * 20, b'GAMMA'.ljust(20)]
    ids = [1001, 1015, 2001, 5001, 101000, 31001, 12101, 1015]
    section3 = ubits(0, 8) + ubits(n, 16) + '11000000' + ''.join(
        ubits(i // 100000, 2) + ubits(i // 1000 % 100, 6) + ubits(i % 1000, 8) for i in ids)
    section3 = to_bytes(ubits(3 + len(section3) // 8, 24) + section3)
    section1 = to_bytes(ubits(22, 24) + ubits(0, 8) + ubits(98, 16) + ubits(0, 16) + ubits(0, 8) + ubits(0, 8) +
                        ubits(0, 8) + ubits(0, 8) + ubits(0, 8) + ubits(25, 8) + ubits(0, 8) +
                        ubits(2020, 16) + ubits(1, 8) + ubits(2, 8) + ubits(3, 8) + ubits(4, 8) + ubits(5, 8))

    columns = [
        ubits(10, 7) + ubits(3, 6) + ubits(1, 3) + ones(3) + ubits(6, 3),          # 11, None, 16
        tbits(b'\0' * 20) + ubits(20, 6) + ''.join(tbits(x) for x in names),
        ubits(1, 2) + ubits(0, 6),                                                  # 1, 1, 1
        ubits(9000000 - 1234567, 25) + ubits(1, 6) + '010',                         # -12.34567, None, same
        ubits(2, 8) + ubits(0, 6),                                                  # replication factor 2
        ubits(27315, 16) + ubits(9, 6) + ubits(0, 9) + ubits(510, 9) + ones(9),     # first repetition
        ones(16) + ubits(0, 6),                                                     # second: all missing
        ones(160) + ubits(0, 6),
    ]
    data = ''.join(columns)
    section4 = to_bytes(data)
    section4 = to_bytes(ubits(4 + len(section4), 24) + ubits(0, 8)) + section4
    total = 8 + len(section1) + len(section3) + len(section4) + 4
    message = b'BUFR' + to_bytes(ubits(total, 24) + ubits(4, 8)) + section1 + section3 + section4 + b'7777'
    expected = [
        [11, names[0], 1, -12.34567, 2, 273.15, None, b'\xff' * 20],
        [None, names[1], 1, None, 2, 278.25, None, b'\xff' * 20],
        [16, names[2], 1, -12.34567, 2, None, None, b'\xff' * 20],
    ]
    for dec in (DECODER, Decoder(compiled_template_cache_max=4)):
        td = dec.process(message).template_data.value
        check(same(td.decoded_values_all_subsets, expected), 'handmade', td.decoded_values_all_subsets)
        check([d.id for d in td.decoded_descriptors_all_subsets[0]] == [1001, 1015, 2001, 5001, 31001, 12101, 12101, 1015],
              'handmade descriptors')
        check(all(ds is td.decoded_descriptors_all_subsets[0] for ds in td.decoded_descriptors_all_subsets), 'shared')

    # different factors in the subsets cannot be compressed
    columns[4] = ubits(2, 8) + ubits(2, 6) + '000100'  # 2, 2, 3
    bad = ''.join(columns)
    section4 = to_bytes(bad)
    section4 = to_bytes(ubits(4 + len(section4), 24) + ubits(0, 8)) + section4
    total = 8 + len(section1) + len(section3) + len(section4) + 4
    message = b'BUFR' + to_bytes(ubits(total, 24) + ubits(4, 8)) + section1 + section3 + section4 + b'7777'
    for dec in (DECODER, Decoder(compiled_template_cache_max=4)):
        try:
            dec.process(message)
            check(False, 'different factors accepted')
        except PyBufrKitError as e:
            check(type(e) is PyBufrKitError and 'NOT identical' in str(e), 'different factors', repr(e))


# SHA-256 (first 16 hex digits) of repr(decoded values of all subsets), from the unpatched tree
COMPRESSED_SAMPLES = {
    '207003': '21c221e23ec558ae', 'amv2_87': 'd4d9656f717c305b', 'b005_89': '5b719878b098115f', 'jaso_214': '385917b9c1a7f2ca',
    'asr3_190': 'a449c5766ea1e39d', 'g2nd_208': '4aa8ac7cfd97a8e2', 'ISMD01_OKPR': '26613465baf8c8e4', 'mpco_217': '5ec70d4676d11074',
}


def samples():
    encoder = Encoder()
    compiled = Decoder(compiled_template_cache_max=8)
    for stub, digest in sorted(COMPRESSED_SAMPLES.items()):
        with open(os.path.join('tests', 'data', stub + '.bufr'), 'rb') as ins:
            on_disk = ins.read()
        message = DECODER.process(on_disk)
        a = message.template_data.value
        got = hashlib.sha256(repr(a.decoded_values_all_subsets).encode('ascii')).hexdigest()[:16]
        if '--digests' in sys.argv:
            print("    '{}': '{}',".format(stub, got))
        else:
            check(got == digest, stub, 'values changed', got)
        c = compiled.process(on_disk).template_data.value
        check(same(a.decoded_values_all_subsets, c.decoded_values_all_subsets), stub, 'compiled template differs')

        # the same subsets written uncompressed read back the same
        data = json.loads(DecoderJson(message))
        section3 = [s for s in data if isinstance(s[-1], list) and s[-1] and isinstance(s[-1][0], int)][0]
        check(section3[4] is True, stub, 'not compressed?')
        section3[4] = False
        plain = encoder.process(json.dumps(data))
        b = DECODER.process(plain.serialized_bytes).template_data.value
        check(same(a.decoded_values_all_subsets, b.decoded_values_all_subsets), stub, 'uncompressed differs')
        check([[d.id for d in ds] for ds in a.decoded_descriptors_all_subsets] ==
              [[d.id for d in ds] for ds in b.decoded_descriptors_all_subsets], stub, 'descriptors differ')
        check(a.bitmap_links_all_subsets == b.bitmap_links_all_subsets, stub, 'links differ')


def DecoderJson(message):
    from pybufrkit.renderer import FlatJsonRenderer
    from pybufrkit.utils import JSON_DUMPS_KWARGS
    return json.dumps(FlatJsonRenderer().render(message), **JSON_DUMPS_KWARGS)


if __name__ == '__main__':
    import time
    for part in (handmade_message, audited, replication_factor, truncated, refvals_and_constants, strings,
                 samples, raw_fields, exhaustive):
        t0 = time.time()
        part()
        if '--time' in sys.argv:
            print('{:24s}{:6.1f} s {:9d} checks so far'.format(part.__name__, time.time() - t0, N_CHECKS[0]))
    print('demo 8: {} checks passed'.format(N_CHECKS[0]))
