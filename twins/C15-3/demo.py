import os, sys; sys.path.insert(0, os.getcwd())
import pybufrkit
assert os.path.dirname(os.path.abspath(pybufrkit.__file__)) == os.path.join(os.getcwd(), 'pybufrkit'), pybufrkit.__file__

# ---- independent reference for the documented grammar (regex based) --------
import itertools, re, string
from pybufrkit.dataquery import NodePathParser, NodePath, PathComponent
from pybufrkit.errors import PathExprParsingError

_EL = r'[^@\[\]:/.>]*'
_ID = r'[^@\[\]:/.>]+'
_SL = r'\[%s(?::%s)*\]' % (_EL, _EL)
_WHOLE = re.compile(r'^(?:@(?P<ss>%s)(?=[/>])|(?=[/>0-9A-Z]))(?P<rest>.*)$' % _SL, re.S)
_COMP = re.compile(r'(?P<sep>[/.>])(?P<id>%s)(?P<sl>%s)?' % (_ID, _SL))
_INT = re.compile(r'^-?[0-9]+$')


def ref_slice(text, default):
    """text is '[...]' or None; returns (ok, object)"""
    if text is None:
        return True, default
    parts = text[1:-1].split(':')
    if len(parts) > 3 or not all(p == '' or _INT.match(p) for p in parts):
        return False, None
    nums = [None if p == '' else int(p) for p in parts]
    if len(nums) == 1:
        n = nums[0]
        if n is None:
            return False, None
        return True, (n if n >= 0 else slice(n, None if n == -1 else n + 1, None))
    return True, slice(*nums)


def reference(s, bare=True):
    """None if s is not in the language, else (subset_slice, [(sep, id, slice), ...])"""
    default = slice(None, None, None) if bare else 0
    t = ''.join(c for c in s if c not in string.whitespace)
    m = _WHOLE.match(t)
    if not t or not m:
        return None
    ok, subset = ref_slice(m.group('ss'), default)
    if not ok:
        return None
    rest = m.group('rest')
    if rest[0] not in '/>':
        rest = '>' + rest
    comps, pos = [], 0
    while pos < len(rest):
        cm = _COMP.match(rest, pos)
        if not cm:
            return None
        ok, slc = ref_slice(cm.group('sl'), default)
        if not ok:
            return None
        comps.append((cm.group('sep'), cm.group('id'), slc))
        pos = cm.end()
    return subset, comps


def observe(s, bare=True):
    """Same shape as reference(); anything but the parsing error propagates."""
    try:
        p = NodePathParser(bare_id_matches_all=bare).parse(s)
    except PathExprParsingError:
        return None
    assert isinstance(p, NodePath) and p.path_string == s
    assert all(type(c) is PathComponent for c in p.components)
    return p.subset_slice, [tuple(c) for c in p.components]


def same(a, b):
    """equality that also distinguishes 0 / False / 0.0 and 1 / True"""
    return repr(a) == repr(b)
# -----------------------------------------------------------------------------

import random

ALPHA = '@[]:/.>-01A '


def check(s, bare=True):
    r, o = reference(s, bare), observe(s, bare)
    assert same(r, o), (s, bare, r, o)
    return r is not None


def must_reject(s):
    for bare in (True, False):
        try:
            NodePathParser(bare_id_matches_all=bare).parse(s)
        except PathExprParsingError as e:
            assert str(e)            # a message is given
        else:
            raise AssertionError('accepted: %r' % s)
        assert not check(s, bare)


def main():
    # 1. the two legal ways to end: on an ID, or on the ']' of a component slice.
    #    The last component must be delivered, complete, and exactly once.
    for s, n_comp, last in [('A', 1, ('>', 'A', slice(None, None, None))),
                            ('A/B', 2, ('/', 'B', slice(None, None, None))),
                            ('A/B ', 2, ('/', 'B', slice(None, None, None))),
                            ('A/B\n', 2, ('/', 'B', slice(None, None, None))),
                            ('A.B[1]', 2, ('.', 'B', 1)),
                            ('A>B[1:2] \t', 2, ('>', 'B', slice(1, 2, None))),
                            ('@[0]/A/B/C', 3, ('/', 'C', slice(None, None, None))),
                            ('@[0]/A[0]/B[0]/C[-1]', 3, ('/', 'C', slice(-1, None, None))),
                            ('/A[1]/A[1]', 2, ('/', 'A', 1)),
                            ('0', 1, ('>', '0', slice(None, None, None))),
                            ('A - 1', 1, ('>', 'A-1', slice(None, None, None)))]:
        p = NodePathParser().parse(s)
        assert len(p.components) == n_comp and same(tuple(p.components[-1]), last), (s, p.components)
        assert check(s) and check(s, bare=False)

    # 2. every way of stopping early: all proper prefixes of valid expressions are classified
    #    like the reference does, and the ones ending in an unterminated construct are errors
    valid = ['@[1:2:3]/301011[0]>004001[-1:].A21[::2]', '@[-1]>A/B.C', '/A[1]/B[2:3]/C', 'A[0].B[1:].C[::1]>D', '@ [ 0 ] / A [ 1 : 2 ] . B']
    n_pref = 0
    for s in valid:
        assert check(s)
        for i in range(len(s)):
            n_pref += 1
            check(s[:i]); check(s[:i], bare=False); check(s[:i] + ' ')
    for s in ['', ' ', '\t\n', '@', '@ ', '@[', '@[1', '@[1:', '@[1:2', '@[1:2:', '@[1:2:3', '@[1:2:3]', '@[1]', '@[1] ', '@[-1]',
              '@[1]/', '@[1]>', '@[1]/A[', '@[1]/A[0', '@[1]/A[0:', '@[1]/A[0:1', '@[1]/A[0]/', '@[1]/A[0].', '@[1]/A.',
              '/', '>', '/ ', 'A/', 'A.', 'A>', 'A[', 'A[1', 'A[-', 'A[1:', 'A[:', 'A[::', 'A[1:2:3', 'A[0]/B[', 'A[0]/B[7', 'A/B/', 'A/B/ ']:
        must_reject(s)

    # 3. a parser that has failed at the end of the input is as good as new afterwards
    p = NodePathParser()
    for bad, good in [('A[1', 'A[1]'), ('@[0]', '@[0]/A'), ('A/', 'A/B'), ('@[', 'A'), ('A[1:2:3:4]', 'A[1:2:3]')]:
        try:
            p.parse(bad)
        except PathExprParsingError:
            pass
        else:
            raise AssertionError(bad)
        got = p.parse(good)
        assert got is p.node_path
        assert same((got.subset_slice, [tuple(c) for c in got.components]), reference(good)), good
        assert len(got.components) == len(reference(good)[1])

    # 4. exhaustive: all strings up to length 4, and up to length 5 for those starting with a selector or ending open
    n = acc = 0
    for length in range(0, 5):
        for t in itertools.product(ALPHA, repeat=length):
            n += 1
            acc += check(''.join(t), bare=bool(n % 2))
    for t in itertools.product(ALPHA, repeat=4):
        for tail in '[:-1A/. ':
            n += 1
            acc += check(''.join(t) + tail)

    # 5. random long expressions cut at a random point or with the last character changed
    rnd = random.Random(15)
    ids = ['A', '001001', '301011', 'B2']
    n_rand = acc_rand = 0
    for _ in range(3000):
        s = rnd.choice(['', '/', '>', '@[%d]/' % rnd.randint(-3, 3), '@[%d:]>' % rnd.randint(-3, 3)])
        for i in range(rnd.randint(1, 6)):
            s += (rnd.choice('/.>') if i else '') + rnd.choice(ids)
            s += rnd.choice(['', '', '[%d]' % rnd.randint(-5, 5), '[%d:%d]' % (rnd.randint(-5, 5), rnd.randint(-5, 5)), '[::%d]' % rnd.randint(1, 3), '[:]'])
        assert check(s), s
        for t in (s[:rnd.randrange(len(s) + 1)], s[:-1] + rnd.choice(ALPHA), s + rnd.choice(ALPHA), s[:-1]):
            n_rand += 1
            acc_rand += check(t, bare=rnd.random() < 0.5)
    print('demo 3 ok: %d prefixes, %d/%d short strings, %d/%d cut or changed long expressions accepted'
          % (n_pref, acc, n, acc_rand, n_rand))


main()
