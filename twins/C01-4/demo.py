import os, sys; sys.path.insert(0, os.getcwd())
# ---------------------------------------------------------------------------
# Independent, minimal BUFR message builder (no pybufrkit code involved).
# ---------------------------------------------------------------------------
class Bits(object):
    """Big-endian bit accumulator."""

    def __init__(self):
        self.chunks = []

    def u(self, value, nbits):
        """Append an unsigned integer of nbits."""
        assert nbits >= 0 and 0 <= value < (1 << nbits) or (nbits == 0 and value == 0), (value, nbits)
        if nbits:
            self.chunks.append(format(value, '0{}b'.format(nbits)))
        return self

    def ones(self, nbits):
        """Append nbits of all ones (the missing value)."""
        return self.u((1 << nbits) - 1, nbits)

    def s(self, data):
        """Append raw bytes."""
        for byte in bytearray(data):
            self.u(byte, 8)
        return self

    def sm(self, value, nbits):
        """Append a sign-magnitude integer (operator 203 reference values)."""
        self.u(1 if value < 0 else 0, 1)
        return self.u(abs(value), nbits - 1)

    def nbits(self):
        return sum(len(c) for c in self.chunks)

    def to_bytes(self):
        s = ''.join(self.chunks)
        s += '0' * (-len(s) % 8)
        return bytes(bytearray(int(s[i:i + 8], 2) for i in range(0, len(s), 8)))


def _u(value, nbytes):
    return bytes(bytearray((value >> (8 * (nbytes - 1 - i))) & 0xFF for i in range(nbytes)))


def build_message(descriptors, data, n_subsets=1, compressed=False, edition=4,
                  master_table_version=25, pad_data_to=None):
    """
    Assemble a complete BUFR message.

    :param descriptors: list of int descriptor ids (FXXYYY as decimal number)
    :param data: bytes of the data section payload (after the 4 octet header)
    """
    if edition == 4:
        sec1 = (_u(22, 3) + _u(0, 1) + _u(0, 2) + _u(0, 2) + _u(0, 1) + _u(0, 1) +
                _u(0, 1) + _u(0, 1) + _u(0, 1) + _u(master_table_version, 1) + _u(0, 1) +
                _u(2020, 2) + _u(1, 1) + _u(2, 1) + _u(3, 1) + _u(4, 1) + _u(5, 1))
        assert len(sec1) == 22
    elif edition == 3:
        sec1 = (_u(18, 3) + _u(0, 1) + _u(0, 1) + _u(0, 1) + _u(0, 1) + _u(0, 1) +
                _u(0, 1) + _u(0, 1) + _u(master_table_version, 1) + _u(0, 1) +
                _u(20, 1) + _u(1, 1) + _u(2, 1) + _u(3, 1) + _u(4, 1) + _u(0, 1))
        assert len(sec1) == 18
    elif edition == 2:
        sec1 = (_u(18, 3) + _u(0, 1) + _u(0, 2) + _u(0, 1) + _u(0, 1) +
                _u(0, 1) + _u(0, 1) + _u(master_table_version, 1) + _u(0, 1) +
                _u(20, 1) + _u(1, 1) + _u(2, 1) + _u(3, 1) + _u(4, 1) + _u(0, 1))
        assert len(sec1) == 18
    else:
        raise ValueError(edition)

    desc_bytes = b''
    for d in descriptors:
        f, x, y = d // 100000, d // 1000 % 100, d % 1000
        desc_bytes += _u((f << 14) | (x << 8) | y, 2)
    flags = 0x80 | (0x40 if compressed else 0)
    sec3_body = _u(0, 1) + _u(n_subsets, 2) + _u(flags, 1) + desc_bytes
    if edition < 4 and (len(sec3_body) + 3) % 2:
        sec3_body += b'\0'
    sec3 = _u(len(sec3_body) + 3, 3) + sec3_body

    if pad_data_to is not None:
        data = data + b'\0' * (pad_data_to - len(data))
    if edition < 4 and (len(data) + 4) % 2:
        data += b'\0'
    sec4 = _u(len(data) + 4, 3) + _u(0, 1) + data

    body = sec1 + sec3 + sec4 + b'7777'
    total = 8 + len(body)
    return b'BUFR' + _u(total, 3) + _u(edition, 1) + body


def decode(message, **kwargs):
    """Decode with the library under test; return (values, labels) per subset."""
    from pybufrkit.decoder import Decoder
    bufr = Decoder(**kwargs).process(message)
    td = bufr.template_data.value
    values = [list(vs) for vs in td.decoded_values_all_subsets]
    labels = [[str(d) for d in ds] for ds in td.decoded_descriptors_all_subsets]
    return values, labels


def num(raw, scale, ref):
    """The FM-94 value of a numeric field: (raw + reference) / 10**scale."""
    if raw is None:
        return None
    value = raw + ref
    if scale != 0:
        value = value / (1.0 * 10 ** scale)
    return value


def same(actual, expected):
    """Exact equality including the int/float distinction, element by element."""
    assert len(actual) == len(expected), (len(actual), len(expected), actual, expected)
    for i, (a, e) in enumerate(zip(actual, expected)):
        assert type(a) is type(e) and a == e, (i, a, e, actual, expected)
    return True


# ---------------------------------------------------------------------------
# Demo for refactor 4: labels of the pseudo descriptors and Coder.process_bitmapped_descriptor
# ---------------------------------------------------------------------------
from pybufrkit.errors import PyBufrKitError, BitReadError
from pybufrkit.decoder import Decoder
from pybufrkit.coder import CoderState
from pybufrkit.bitops import get_bit_reader
from pybufrkit.descriptors import (Descriptor, ElementDescriptor, AssociatedDescriptor, SkippedLocalDescriptor,
                                   MarkerDescriptor, OperatorDescriptor, marker_descriptor_prefix)

BOTH = ({}, {'compiled_template_cache_max': 8})


def expect_error(exc_type, func, *args, **kwargs):
    try:
        func(*args, **kwargs)
    except Exception as e:
        assert type(e) is exc_type, (type(e), e)
        return e
    raise AssertionError('no error raised, expected {}'.format(exc_type.__name__))


def check(template, bits, values, labels, links=None, **kwargs):
    for kw in BOTH:
        td = Decoder(**kw).process(build_message(template, bits.to_bytes(), **kwargs)).template_data.value
        v = td.decoded_values_all_subsets
        assert len(v) == len(values)
        for got, exp in zip(v, values):
            same(list(got), exp)
        l = [[str(d) for d in ds] for ds in td.decoded_descriptors_all_subsets]
        assert l == labels, l
        if links is not None:
            assert td.bitmap_links_all_subsets == links, td.bitmap_links_all_subsets


# --- 1. the labels themselves ---------------------------------------------------------------------
assert marker_descriptor_prefix == {223255: 'T', 224255: 'F', 225255: 'D', 232255: 'R'}
for id_, tail in ((1001, '01001'), (12001, '12001'), (63255, '63255'), (1, '00001'), (0, '00000'),
                  (99999, '99999'), (225255, '225255'), (112001, '112001')):
    a, s = AssociatedDescriptor(id_, 4), SkippedLocalDescriptor(id_, 9)
    assert str(a) == 'A' + tail and repr(a) == '<A' + tail + '>' and '{}'.format(a) == 'A' + tail
    assert str(s) == 'S' + tail and repr(s) == '<S' + tail + '>'
    assert (a.nbits, a.unit, s.nbits, s.unit) == (4, 'ASSOCIATED', 9, 'SKIPPED')
    ed = ElementDescriptor(id_, 'NAME', 'K', 1, -5, 12, 'C', 1, 3)
    assert str(ed) == '{:06d}'.format(id_)
    for marker_id, prefix in ((223255, 'T'), (224255, 'F'), (225255, 'D'), (232255, 'R'),
                              (222255, 'M'), (0, 'M'), (None, 'M'), ('225255', 'M')):
        md = MarkerDescriptor.from_element_descriptor(ed, marker_id)
        assert str(md) == prefix + tail and repr(md) == '<' + prefix + tail + '>'
        assert type(md) is MarkerDescriptor and md.marker_id == marker_id
        assert md.as_list() == ed.as_list() and md is not ed
        assert (md.crex_unit, md.crex_scale, md.crex_nchars) == ('C', 1, 3)
# overriding scale, reference, width: only what is given
ed = ElementDescriptor(12001, 'T', 'K', 1, -5, 12, 'C', 1, 3)
md = MarkerDescriptor.from_element_descriptor(ed, 225255, refval=-2 ** 12, nbits=13)
assert (md.scale, md.refval, md.nbits) == (1, -4096, 13) and str(md) == 'D12001'
md = MarkerDescriptor.from_element_descriptor(ed, 224255, scale=0, refval=0, nbits=0)
assert (md.scale, md.refval, md.nbits) == (0, 0, 0) and str(md) == 'F12001'
assert (ed.scale, ed.refval, ed.nbits) == (1, -5, 12)
# a marker that was never given its operator has no label; an id that is not a number cannot be formatted
bare = MarkerDescriptor(12001, 'T', 'K', 1, -5, 12, 'C', 1, 3)
expect_error(AttributeError, str, bare)
expect_error(AttributeError, repr, bare)
expect_error(ValueError, str, AssociatedDescriptor('12001', 4))
expect_error(ValueError, str, SkippedLocalDescriptor('12001', 4))
expect_error(TypeError, str, AssociatedDescriptor(None, 4))
bad = MarkerDescriptor.from_element_descriptor(ed, 225255)
bad.id = '12001'
expect_error(ValueError, str, bad)
bad.id = 12001.0   # a float is refused by the d format as well
expect_error(ValueError, str, bad)
assert str(AssociatedDescriptor(True, 1)) == 'A00001'
# equality is by class and id, the label plays no part
assert AssociatedDescriptor(12001, 4) == AssociatedDescriptor(12001, 8)
assert AssociatedDescriptor(12001, 4) != SkippedLocalDescriptor(12001, 4)
assert MarkerDescriptor.from_element_descriptor(ed, 225255) == MarkerDescriptor.from_element_descriptor(ed, 224255)

# --- 2. process_bitmapped_descriptor called directly ---------------------------------------------------
decoder = Decoder()
e1 = ElementDescriptor(12001, 'T', 'K', 1, 0, 12, 'C', 1, 3)
e2 = ElementDescriptor(2001, 'CODE', 'CODE TABLE', 0, 0, 2, 'CODE TABLE', 0, 1)
e3 = ElementDescriptor(7001, 'H', 'm', 0, -400, 15, 'm', 0, 5)
for marker, prefix in ((224255, 'F'), (225255, 'D'), (223255, 'T'), (232255, 'R')):
    state = CoderState(False, 1)
    state.decoded_descriptors.extend([e1, e2, e3])
    state.decoded_values.extend([1, 2, 3])
    state.bitmapped_descriptors = [(0, e1), (1, e2), (2, e3)]
    state.bitmap = [0, 0, 0]
    state.recall_bitmap()
    if marker == 225255:
        bits = Bits().u(4096 - 7, 13).u(6, 3).u(32768 + 1000, 16)
        expected = [-0.7, 6, 1000]
        shapes = [(1, -4096, 13), (0, -4, 3), (0, -32768, 16)]
    else:
        bits = Bits().u(2731, 12).u(2, 2).ones(15)
        expected = [273.1, 2, None]
        shapes = [(1, 0, 12), (0, 0, 2), (0, -400, 15)]
    reader = get_bit_reader(bits.to_bytes())
    op = OperatorDescriptor(marker)
    for _ in range(3):
        assert decoder.process_bitmapped_descriptor(state, reader, op) is None
    same(state.decoded_values[3:], expected)
    made = state.decoded_descriptors[3:]
    assert [str(d) for d in made] == [prefix + t for t in ('12001', '02001', '07001')]
    assert all(type(d) is MarkerDescriptor and d.marker_id == marker for d in made)
    assert [(d.scale, d.refval, d.nbits) for d in made] == shapes
    assert [d.id for d in made] == [12001, 2001, 7001] and [d.unit for d in made] == ['K', 'CODE TABLE', 'm']
    assert state.bitmap_links == {3: 0, 4: 1, 5: 2}
    # the originals are untouched
    assert (e1.refval, e1.nbits, e2.nbits, e3.refval, e3.nbits) == (0, 12, 2, -400, 15)
    # exhausted: the link is not recorded, nothing is appended
    expect_error(StopIteration, decoder.process_bitmapped_descriptor, state, reader, op)
    assert len(state.decoded_descriptors) == 6 and len(state.bitmap_links) == 3
# no bitmap at all
state = CoderState(False, 1)
expect_error(TypeError, decoder.process_bitmapped_descriptor, state, get_bit_reader(b'\0'), OperatorDescriptor(224255))
assert state.bitmap_links == {} and state.decoded_descriptors == []
# out of bits: link and descriptor are recorded, the value is not
state = CoderState(False, 1)
state.bitmapped_descriptors = [(7, e1)]
state.recall_bitmap()
expect_error(BitReadError, decoder.process_bitmapped_descriptor, state, get_bit_reader(b'\0'), OperatorDescriptor(225255))
assert state.bitmap_links == {0: 7} and [str(d) for d in state.decoded_descriptors] == ['D12001']
assert state.decoded_values == []

# --- 3. whole messages -------------------------------------------------------------------------------
# A and S labels
check([204004, 31021, 12001, 204000, 206010, 12250, 1001],
      Bits().u(1, 6).u(9, 4).u(2731, 12).u(513, 10).u(5, 7),
      [[1, 9, 273.1, 513, 5]], [['031021', 'A12001', '012001', 'S12250', '001001']])
check([204002, 31021, 1001, 204000, 206009, 1001], Bits().u(1, 6).ones(2).ones(7).ones(9),
      [[1, None, None, None]], [['031021', 'A01001', '001001', 'S01001']])

# F, D, R, T markers over a reused bitmap
T2 = [1001, 12001, 7001,
      224000, 236000, 101003, 31031, 8023, 101002, 224255,
      225000, 237000, 8024, 101002, 225255,
      232000, 237000, 101002, 232255,
      223000, 237000, 101002, 223255,
      237255, 235000,
      1001, 222000, 101001, 31031, 33007]
L2 = ['001001', '012001', '007001', '224000', '236000', '031031', '031031', '031031', '008023',
      'F12001', 'F07001', '225000', '237000', '008024', 'D12001', 'D07001', '232000', '237000',
      'R12001', 'R07001', '223000', '237000', 'T12001', 'T07001', '237255', '001001', '222000',
      '031031', '033007']
LINKS2 = {9: 1, 10: 2, 14: 1, 15: 2, 18: 1, 19: 2, 22: 1, 23: 2, 28: 25}
fields = [(5, 7), (2731, 12), (500, 15), (1, 1), (0, 1), (0, 1), (4, 6), (2700, 12), (450, 15),
          (2, 6), (4096 + 15, 13), (32768 - 20, 16), (2800, 12), ((1 << 15) - 1, 15),
          (0, 12), (1, 15), (9, 7), (0, 1), (99, 7)]
V2 = [5, 273.1, 100, 0, 0, 1, 0, 0, 4, 270.0, 50, 0, 0, 2, 1.5, -20, 0, 0, 280.0, None,
      0, 0, 0.0, -399, 0, 9, 0, 0, 99]
bits, cbits = Bits(), Bits()
for raw, nbits in fields:
    bits.u(raw, nbits)
    cbits.u(raw, nbits).u(0, 6)
for edition in (2, 3, 4):
    check(T2, bits, [V2], [L2], [LINKS2], edition=edition)
    check(T2, cbits, [V2] * 3, [L2] * 3, [LINKS2] * 3, n_subsets=3, compressed=True, edition=edition)

# difference statistics: extremes of the widened field, on numeric, code and character elements, with 201 in force
T3 = [12001, 2001, 1015, 225000, 101003, 31031, 8024, 201130, 101003, 225255, 201000, 12001]
L3 = ['012001', '002001', '001015', '225000', '031031', '031031', '031031', '008024',
      'D12001', 'D02001', 'D01015', '012001']
head = Bits().u(2731, 12).u(1, 2).s(b'NAME'.ljust(20)).u(0, 1).u(0, 1).u(0, 1).u(2, 6)
for raw, value in ((4096 + 25, 2.5), (0, -409.6), (4096, 0.0), ((1 << 15) - 2, ((1 << 15) - 2 - 4096) / 10.0),
                   ((1 << 15) - 1, None)):
    bits = Bits()
    bits.chunks = list(head.chunks)
    bits.u(raw, 15).u(5, 3).s(b'OTHER'.ljust(20)).u(1, 12)
    check(T3, bits, [[273.1, 1, b'NAME'.ljust(20), 0, 0, 0, 0, 2, value, 5, b'OTHER'.ljust(20), 0.1]],
          [L3], [{8: 0, 9: 1, 10: 2}])
# only the zero bits of the bitmap select an element
check([1001, 12001, 7001, 225000, 101003, 31031, 8024, 225255],
      Bits().u(5, 7).u(1, 12).u(2, 15).u(1, 1).u(0, 1).u(1, 1).u(2, 6).u(4096 - 1, 13),
      [[5, 0.1, -398, 0, 1, 0, 1, 2, -0.1]],
      [['001001', '012001', '007001', '225000', '031031', '031031', '031031', '008024', 'D12001']], [{8: 1}])
# two subsets, different bitmaps (uncompressed): labels follow each subset's own bitmap
check([1001, 7001, 224000, 101002, 31031, 8023, 224255],
      Bits().u(5, 7).u(2, 15).u(0, 1).u(1, 1).u(4, 6).u(6, 7)
      .u(5, 7).u(2, 15).u(1, 1).u(0, 1).u(4, 6).u(400, 15),
      [[5, -398, 0, 0, 1, 4, 6], [5, -398, 0, 1, 0, 4, 0]],
      [['001001', '007001', '224000', '031031', '031031', '008023', 'F01001'],
       ['001001', '007001', '224000', '031031', '031031', '008023', 'F07001']], [{6: 0}, {6: 1}], n_subsets=2)

# --- 4. error cases -----------------------------------------------------------------------------------------
for kw in BOTH:
    # a marker without bitmap; more markers than selected elements; bitmap longer than what precedes
    expect_error(TypeError, decode, build_message([225255, 1001], Bits().u(5, 7).to_bytes()), **kw)
    expect_error(StopIteration, decode, build_message(
        [1001, 225000, 101001, 31031, 225255, 225255], Bits().u(5, 7).u(0, 1).u(6, 8).u(7, 8).to_bytes()), **kw)
    e = expect_error(PyBufrKitError, decode, build_message(
        [1001, 225000, 101002, 31031, 225255], Bits().u(5, 7).u(0, 1).u(0, 1).u(6, 8).to_bytes()), **kw)
    assert 'Back referenced descriptors not matching' in e.message
    msg = build_message([5001, 225000, 101001, 31031, 225255], Bits().u(5, 25).u(0, 1).u(6, 26).to_bytes())
    expect_error(BitReadError, decode, msg[:-6], **kw)

# --- 5. sample corpus: labels and values of files with bitmaps and marker operators -------------------------------
import json

for name in ('207003', 'g2nd_208', 'jaso_214', 'IUSK73_AMMC_182300', 'uegabe'):
    with open(os.path.join('tests', 'data', name + '.json')) as f:
        stored = json.load(f)[-2][-1]
    with open(os.path.join('tests', 'data', name + '.bufr'), 'rb') as f:
        raw = f.read()
    for kw in BOTH:
        values, labels = decode(raw, **kw)
        for got, exp in zip(values, stored):
            same([x.decode('latin-1') if isinstance(x, bytes) else x for x in got], exp)
        for row in labels:
            for label in row:
                assert len(label) == 6 and label[1:].isdigit() and (label[0] in '0123ASTFDR'), label
seen = set()
for name in ('207003', 'g2nd_208', 'jaso_214', 'amv2_87', 'asr3_190', 'mpco_217'):
    with open(os.path.join('tests', 'data', name + '.bufr'), 'rb') as f:
        _, labels = decode(f.read())
    seen.update(label[0] for label in labels[0])
assert seen <= set('02ASTFDR') and '0' in seen and '2' in seen, seen

print('demo 4 OK')
