"""
Demo for refactor 2 (pybufrkit/decoder.py: Decoder.process_section - validation of expected values and
reconciliation with the declared section length).

Run as:  cd /tmp/tw_C12 && /venv/bin/python _out/2/demo.py
"""
import os, sys; sys.path.insert(0, os.getcwd())

import contextlib
import io
import logging

import pybufrkit
from pybufrkit.bitops import get_bit_reader
from pybufrkit.bufr import BufrMessage
from pybufrkit.decoder import Decoder, generate_bufr_message
from pybufrkit.errors import PyBufrKitError, BitReadError, UnknownDescriptor

assert os.path.dirname(os.path.abspath(pybufrkit.__file__)) == os.path.join(os.getcwd(), 'pybufrkit'), \
    'wrong copy of pybufrkit imported: ' + pybufrkit.__file__

DATA = os.path.join(os.getcwd(), 'tests', 'data')


def load(name):
    with open(os.path.join(DATA, name + '.bufr'), 'rb') as ins:
        return ins.read()


decoder = Decoder()
compiled_decoder = Decoder(compiled_template_cache_max=10)


def layout(s):
    """section index -> (byte offset, declared length or None)"""
    m = decoder.process(s)
    return {sec.get_metadata('index'): (sec.get_metadata('bitpos_start') // 8,
                                        sec.section_length.value if 'section_length' in sec else None)
            for sec in m.sections}


def content(m):
    td = m.template_data.value
    return (m.serialized_bytes,
            td.decoded_values_all_subsets,
            [[d.id for d in ds] for ds in td.decoded_descriptors_all_subsets])


# --- the kinds of damage; the total length of the message is always intact ---------------------
def damage_stop(s, replacement=b'7770'):
    return s[:-4] + replacement


def n_descriptors(s):
    off, ln = layout(s)[3]
    return (ln - 7) // 2


def damage_descriptor(s, position, fxy):
    off, _ = layout(s)[3]
    p = off + 7 + 2 * position
    f, x, y = fxy
    return s[:p] + bytes([(f << 6) | x, y]) + s[p + 2:]


def damage_length(s, section_index, delta):
    off, ln = layout(s)[section_index]
    return s[:off] + (ln + delta).to_bytes(3, 'big') + s[off + 3:]


def outcome(func, *args, **kwargs):
    try:
        return func(*args, **kwargs)
    except Exception as e:  # noqa
        return e


NAMES = ['contrived', '207003', 'profiler_european', 'uegabe']
MESSAGES = {name: load(name) for name in NAMES}
REFERENCE = {name: content(decoder.process(s)) for name, s in MESSAGES.items()}

# ---------------------------------------------------------------------------------------------
# 1. intact messages: sections, metadata, return value of process_section
# ---------------------------------------------------------------------------------------------
for name, s in MESSAGES.items():
    for dec in (decoder, compiled_decoder):
        for kwargs in ({}, {'ignore_value_expectation': True}, {'wire_template_data': False}):
            m = dec.process(s, **kwargs)
            assert content(m) == REFERENCE[name]
            # the start position of every section is recorded, consecutive, and consistent with the length
            pos = 0
            for sec in m.sections:
                assert sec.get_metadata('bitpos_start') == pos
                pos += (sec.section_length.value * 8 if 'section_length' in sec else
                        sum(p.nbits for p in sec))
            assert pos == len(s) * 8
            assert m.sections[0].start_signature.value == b'BUFR' and m.sections[-1].stop_signature.value == b'7777'
    m = decoder.process(s, info_only=True)
    assert m.length.value == len(s)
    assert [sec.get_metadata('index') for sec in m.sections][-1] == 4

# process_section called directly: returns the number of bits of the section and leaves the reader there
s = MESSAGES['contrived']
reader = get_bit_reader(s)
message = BufrMessage('<demo>')
section_index = 0
sizes = []
while True:
    section = decoder.section_configurer.configure_section(message, section_index, ())
    section_index += 1
    if section is None:
        continue
    before = reader.get_pos()
    nbits = decoder.process_section(message, reader, section)
    assert type(nbits) is int and nbits == reader.get_pos() - before
    assert section.get_metadata('bitpos_start') == before
    sizes.append((section.get_metadata('index'), nbits // 8))
    if section.end_of_message:
        break
assert sizes == [(0, 8), (1, 22), (3, 25), (4, 35), (5, 4)], sizes

# ---------------------------------------------------------------------------------------------
# 2. expected values: start and stop signature
# ---------------------------------------------------------------------------------------------
for name, s in MESSAGES.items():
    for replacement in (b'7770', b'0777', b'\x00\x00\x00\x00', b'BUFR', b'7777'[::-1][:3] + b' '):
        bad = damage_stop(s, replacement)
        for dec in (decoder, compiled_decoder):
            e = outcome(dec.process, bad)
            assert type(e) is PyBufrKitError, (name, replacement, e)
            assert e.message == 'Value ({!r}) not as expected ({!r})'.format(replacement, b'7777')
            assert str(e) == 'Error: ' + e.message
            # with more bytes behind it, it makes no difference
            e2 = outcome(dec.process, bad + s)
            assert type(e2) is PyBufrKitError and e2.message == e.message
        # info only scanning does not read the stop signature
        assert outcome(decoder.process, bad, info_only=True).length.value == len(s)
        # validation switched off: decodes, the damaged value is kept, everything else is as in the original
        m = decoder.process(bad, ignore_value_expectation=True)
        assert m.sections[-1].stop_signature.value == replacement
        assert content(m)[1:] == REFERENCE[name][1:] and m.serialized_bytes == bad

    # start signature: not searched for when start_signature is None, then it is an expected value
    for junk in (b'BUFS', b'bUFR', b'\x00BUF'):
        bad = junk + s[4:]
        e = outcome(decoder.process, bad, start_signature=None)
        assert type(e) is PyBufrKitError
        assert e.message == 'Value ({!r}) not as expected ({!r})'.format(junk, b'BUFR')
        e = outcome(decoder.process, bad, start_signature=None, info_only=True)
        assert type(e) is PyBufrKitError
        assert e.message == 'Value ({!r}) not as expected ({!r})'.format(junk, b'BUFR')
        e = outcome(decoder.process, bad)
        assert type(e) is PyBufrKitError and e.message.startswith('Cannot find start signature')
        m = decoder.process(bad, start_signature=None, ignore_value_expectation=True)
        assert m.sections[0].start_signature.value == junk and content(m)[1:] == REFERENCE[name][1:]
    # the failing parameter has already been published on the message object before the check fails
    reader = get_bit_reader(b'XUFR' + s[4:])
    message = BufrMessage('<demo>')
    section = decoder.section_configurer.configure_section(message, 0, ())
    e = outcome(decoder.process_section, message, reader, section)
    assert type(e) is PyBufrKitError and reader.get_pos() == 32
    assert section.start_signature.value == b'XUFR' and section.length.value is None
    assert section.get_metadata('bitpos_start') == 0

# ---------------------------------------------------------------------------------------------
# 3. declared section length, decreased and increased, every section that declares one
# ---------------------------------------------------------------------------------------------
EXCEEDS = 'Read exceeds declared section {} length: {} by {} bits'
for name, s in MESSAGES.items():
    lay = layout(s)
    for section_index, (off, ln) in sorted(lay.items()):
        if ln is None:
            continue
        # (a section 2 declared shorter than its own 4 leading octets is kept for part 3b below)
        for delta in (-1, 1, -2, 2, -3, 5) + ((-ln,) if section_index != 2 else ()):
            bad = damage_length(s, section_index, delta)
            assert len(bad) == len(s) and bad != s
            for info_only in (False, True):
                for dec in (decoder, compiled_decoder):
                    e = outcome(dec.process, bad, info_only=info_only)
                    if info_only and section_index == 4:
                        # nothing of the data section is interpreted; only its extent matters: the four
                        # leading octets are read, the rest is skipped, up to the bytes that are there
                        if ln + delta < 4:
                            assert type(e) is PyBufrKitError, (name, delta, e)
                            assert e.message == EXCEEDS.format(4, ln + delta, (4 - ln - delta) * 8)
                        elif delta <= 4:
                            assert isinstance(e, BufrMessage), (name, delta, e)
                            assert e.length.value == len(s)
                        else:
                            assert type(e) is BitReadError, (name, delta, e)
                        continue
                    assert isinstance(e, PyBufrKitError), (name, section_index, delta, info_only, e)
                    assert type(e) in (PyBufrKitError, BitReadError, UnknownDescriptor), type(e)
                # sections 1 and 2 have a fixed layout: a shorter declaration is always an overrun,
                # reported with the section, the declared length and the excess
                if section_index == 1 and delta < 0:
                    e = outcome(decoder.process, bad, info_only=info_only)
                    assert type(e) is PyBufrKitError
                    fixed = 18 if s[7] == 3 else 22  # edition 3 / 4: octets always read in section 1
                    assert e.message == EXCEEDS.format(1, ln + delta, (fixed - (ln + delta)) * 8), e.message

    # data section one octet short: the overrun (or a displaced stop signature) is detected in full
    # scanning; the text is exact
    off, ln = lay[4]
    e = outcome(decoder.process, damage_length(s, 4, -3))
    assert type(e) is PyBufrKitError and e.message.startswith(EXCEEDS.format(4, ln - 3, '')[:-5]), e.message
    # data section one octet long: the stop signature is displaced
    e = outcome(decoder.process, damage_length(s, 4, 1) + b'x')
    assert type(e) is PyBufrKitError
    assert e.message == 'Value ({!r}) not as expected ({!r})'.format(b'777x', b'7777')
    e = outcome(decoder.process, damage_length(s, 4, 1))
    assert type(e) is BitReadError
    # zero length section: overrun by everything that was read of it
    e = outcome(decoder.process, damage_length(s, 4, -ln), info_only=True)
    assert type(e) is PyBufrKitError and e.message == EXCEEDS.format(4, 0, 32), e.message

# 3b. A section 2 that declares less than its own four leading octets makes the "rest of the section"
# read (a parameter of zero width) come out with a negative number of bits.
# (rebased: since "fix: a section declared shorter than its fixed part is reported with PyBufrKitError"
# this is refused as an overrun before the bit reader is asked; it used to be a plain ValueError)
for name in ('profiler_european', 'uegabe'):
    s = MESSAGES[name]
    off, ln = layout(s)[2]
    for new_length in range(4):
        bad = s[:off] + new_length.to_bytes(3, 'big') + s[off + 3:]
        for info_only in (False, True):
            e = outcome(decoder.process, bad, info_only=info_only)
            assert type(e) is PyBufrKitError, (name, new_length, e)
            assert e.message == EXCEEDS.format(2, new_length, (4 - new_length) * 8), e.message
    # from 4 octets on, the rest-of-section read is empty or positive, and damage is a library error again
    for new_length in range(4, ln):
        bad = s[:off] + new_length.to_bytes(3, 'big') + s[off + 3:]
        for info_only in (False, True):
            e = outcome(decoder.process, bad, info_only=info_only)
            assert isinstance(e, PyBufrKitError), (name, new_length, info_only, e)

# exactly the declared length and padding: skipping of unread bits (sections 1 of edition 3 have a pad octet)
s = MESSAGES['207003']
m = decoder.process(s)
assert m.sections[1].section_length.value == 18
assert sum(p.nbits for p in m.sections[1]) in (17 * 8, 18 * 8)

# ---------------------------------------------------------------------------------------------
# 4. undefined element / sequence descriptor at every position of section 3
# ---------------------------------------------------------------------------------------------
UNREACHED = set()
for name, s in MESSAGES.items():
    for position in range(n_descriptors(s)):
        for fxy in ((0, 63, 255), (3, 63, 255)):
            bad = damage_descriptor(s, position, fxy)
            for dec in (decoder, compiled_decoder):
                e = outcome(dec.process, bad)
                if isinstance(e, BufrMessage):
                    UNREACHED.add((name, position))
                else:
                    assert isinstance(e, PyBufrKitError), (name, position, fxy, e)
            # section 3 is read, not interpreted, by info only scanning
            m = decoder.process(bad, info_only=True)
            assert m.unexpanded_descriptors.value[position] == fxy[0] * 100000 + 63255
    # at the first position nothing precedes the undefined descriptor: the dedicated error
    for fxy in ((0, 63, 255), (3, 63, 255)):
        e = outcome(decoder.process, damage_descriptor(s, 0, fxy))
        assert type(e) is UnknownDescriptor, (name, fxy, e)
        assert e.message.startswith('Cannot process descriptor {}63255 of type: Undefined'.format(fxy[0]))

# the only descriptor that is never reached: the one replicated zero times at the end of uegabe
# (204004 031021 309052 204000 101000 031001 205008, the delayed replication factor is 0)
assert UNREACHED == {('uegabe', 6)}, UNREACHED

# ---------------------------------------------------------------------------------------------
# 5. streams of two messages, each kind of damage in either or both positions
# ---------------------------------------------------------------------------------------------
KINDS = [
    ('stop', damage_stop),
    ('elem', lambda s: damage_descriptor(s, 0, (0, 63, 255))),
    ('seq', lambda s: damage_descriptor(s, n_descriptors(s) - 1, (3, 63, 255))),
    ('len1-', lambda s: damage_length(s, 1, -1)),
    ('len1+', lambda s: damage_length(s, 1, 1)),
    ('len3-', lambda s: damage_length(s, 3, -2)),
    ('len3+', lambda s: damage_length(s, 3, 2)),
    ('len4-', lambda s: damage_length(s, 4, -1)),
    ('len4+', lambda s: damage_length(s, 4, 1)),
]
A, B = MESSAGES['contrived'], MESSAGES['207003']
VARIANTS_A = [(None, A)] + [(k, f(A)) for k, f in KINDS]
VARIANTS_B = [(None, B)] + [(k, f(B)) for k, f in KINDS]
n_streams = 0
for kind_a, a in VARIANTS_A:
    for kind_b, b in VARIANTS_B:
        stream = a + b
        expected = [REFERENCE[n] for n, k in (('contrived', kind_a), ('207003', kind_b)) if k is None]
        err = io.StringIO()
        with contextlib.redirect_stderr(err):
            delivered = [content(m) for m in generate_bufr_message(decoder, stream, continue_on_error=True)]
        assert delivered == expected, (kind_a, kind_b)
        n_reports = err.getvalue().count('Continuing on next message and ignoring error: Error: ')
        assert n_reports == (kind_a is not None) + (kind_b is not None), (kind_a, kind_b, err.getvalue())

        # without continue-on-error: the messages before the first damaged one, then the library error
        delivered = []
        err = io.StringIO()
        with contextlib.redirect_stderr(err):
            e = outcome(lambda: [delivered.append(content(m)) for m in generate_bufr_message(decoder, stream)])
        first_bad = 0 if kind_a else 1 if kind_b else 2
        assert delivered == [REFERENCE['contrived'], REFERENCE['207003']][:first_bad], (kind_a, kind_b)
        assert err.getvalue() == ''
        if first_bad < 2:
            assert isinstance(e, PyBufrKitError), (kind_a, kind_b, e)
            kind = kind_a or kind_b
            if kind == 'stop':
                assert type(e) is PyBufrKitError and e.message == "Value (b'7770') not as expected (b'7777')"
            elif kind == 'len1-':
                assert type(e) is PyBufrKitError and e.message.startswith('Read exceeds declared section 1 ')
            elif kind == 'elem':
                assert type(e) is UnknownDescriptor
        else:
            assert isinstance(e, list)
        n_streams += 1
assert n_streams == 100

# ---------------------------------------------------------------------------------------------
# 6. the debug log of a section is unchanged (it is what `pybufrkit --debug` prints)
# ---------------------------------------------------------------------------------------------
records = []


class Collect(logging.Handler):
    def emit(self, record):
        records.append(record.getMessage())


import pybufrkit.decoder as decoder_module
handler = Collect()
decoder_module.log.addHandler(handler)
decoder_module.log.setLevel(logging.DEBUG)
try:
    decoder.process(MESSAGES['207003'], info_only=True)
finally:
    decoder_module.log.removeHandler(handler)
    decoder_module.log.setLevel(logging.NOTSET)
assert records[:3] == ["start_signature = b'BUFR'", 'length = 244', 'edition = 3'], records[:3]
assert 'section_length = 18' in records and 'section_length = 204' in records
skips = [(i, r) for i, r in enumerate(records) if r.startswith('Skipping ')]
# section 3 has one pad octet; in info only scanning the rest of section 4 is skipped as a whole
assert skips == [(27, 'Skipping 8 bits to end of the section'),
                 (30, 'Skipping 1600 bits to end of the section')], skips
assert records[26] == 'unexpanded_descriptors = [310060]' and len(records) == 31
EXPECTED_LOG = records

records = []
bad = damage_length(MESSAGES['207003'], 1, -1)
decoder_module.log.addHandler(handler)
decoder_module.log.setLevel(logging.DEBUG)
try:
    e = outcome(decoder.process, bad, info_only=True)
finally:
    decoder_module.log.removeHandler(handler)
    decoder_module.log.setLevel(logging.NOTSET)
assert type(e) is PyBufrKitError and e.message == EXCEEDS.format(1, 17, 8)
# the section is logged parameter by parameter up to the overrun, which is found after the last one
assert records[:3] == EXPECTED_LOG[:3]
assert records[3] == 'section_length = 17'
assert not [r for r in records if r.startswith('Skipping ')]
assert len(records) == len([p for sec in decoder.process(MESSAGES['207003']).sections[:2] for p in sec])

print('demo 2 OK')
