import os, sys; sys.path.insert(0, os.getcwd())

# ---------------------------------------------------------------------------
# Independent, hand-written BUFR edition 4 stream builder and reference
# expander (does not use any pybufrkit code, so it is a genuine oracle).
# ---------------------------------------------------------------------------
import math
import random

DEFINITION_TEMPLATE = [103000, 31001, 1, 2, 3,
                       101000, 31001, 300004,
                       105000, 31001, 300003, 205064, 101000, 31001, 30]

# The few standard (table file) elements used by the demos: id -> (unit, scale, ref, width)
STANDARD_B = {
    '001001': ('Numeric', 0, 0, 7),
    '012001': ('K', 1, 0, 12),
    '031001': ('Numeric', 0, 0, 8),
    '031002': ('Numeric', 0, 0, 16),
    '031000': ('Numeric', 0, 0, 1),
}


class Bits(object):
    def __init__(self):
        self.bits = []

    def uint(self, value, nbits):
        assert 0 <= value < (1 << nbits) or nbits == 0, (value, nbits)
        self.bits.extend((value >> i) & 1 for i in range(nbits - 1, -1, -1))

    def text(self, s, nbytes):
        raw = s.encode('ascii') if isinstance(s, str) else s
        raw = raw.ljust(nbytes, b' ')
        assert len(raw) == nbytes, (s, nbytes)
        for ch in raw:
            self.uint(ch, 8)

    def to_bytes(self):
        bits = self.bits + [0] * (-len(self.bits) % 8)
        return bytes(int(''.join(map(str, bits[i:i + 8])), 2) for i in range(0, len(bits), 8))


def make_message(data_category, descriptor_ids, payload, n_subsets=1, compressed=False,
                 master_table_version=33):
    sec1 = (b'\x00\x00\x16' + bytes([0]) + (7).to_bytes(2, 'big') + (0).to_bytes(2, 'big') +
            bytes([0, 0, data_category, 0, 0, master_table_version, 0]) +
            (2024).to_bytes(2, 'big') + bytes([1, 2, 3, 4, 5]))
    assert len(sec1) == 22
    flags = 0x80 | (0x40 if compressed else 0)
    body3 = bytes([0]) + n_subsets.to_bytes(2, 'big') + bytes([flags])
    for id_ in descriptor_ids:
        id_ = int(id_)
        f, x, y = id_ // 100000, (id_ // 1000) % 100, id_ % 1000
        body3 += bytes([(f << 6) | x, y])
    sec3 = (len(body3) + 3).to_bytes(3, 'big') + body3
    sec4 = (len(payload) + 4).to_bytes(3, 'big') + b'\x00' + payload
    total = 8 + len(sec1) + len(sec3) + len(sec4) + 4
    return b'BUFR' + total.to_bytes(3, 'big') + b'\x04' + sec1 + sec3 + sec4 + b'7777'


def make_definition_message(b_defs, d_defs, a_defs=(('200', 'DEMO', ''),), n_subsets=1):
    """
    b_defs: list of (id6, name, unit, scale, ref, width); d_defs: list of (id6, name, [member id6...])
    A member count given explicitly as (id6, name, members, count) overrides len(members).
    """
    w = Bits()
    w.uint(len(a_defs), 8)
    for entry, line1, line2 in a_defs:
        w.text(entry, 3), w.text(line1, 32), w.text(line2, 32)
    w.uint(len(b_defs), 8)
    for id6, name, unit, scale, ref, width in b_defs:
        w.text(id6[0], 1), w.text(id6[1:3], 2), w.text(id6[3:], 3)
        w.text(name[:32], 32), w.text(name[32:], 32)
        w.text(unit, 24)
        for number, nchars in ((scale, 3), (ref, 10)):
            if isinstance(number, tuple):  # raw (sign text, magnitude text), for malformed definitions
                w.text(number[0], 1), w.text(number[1], nchars)
            else:
                w.text('+' if number >= 0 else '-', 1), w.text(str(abs(number)), nchars)
        w.text(str(width), 3)
    w.uint(len(d_defs), 8)
    for d_def in d_defs:
        id6, name, members = d_def[:3]
        w.text(id6[0], 1), w.text(id6[1:3], 2), w.text(id6[3:], 3)
        w.text(name, 64)
        w.uint(d_def[3] if len(d_def) > 3 else len(members), 8)
        for member in members:
            w.text(member, 6)
    return make_message(11, DEFINITION_TEMPLATE, w.to_bytes() * n_subsets, n_subsets=n_subsets)


def is_replication_only(members):
    if not members or members[0][0] != '1' or int(members[0][1:3]) != 1:
        return False
    return len(members) == (2 if members[0][3:] == '000' else 1)


def expand(ids, b_table, d_table, rng, out):
    """
    Reference expansion of a descriptor list into a flat list of
    (kind, width, raw, expected) fields, choosing raw values with rng.
    Handles elements, fixed / delayed replication, sequences and the NCEP
    replication-only sequences (the replicated descriptor follows the sequence).
    """
    queue = list(ids)
    while queue:
        id6 = queue.pop(0)
        if id6[0] == '3':
            members = d_table[id6]
            if is_replication_only(members):
                queue[0:0] = members
            else:
                expand(members, b_table, d_table, rng, out)
        elif id6[0] == '1':
            n_items, count = int(id6[1:3]), int(id6[3:])
            if count == 0:
                factor = queue.pop(0)
                width = b_table[factor][3]
                count = rng.randint(0, min(3, (1 << width) - 1))
                out.append(('num', width, count, count))
            group = [queue.pop(0) for _ in range(n_items)]
            for _ in range(count):
                expand(group, b_table, d_table, rng, out)
        else:
            unit, scale, ref, width = b_table[id6]
            if unit == 'CCITT IA5':
                raw = bytes(rng.choice(b'ABCDEFGHIJKLMNOPQRSTUVWXYZ0123456789') for _ in range(width // 8))
                out.append(('str', width, raw, raw))
            else:
                top = (1 << width) - 1
                raw = top if (width > 1 and rng.random() < 0.15) else rng.randint(0, max(top - 1, 0) if width > 1 else 1)
                if width > 1 and raw == top:
                    expected = None
                elif unit in ('CODE TABLE', 'FLAG TABLE'):
                    expected = raw
                else:
                    expected = raw + ref
                    if scale != 0:
                        expected = expected / 10.0 ** scale
                out.append(('num', width, raw, expected))
    return out


def make_data_message(ids, b_table, d_table, rng, data_category=0):
    fields = expand(ids, b_table, d_table, rng, [])
    w = Bits()
    for kind, width, raw, _ in fields:
        if kind == 'str':
            w.text(raw, width // 8)
        else:
            w.uint(raw, width)
    return make_message(data_category, ids, w.to_bytes()), [f[3] for f in fields]


def make_compressed_data_message(ids, b_table, d_table, rng, n_subsets=3, data_category=0):
    """No delayed replication here, so that all subsets share one structure."""
    subsets = [expand(ids, b_table, d_table, rng, []) for _ in range(n_subsets)]
    w = Bits()
    for column in zip(*subsets):
        kind, width = column[0][0], column[0][1]
        raws = [f[2] for f in column]
        if kind == 'str':
            w.text(b'\x00' * (width // 8), width // 8)
            w.uint(width // 8, 6)
            for raw in raws:
                w.text(raw, width // 8)
        else:
            top = (1 << width) - 1
            present = [r for r in raws if not (width > 1 and r == top)]
            if not present:
                w.uint(top, width), w.uint(0, 6)
                continue
            low = min(present)
            nbits_diff = max((max(present) - low + 1).bit_length(), 2)
            w.uint(low, width), w.uint(nbits_diff, 6)
            for raw in raws:
                w.uint((1 << nbits_diff) - 1 if (width > 1 and raw == top) else raw - low, nbits_diff)
    return (make_message(data_category, ids, w.to_bytes(), n_subsets=n_subsets, compressed=True),
            [[f[3] for f in subset] for subset in subsets])


def tables_of(b_defs, d_defs, base_b=None, base_d=None):
    b_table = dict(STANDARD_B if base_b is None else base_b)
    d_table = dict({} if base_d is None else base_d)
    for id6, _, unit, scale, ref, width in b_defs:
        b_table[id6] = (unit, scale, ref, width)
    for d_def in d_defs:
        d_table[d_def[0]] = list(d_def[2])
    return b_table, d_table


def same_values(got, expected):
    if len(got) != len(expected):
        return False
    for g, e in zip(got, expected):
        if e is None or isinstance(e, (bytes, int)):
            if g != e or type(g) is not type(e):
                return False
        elif not (isinstance(g, float) and math.isclose(g, e, rel_tol=1e-12, abs_tol=0.0)):
            return False
    return True
# ---------------------------------------------------------------------------


import json

from pybufrkit.constants import DEFAULT_TABLES_DIR
from pybufrkit.errors import PyBufrKitError
from pybufrkit.decoder import Decoder, generate_bufr_message
from pybufrkit.descriptors import (ElementDescriptor, SequenceDescriptor, FixedReplicationDescriptor,
                                   DelayedReplicationDescriptor, UndefinedElementDescriptor,
                                   UndefinedSequenceDescriptor, flat_member_ids)
from pybufrkit.tables import TableGroupCacheManager, TableGroupKey, TableB, TableC, TableD, TableR


def raises(exc_type, fn, *args):
    try:
        fn(*args)
    except exc_type:
        return True
    except BaseException as e:
        print('expected', exc_type, 'got', repr(e))
        return False
    return False


def file_json(sn, name):
    with open(os.path.join(DEFAULT_TABLES_DIR, *(sn + (name,)))) as ins:
        return json.load(ins)


def element_fields(descriptor):
    return [descriptor.name, descriptor.unit, descriptor.scale, descriptor.refval, descriptor.nbits,
            descriptor.crex_unit, descriptor.crex_scale, descriptor.crex_nchars]


def walk(descriptor):
    for member in getattr(descriptor, 'members', None) or []:
        yield member
        for m in walk(member):
            yield m


WMO_33, WMO_13, LOCAL_98 = ('0', '0_0', '33'), ('0', '0_0', '13'), ('0', '98_0', '101')
KEY_33 = TableGroupKey(DEFAULT_TABLES_DIR, WMO_33, None)
KEY_13_LOCAL = TableGroupKey(DEFAULT_TABLES_DIR, WMO_13, LOCAL_98)

# --- 1. load_json_files: the files in order of precedence, then the extra entries themselves --------
plain_b = TableB(KEY_33)
assert plain_b.load_json_files('TableB.json') == [file_json(WMO_33, 'TableB.json')]
assert plain_b.load_json_files('TableD.json') == [file_json(WMO_33, 'TableD.json')]
local_b = TableB(KEY_13_LOCAL)
assert local_b.load_json_files('TableB.json') == [file_json(WMO_13, 'TableB.json'), file_json(LOCAL_98, 'TableB.json')]
extra = {'048001': ['MINE', 'M', 1, -5, 9, '', 0, 0]}
extra_b = TableB(KEY_13_LOCAL, extra)
contents = extra_b.load_json_files('TableB.json')
assert len(contents) == 3 and contents[2] is extra and contents[:2] == local_b.load_json_files('TableB.json')
assert len(TableB(KEY_33, {}).load_json_files('TableB.json')) == 1  # empty extras are left out
fresh_1, fresh_2 = plain_b.load_json_files('TableB.json'), plain_b.load_json_files('TableB.json')
assert fresh_1[0] is not fresh_2[0]
# error cases: a file or a directory that does not exist
assert raises(IOError, plain_b.load_json_files, 'NoSuchTable.json')
assert raises(IOError, TableB, TableGroupKey('/no/such/dir', WMO_33, None))
assert raises(IOError, TableB, TableGroupKey(DEFAULT_TABLES_DIR, WMO_33, ('0', '98_0', '999')))
assert raises(ValueError, TableB(KEY_33).load_json_files, os.path.abspath(__file__))  # not a JSON file

# --- 2. Table B / D built from files plus extras -----------------------------------------------------
extra_b_entries = {
    '048001': ['HEIGHT', 'M', 2, -500, 14, '', 0, 0],
    '063255': ['PAD', 'NONE', 0, 0, 1, '', 0, 0],
    '012001': ['TEMPERATURE REDEFINED', 'K', 2, -27315, 16, '', 0, 0],
    '050002': ['STATION', 'CCITT IA5', 0, 0, 48, '', 0, 0],
}
extra_d_entries = {
    '360001': ['DRP8BIT', ['101000', '031001']],
    '363002': ['USES LATER AND EARLIER ONES', ['363003', '048001', '360001', '361001', '303001']],
    '363003': ['LATER', ['050002', '102003', '048001', '012001', '001001']],
    '361001': ['EARLIER', ['103000', '031002', '048001', '363003', '063255']],
    '303001': ['A STANDARD SEQUENCE REDEFINED', ['004001', '004002']],
    '363009': ['EMPTY', []],
    '363010': ['UNKNOWN MEMBERS', ['048099', '363999', '201129', '048001']],
}
for key in (KEY_33, KEY_13_LOCAL):
    b = TableB(key, extra_b_entries)
    d = TableD(b, TableC(key), TableR(key), key, extra_d_entries)
    standard_b = file_json(key.wmo_tables_sn, 'TableB.json')
    standard_d = file_json(key.wmo_tables_sn, 'TableD.json')
    if key.local_tables_sn:
        standard_b.update(file_json(key.local_tables_sn, 'TableB.json'))
        standard_d.update(file_json(key.local_tables_sn, 'TableD.json'))

    # every element: the extra definition if there is one, else the one of the files
    merged_b = dict(standard_b)
    merged_b.update(extra_b_entries)
    assert sorted(b.descriptors) == sorted(int(k) for k in merged_b)
    for id_string, fields in merged_b.items():
        descriptor = b.lookup(int(id_string))
        assert type(descriptor) is ElementDescriptor and descriptor.id == int(id_string)
        assert element_fields(descriptor) == list(fields), (id_string, fields)
        assert b.lookup(id_string) is descriptor  # string IDs are accepted, one instance per ID
    assert type(b.lookup(48099)) is UndefinedElementDescriptor

    # every sequence: name and flat members
    merged_d = dict(standard_d)
    merged_d.update(extra_d_entries)
    assert sorted(d.descriptors) == sorted(int(k) for k in merged_d)

    def flat(id_string, depth=0):
        ids = []
        member_ids = list(merged_d[id_string][1])
        while member_ids:
            member_id = member_ids.pop(0)
            if member_id[0] == '3' and member_id in merged_d:
                ids.extend(flat(member_id, depth + 1))
            else:
                ids.append(int(member_id))
        return ids

    for id_string, (name, member_ids) in merged_d.items():
        descriptor = d.lookup(id_string)
        assert type(descriptor) is SequenceDescriptor and descriptor.id == int(id_string)
        assert descriptor.name == name
        assert flat_member_ids(descriptor) == flat(id_string), id_string
    assert type(d.lookup(363999)) is UndefinedSequenceDescriptor

    # structure of the new sequences: shared instances, replication members, replication factor
    s2, s3, s1 = d.lookup(363002), d.lookup(363003), d.lookup(361001)
    assert s2.members[0] is s3 and s2.members[3] is s1 and s2.members[1] is b.lookup(48001)
    assert s2.members[4] is d.lookup(303001) and [m.id for m in s2.members[4].members] == [4001, 4002]
    assert type(s3.members[1]) is FixedReplicationDescriptor
    assert [m.id for m in s3.members[1].members] == [48001, 12001] and s3.members[2] is b.lookup(1001)
    assert s3.members[1].members[1] is b.lookup(12001) and b.lookup(12001).nbits == 16
    assert len(s3.members) == 3
    assert type(s1.members[0]) is DelayedReplicationDescriptor and s1.members[0].factor is b.lookup(31002)
    assert s1.members[0].members == [b.lookup(48001), s3, b.lookup(63255)] and len(s1.members) == 1
    ncep = d.lookup(360001)
    assert len(ncep.members) == 1 and ncep.members[0].members == [] and ncep.members[0].factor.id == 31001
    assert d.lookup(363009).members == []
    unknown = d.lookup(363010).members
    assert [type(m).__name__ for m in unknown] == ['UndefinedElementDescriptor', 'UndefinedSequenceDescriptor',
                                                  'OperatorDescriptor', 'ElementDescriptor']
    # a standard sequence keeps its members, one over a redefined element sees the new definition
    assert flat_member_ids(d.lookup(301011)) == [4001, 4002, 4003]
    users = [k for k, v in standard_d.items() if '012001' in v[1]]
    assert users
    for user in users:
        found = [m for m in walk(d.lookup(user)) if m.id == 12001]
        assert found and all(m is b.lookup(12001) for m in found)

# --- 3. malformed extra entries ---------------------------------------------------------------------
b = TableB(KEY_33, extra_b_entries)
c, r = TableC(KEY_33), TableR(KEY_33)
assert raises(ValueError, TableD, b, c, r, KEY_33, {'36x001': ['BAD ID', ['048001']]})
assert raises(IndexError, TableD, b, c, r, KEY_33, {'360001': ['NO MEMBER LIST']})
assert raises(IndexError, TableD, b, c, r, KEY_33, {'360001': []})
# ... the first pass (IDs, names) is done completely before any member list is looked at
assert raises(IndexError, TableD, b, c, r, KEY_33, {'360001': ['A', ['04800x']], '360002': []})
assert raises(ValueError, TableD, b, c, r, KEY_33, {'360001': ['A', ['04800x']], '360002': ['B', []]})
assert raises(PyBufrKitError, TableD, b, c, r, KEY_33, {'360001': ['NO FACTOR', ['048001', '101000']]})
assert raises(TypeError, TableD, b, c, r, KEY_33, {'360001': ['MEMBERS NOT A LIST', None]})
assert raises(TypeError, TableB, KEY_33, {'048001': ['TOO FEW FIELDS', 'M', 0]})
assert raises(ValueError, TableB, KEY_33, {'0480x1': ['BAD ID', 'M', 0, 0, 8, '', 0, 0]})
# two spellings of one ID: the later (in sorted order) entry is the one that counts
twice = TableD(b, c, r, KEY_33, {'360001': ['PLAIN', ['048001']], ' 360001': ['PADDED', ['063255', '048001']]})
assert twice.lookup(360001).name == 'PLAIN' and [m.id for m in twice.lookup(360001).members] == [48001]
assert sorted(k for k in twice.descriptors if k >= 348000) == [360001]

# --- 4. via the cache: extras reach every table group, cached groups are replaced --------------------
assert not TableGroupCacheManager.has_extra_entries()
before_33 = TableGroupCacheManager.get_table_group(master_table_version=33)
assert before_33 is TableGroupCacheManager.get_table_group(master_table_version=33)
assert type(before_33.lookup(48001)) is UndefinedElementDescriptor and before_33.lookup(12001).nbits == 12
TableGroupCacheManager.invalidate()
TableGroupCacheManager.add_extra_entries(extra_b_entries, extra_d_entries)
assert TableGroupCacheManager.has_extra_entries()
for version, local_version, centre in ((33, 0, 0), (13, 0, 0), (25, 0, 0), (13, 101, 98)):
    group = TableGroupCacheManager.get_table_group(master_table_version=version, local_table_version=local_version,
                                                   originating_centre=centre)
    assert group is not before_33
    assert group is TableGroupCacheManager.get_table_group(master_table_version=version, originating_centre=centre,
                                                           local_table_version=local_version)
    assert element_fields(group.lookup(48001)) == extra_b_entries['048001']
    assert element_fields(group.lookup(12001)) == extra_b_entries['012001']
    standard = file_json(('0', '0_0', str(version)), 'TableB.json')
    assert element_fields(group.lookup(1001)) == standard['001001']
    assert flat_member_ids(group.lookup(363003)) == [50002, 102003, 48001, 12001, 1001]
    template = group.template_from_ids(363002)
    assert flat_member_ids(template) == [50002, 102003, 48001, 12001, 1001, 48001,
                                         101000, 31001,
                                         103000, 31002, 48001, 50002, 102003, 48001, 12001, 1001, 63255,
                                         4001, 4002]

# --- 5. end to end -------------------------------------------------------------------------------------
rng = random.Random(2003)
B = [('048001', 'HEIGHT AGAIN', 'M', 1, -100, 12), ('055004', 'PRESSURE', 'PA', -2, 7, 9),
     ('063003', 'QUALITY', 'CODE TABLE', 0, 0, 5)]
D = [('361002', 'SEQ B', ['361001', '360001', '361003', '012001']),
     ('361003', 'SEQ C', ['055004', '101000', '031001', '063003', '050002']),
     ('361001', 'SEQ A', ['048001', '102002', '050002', '063003', '001001'])]
base_b = dict(STANDARD_B)
base_b.update((k, (v[1], v[2], v[3], v[4])) for k, v in extra_b_entries.items())
b_table, d_table = tables_of(B, D, base_b=base_b, base_d=dict((k, v[1]) for k, v in extra_d_entries.items()))
stream, expectations = make_definition_message(B, D), []
for i in range(6):
    if i % 2:
        message, expected = make_compressed_data_message(['361001', '055004', '012001'], b_table, d_table, rng)
    else:
        message, expected = make_data_message(['361002', '001001', '363003'], b_table, d_table, rng)
        expected = [expected]
    stream += message
    expectations.append(expected)
messages = list(generate_bufr_message(Decoder(), stream))
assert len(messages) == 7
for message, expected in zip(messages[1:], expectations):
    got = message.template_data.value.decoded_values_all_subsets
    assert len(got) == len(expected)
    for g, e in zip(got, expected):
        assert same_values(g, e), (g, e)

print('demo 3 OK')
