"""
Demo for refactor 3: the `split` command and the `info` command (count / multiple messages).

A file that holds messages glued with arbitrary separators must be split into one file per
message, named <file>.<index>, each holding the exact bytes of its message, the names being
printed in order; concatenating the pieces gives back the messages. `info -c` prints the number
of messages and `info -m` shows the metadata of each of them.
"""
import os, sys; sys.path.insert(0, os.getcwd())
import contextlib
import glob
import io
import shutil
import tempfile
from argparse import Namespace

from pybufrkit.commands import command_split, command_info
from pybufrkit.errors import PyBufrKitError

DATA = os.path.join(os.getcwd(), 'tests', 'data')


def rd(name):
    with open(os.path.join(DATA, name), 'rb') as ins:
        return ins.read()


def with_section2(msg, payload):
    """Copy of msg whose optional section (added or replaced) carries payload."""
    edition = msg[7]
    l1 = int.from_bytes(msg[8:11], 'big')
    flag_at = 8 + (7 if edition == 3 else 9)
    s2 = 8 + l1
    l2 = int.from_bytes(msg[s2:s2 + 3], 'big') if msg[flag_at] & 0x80 else 0
    sec2 = (4 + len(payload)).to_bytes(3, 'big') + b'\x00' + payload
    body = bytearray(msg[:s2] + sec2 + msg[s2 + l2:])
    body[flag_at] |= 0x80
    body[4:7] = len(body).to_bytes(3, 'big')
    return bytes(body)


G3 = rd('207003.bufr')                                     # edition 3, compressed
G4 = rd('uegabe.bufr')                                     # edition 4, not compressed
GC = rd('contrived.bufr')                                  # edition 4
GS = with_section2(G3, b'BUFR\x00\x00\x10\x047777BUFR')    # signatures inside the message
ISMD = rd('ISMD01_OKPR.bufr')                              # 4 messages with bulletin headers
MULTI = rd('multi_invalid_messages.bufr')                  # 3 messages, all with sound metadata
HEADER = b'\x01\r\r\n001\r\r\nISMD01 OKPR 120000\r\r\n'
NOISE = bytes(b for b in range(256) if b != 0x42)

work = tempfile.mkdtemp(prefix='c11_demo3_')
n_checks = 0


def put(name, content):
    path = os.path.join(work, name)
    with open(path, 'wb') as outs:
        outs.write(content)
    return path


def ns_for(filenames, **kw):
    d = dict(definitions_directory=None, tables_root_directory=None, filenames=filenames,
             continue_on_error=False, multiple_messages=False, count_only=False, template=False)
    d.update(kw)
    return Namespace(**d)


def run(command, ns):
    """-> (stdout text, stderr text, exception or None)"""
    out, err, exc = io.StringIO(), io.StringIO(), None
    with contextlib.redirect_stdout(out), contextlib.redirect_stderr(err):
        try:
            result = command(ns)
            assert result is None
        except Exception as e:
            exc = e
    return out.getvalue(), err.getvalue(), exc


def pieces_of(path):
    found = sorted(glob.glob(path + '.*'), key=lambda p: int(p.rsplit('.', 1)[1]))
    return found, [open(p, 'rb').read() for p in found]


try:
    CASES = {
        'empty.bufr': (b'', []),
        'noise.bin': (NOISE + b'BUF' + b'7777', []),
        'one.bufr': (G4, [G4]),
        'headed.bufr': (HEADER + G3 + b'\r\r\n\x03', [G3]),
        'glued.bufr': (G3 + G4 + GC + G3, [G3, G4, GC, G3]),
        'mixed.bufr': (HEADER + GS + b'BUF' + G4 + NOISE + GC + b'\r\r\n\x03' + HEADER + GS + b'7777',
                       [GS, G4, GC, GS]),
        'twelve.bufr': (b'\r\n'.join([GC, G3] * 6), [GC, G3] * 6),       # index with two digits
    }
    paths = {name: put(name, content) for name, (content, _) in CASES.items()}

    # ---- split, one file at a time ----------------------------------------------------------
    for name, (content, expected) in CASES.items():
        path = paths[name]
        for coe in (False, True):
            for old in glob.glob(path + '.*'):
                os.remove(old)
            out, err, exc = run(command_split, ns_for([path], continue_on_error=coe))
            assert exc is None, (name, exc)
            names, blobs = pieces_of(path)
            assert blobs == expected, name
            assert names == ['{}.{}'.format(path, i) for i in range(len(expected))]
            assert out == ''.join(n + '\n' for n in names)                # printed in order
            assert b''.join(blobs) == b''.join(expected)
            assert open(path, 'rb').read() == content                    # the source is left alone
            n_checks += 1

    # a piece that exists already is replaced, not appended to
    put('one.bufr.0', b'x' * 5000)
    out, err, exc = run(command_split, ns_for([paths['one.bufr']]))
    assert exc is None and pieces_of(paths['one.bufr'])[1] == [G4]
    # splitting a piece gives the piece
    out, err, exc = run(command_split, ns_for([paths['mixed.bufr'] + '.0']))
    assert exc is None and out == paths['mixed.bufr'] + '.0.0\n'
    assert open(paths['mixed.bufr'] + '.0.0', 'rb').read() == GS
    n_checks += 2

    # ---- split, several files in one go -------------------------------------------------------
    shutil.rmtree(work)
    os.mkdir(work)
    paths = {name: put(name, content) for name, (content, _) in CASES.items()}
    order = ['glued.bufr', 'empty.bufr', 'mixed.bufr', 'one.bufr']
    out, err, exc = run(command_split, ns_for([paths[n] for n in order]))
    assert exc is None
    expected_out = []
    for n in order:
        names, blobs = pieces_of(paths[n])
        assert blobs == CASES[n][1]
        expected_out.extend(names)
    assert out.splitlines() == expected_out
    assert pieces_of(paths['headed.bufr'])[0] == []                     # not asked for
    out, err, exc = run(command_split, ns_for([]))
    assert exc is None and out == ''
    n_checks += 2

    # ---- split, the metadata decide: the file of the test suite gives three pieces -----------------
    p = put('multi.bufr', MULTI)
    out, err, exc = run(command_split, ns_for([p]))
    assert exc is None and pieces_of(p)[1] == [MULTI[:522], MULTI[522:616], MULTI[616:]]
    assert b''.join(pieces_of(p)[1]) == MULTI
    p = put('ismd.bufr', ISMD)
    out, err, exc = run(command_split, ns_for([p]))
    blobs = pieces_of(p)[1]
    assert exc is None and [len(b) for b in blobs] == [692, 714, 700, 710]
    assert all(b[:4] == b'BUFR' and b[-4:] == b'7777' and b in ISMD for b in blobs)
    n_checks += 2

    # ---- split, error cases -----------------------------------------------------------------
    broken = put('broken.bufr', G3 + b'\r\r\n' + G4[:20] + b'\r\r\n' + GC)
    for old in glob.glob(os.path.join(work, '*.bufr.*')):
        os.remove(old)
    out, err, exc = run(command_split, ns_for([paths['one.bufr'], broken, paths['glued.bufr']]))
    assert isinstance(exc, PyBufrKitError)
    # what came before the failure is on disk and was announced, nothing after it
    assert pieces_of(broken)[1] == [G3]
    assert out.splitlines() == [paths['one.bufr'] + '.0', broken + '.0']
    assert pieces_of(paths['glued.bufr'])[0] == []
    out, err, exc = run(command_split, ns_for([broken, paths['glued.bufr']], continue_on_error=True))
    assert exc is None
    assert pieces_of(broken)[1] == [G3, GC]
    assert pieces_of(paths['glued.bufr'])[1] == [G3, G4, GC, G3]
    assert err.count('Continuing on next message and ignoring error: ') == 1
    missing = os.path.join(work, 'not_there.bufr')
    out, err, exc = run(command_split, ns_for([missing, paths['one.bufr']]))
    assert isinstance(exc, FileNotFoundError) and exc.filename == missing and out == ''
    out, err, exc = run(command_split, ns_for([work]))
    assert isinstance(exc, IsADirectoryError)
    ro = os.path.join(work, 'sub')
    os.mkdir(ro)
    blocked = os.path.join(ro, 'blocked.bufr')
    with open(blocked, 'wb') as outs:
        outs.write(G4 + GC)
    os.mkdir(blocked + '.0')                  # the name of the first piece is taken by a directory
    out, err, exc = run(command_split, ns_for([blocked]))
    assert isinstance(exc, IsADirectoryError) and exc.filename == blocked + '.0'
    assert out == blocked + '.0\n'            # the name is printed before the file is opened
    assert not os.path.exists(blocked + '.1')
    out, err, exc = run(command_split, Namespace(definitions_directory=None, tables_root_directory=None,
                                                 filenames=[paths['one.bufr']]))
    assert isinstance(exc, AttributeError)    # continue_on_error is not optional
    n_checks += 6

    # ---- info -c ------------------------------------------------------------------------------
    order = ['empty.bufr', 'noise.bin', 'one.bufr', 'headed.bufr', 'glued.bufr', 'mixed.bufr', 'twelve.bufr']
    out, err, exc = run(command_info, ns_for([paths[n] for n in order], count_only=True))
    assert exc is None
    assert out == ''.join('{}: {}\n'.format(paths[n], len(CASES[n][1])) for n in order)
    out, err, exc = run(command_info, ns_for([put('multi.bufr', MULTI), put('ismd.bufr', ISMD)], count_only=True))
    assert exc is None and [line.rsplit(' ', 1)[1] for line in out.splitlines()] == ['3', '4']
    out, err, exc = run(command_info, ns_for([paths['one.bufr'], broken, paths['glued.bufr']], count_only=True))
    assert isinstance(exc, PyBufrKitError)
    assert out == '{}: 1\n'.format(paths['one.bufr'])           # no partial count for the broken file
    out, err, exc = run(command_info, ns_for([broken], count_only=True, continue_on_error=True))
    assert exc is None and out == '{}: 2\n'.format(broken)
    assert err.count('Continuing on next message and ignoring error: ') == 1
    out, err, exc = run(command_info, ns_for([missing], count_only=True))
    assert isinstance(exc, FileNotFoundError) and out == ''
    n_checks += 5

    # ---- info -m and plain info ------------------------------------------------------------------
    def lengths(text):
        return [int(line.split(' = ')[1]) for line in text.splitlines() if line.startswith('length = ')]

    def editions(text):
        return [int(line.split(' = ')[1]) for line in text.splitlines() if line.startswith('edition = ')]

    for name in order:
        out, err, exc = run(command_info, ns_for([paths[name]], multiple_messages=True))
        assert exc is None
        assert lengths(out) == [len(m) for m in CASES[name][1]], name
        assert editions(out) == [m[7] for m in CASES[name][1]]
        assert out.count('<<<<<< section 0 >>>>>>') == len(CASES[name][1])
        assert 'section 4' in out or not CASES[name][1]
        n_checks += 1
    # -m wins over -c, and the template is shown on request only
    out1, err, exc = run(command_info, ns_for([paths['mixed.bufr']], multiple_messages=True, count_only=True))
    out2, err, exc = run(command_info, ns_for([paths['mixed.bufr']], multiple_messages=True))
    assert out1 == out2 and lengths(out1) == [len(GS), len(G4), len(GC), len(GS)]
    out3, err, exc = run(command_info, ns_for([paths['mixed.bufr']], multiple_messages=True, template=True))
    assert exc is None and out3 != out2 and len(out3) > len(out2) and lengths(out3) == lengths(out2)
    # without -m and -c only the first message is looked at
    out, err, exc = run(command_info, ns_for([paths['mixed.bufr'], paths['one.bufr']]))
    assert exc is None and lengths(out) == [len(GS), len(G4)]
    out, err, exc = run(command_info, ns_for([paths['noise.bin']]))
    assert isinstance(exc, PyBufrKitError) and 'Cannot find start signature' in str(exc)
    out, err, exc = run(command_info, ns_for([broken], multiple_messages=True))
    assert isinstance(exc, PyBufrKitError) and lengths(out) == [len(G3)]
    out, err, exc = run(command_info, ns_for([broken], multiple_messages=True, continue_on_error=True))
    assert exc is None and lengths(out) == [len(G3), len(GC)]
    n_checks += 6
finally:
    shutil.rmtree(work, ignore_errors=True)

print('demo 3 ok, {} checks'.format(n_checks))
