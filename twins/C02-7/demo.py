import os, sys; sys.path.insert(0, os.getcwd())
"""
Differential demonstration for refactor 7 (compressed columns: plan, then write).

Every message below is encoded by pybufrkit (plain template walk and compiled
template) and compared, byte for byte, with a message assembled here from
nothing but string formatting: the expected raw numbers, widths and texts are
typed in by hand next to the values given to the encoder.

Branches reached in the refactored code
  numeric column   : all missing / all equal (with scale and reference value) /
                     different (with and without a missing entry, range + 1 of the
                     form 2**k - 1 and not) / different only below the precision
                     (width 0) / same rounded number next to a missing entry
  code/flag column : all missing / all equal / different with and without missing
                     (also reached through 204YYY associated fields and 206YYY)
  string column    : all missing / all equal / different with a missing entry,
                     short (padded) and long (truncated) texts, 205YYY, 208YYY
  new reference value column (203YYY), and the element that uses it
  error behaviour  : same exception type, raised at the same stage
  and a comparison of the four methods with the ones in HEAD (`git show`) on random
  columns, sound and unsound
"""
import json

from pybufrkit.encoder import Encoder
from pybufrkit.decoder import Decoder

FAILURES = []


def check(name, ok, detail=''):
    if not ok:
        FAILURES.append(name)
    print('{:4s} {}{}'.format('ok' if ok else 'FAIL', name, '' if ok else '  ' + detail))


# --------------------------------------------------------------------------
# Independent construction of a message (edition 4)
def u(value, nbits):
    """Unsigned integer, MSB first"""
    if nbits == 0:
        assert value == 0
        return ''
    assert 0 <= value < (1 << nbits), (value, nbits)
    return format(value, 'b').rjust(nbits, '0')


def ones(nbits):
    return '1' * nbits


def text(s, nbytes):
    b = s.encode('latin-1')[:nbytes]
    b = b + b' ' * (nbytes - len(b))
    return ''.join(u(c, 8) for c in b)


def octets(bits):
    bits += '0' * (-len(bits) % 8)
    return bytes(int(bits[i:i + 8], 2) for i in range(0, len(bits), 8))


SECTION1 = [22, 0, 1, 0, 0, False, '0000000', 0, 0, 0, 25, 0, 2020, 1, 2, 3, 4, 5]


def message(descriptors, data_bits, n_subsets, compressed):
    sec1 = octets(u(22, 24) + u(0, 8) + u(1, 16) + u(0, 16) + u(0, 8) + '0' + '0000000' +
                  u(0, 8) + u(0, 8) + u(0, 8) + u(25, 8) + u(0, 8) +
                  u(2020, 16) + u(1, 8) + u(2, 8) + u(3, 8) + u(4, 8) + u(5, 8))
    fxy = ''.join(u(d // 100000, 2) + u(d // 1000 % 100, 6) + u(d % 1000, 8) for d in descriptors)
    sec3 = octets(u(7 + 2 * len(descriptors), 24) + u(0, 8) + u(n_subsets, 16) +
                  '1' + ('1' if compressed else '0') + '000000' + fxy)
    data = octets(data_bits)
    sec4 = octets(u(4 + len(data), 24) + u(0, 8)) + data
    total = 8 + len(sec1) + len(sec3) + len(sec4) + 4
    return b'BUFR' + octets(u(total, 24) + u(4, 8)) + sec1 + sec3 + sec4 + b'7777'


def as_json(descriptors, subsets, compressed):
    return [['BUFR', 0, 4],
            list(SECTION1),
            [0, '00000000', len(subsets), True, compressed, '000000', list(descriptors)],
            [0, '00000000', [list(s) for s in subsets]],
            ['7777']]


# Independent model of one compressed column, in terms of raw numbers (None = missing)
def ccol(nbits, raws):
    present = [r for r in raws if r is not None]
    if not present:
        return ones(nbits) + u(0, 6)
    if len(present) == len(raws) and min(present) == max(present):
        return u(present[0], nbits) + u(0, 6)
    lo, span = min(present), max(present) - min(present)
    # what the library does: as many bits as span + 1 has, one more if that is
    # 2**k - 1, i.e. the number of bits of span + 2
    w = (span + 2).bit_length()
    return u(lo, nbits) + u(w, 6) + ''.join(ones(w) if r is None else u(r - lo, w) for r in raws)


def cstr(nbytes, texts):
    if all(t is None for t in texts):
        return ones(8 * nbytes) + u(0, 6)
    if all(t == texts[0] for t in texts):
        return text(texts[0], nbytes) + u(0, 6)
    return (u(0, 8 * nbytes) + u(nbytes, 6) +
            ''.join(ones(8 * nbytes) if t is None else text(t, nbytes) for t in texts))


def cint(nbits, value):
    """203YYY: sign bit and magnitude, always one value for all subsets"""
    return ('1' if value < 0 else '0') + u(abs(value), nbits - 1) + u(0, 6)


ENCODERS = [('walk', Encoder()), ('compiled', Encoder(compiled_template_cache_max=8))]


def encode_and_compare(name, descriptors, subsets, expected_bits, compressed=True):
    expected = message(descriptors, expected_bits, len(subsets), compressed)
    for label, encoder in ENCODERS:
        for attempt in (1, 2):  # the second time the compiled template comes from the cache
            got = encoder.process(json.dumps(as_json(descriptors, subsets, compressed))).serialized_bytes
            check('{} [{} #{}]'.format(name, label, attempt), got == expected,
                  '\n     got      {}\n     expected {}'.format(got.hex(), expected.hex()))
    # and the stream means what was put in
    decoded = Decoder().process(expected).template_data.value.decoded_values_all_subsets
    return decoded


def transpose(columns):
    return [list(row) for row in zip(*columns)]


# --------------------------------------------------------------------------
# 1. numeric columns.  012001: 12 bits, scale 1, ref 0;  007001: 15 bits, scale 0, ref -400
#    005001: 25 bits, scale 5, ref -9000000;  001001: 7 bits
def numeric():
    descriptors = [12001] * 8 + [7001] * 4 + [5001] * 2 + [1001] * 2
    columns_and_raws = [
        # value per subset (3 subsets)            raw per subset
        ([None, None, None],                      (12, [None, None, None])),        # all missing
        ([273.2, 273.2, 273.2],                   (12, [2732, 2732, 2732])),        # all equal, scaled
        ([273.2, 273.4, 273.3],                   (12, [2732, 2734, 2733])),        # span+1 = 3 = 0b11
        ([273.2, 273.5, 273.3],                   (12, [2732, 2735, 2733])),        # span+1 = 4
        ([273.2, None, 273.9],                    (12, [2732, None, 2739])),        # span+1 = 8, missing
        ([273.21, 273.24, 273.18],                (12, [2732, 2732, 2732])),        # differ below precision
        ([273.21, None, 273.24],                  (12, [2732, None, 2732])),        # same number + missing
        ([0.0, 409.4, 204.7],                     (12, [0, 4094, 2047])),           # full range
        ([-400, -400, -400],                      (15, [0, 0, 0])),                 # all equal, ref value
        ([-400, 8848, None],                      (15, [0, 9248, None])),           # ref value, missing
        ([100, 101, 100],                         (15, [500, 501, 500])),           # span+1 = 2
        ([None, 7, None],                         (15, [None, 407, None])),         # one present
        ([-90.0, 12.34567, 90.0],                 (25, [0, 10234567, 18000000])),
        ([45.5, 45.5, 45.5],                      (25, [13550000, 13550000, 13550000])),
        ([1, 2, 126],                             (7, [1, 2, 126])),
        ([5, 5, 5],                               (7, [5, 5, 5])),
    ]
    subsets = transpose([c for c, _ in columns_and_raws])
    bits = ''.join(ccol(n, raws) for _, (n, raws) in columns_and_raws)
    encode_and_compare('numeric columns', descriptors, subsets, bits)

    # integers given where the scale is not zero, two subsets, one subset
    encode_and_compare('numeric, two subsets', [12001, 7001], [[300, 0], [301, None]],
                       ccol(12, [3000, 3010]) + ccol(15, [400, None]))
    encode_and_compare('numeric, one subset', [12001, 7001, 1001], [[300.04, None, 3]],
                       ccol(12, [3000]) + ccol(15, [None]) + ccol(7, [3]))


# 2. code / flag columns.  020003: 9 bits code;  008001: 7 bits flag;  002001: 2 bits code
def codeflag():
    descriptors = [20003] * 5 + [8001] * 2 + [2001] * 2
    columns = [
        (9, [None, None, None, None]),
        (9, [17, 17, 17, 17]),
        (9, [17, 18, 19, 17]),          # span+1 = 3
        (9, [0, 510, None, 255]),
        (9, [5, None, None, 5]),        # span 0 but a missing entry: width 2
        (7, [64, 32, 16, 8]),
        (7, [None, 1, None, 126]),
        (2, [0, 1, 2, 0]),
        (2, [1, 1, 1, 1]),
    ]
    subsets = transpose([raws for _, raws in columns])
    encode_and_compare('code/flag columns', descriptors, subsets, ''.join(ccol(n, r) for n, r in columns))

    # 204YYY associated fields (written through the code/flag column) and 206YYY
    descriptors = [204003, 31021, 12001, 1001, 204000, 206005, 1198, 1001]
    columns = [
        ('c', 6, [1, 1, 1]),            # 031021, code table
        ('c', 3, [0, 5, None]),         # associated field of 012001
        ('n', 12, [2500, 2501, 2502]),
        ('c', 3, [2, 2, 2]),            # associated field of 001001
        ('n', 7, [None, None, None]),
        ('c', 5, [3, None, 30]),        # local descriptor skipped by 206005
        ('n', 7, [9, 8, 7]),
    ]
    values = [[1, 1, 1], [0, 5, None], [250.0, 250.1, 250.2], [2, 2, 2], [None] * 3, [3, None, 30], [9, 8, 7]]
    encode_and_compare('associated fields, skipped local descriptor', descriptors, transpose(values),
                       ''.join(ccol(n, r) for _, n, r in columns))


# 3. string columns.  001011: 9 bytes;  001015: 20 bytes;  205YYY;  208YYY
def strings():
    descriptors = [1011] * 5 + [1015, 205004, 208003, 1011, 208000, 1011]
    columns = [
        (9, [None, None, None]),
        (9, ['ABCDEFGHI', 'ABCDEFGHI', 'ABCDEFGHI']),
        (9, ['ABC', 'ABCDEFGHIJKL', None]),                 # padded, truncated, missing
        (9, ['AB', 'AB', 'AB']),                            # all equal and short: padded once
        (9, ['AB', 'AB ', 'AB']),                           # equal only after padding: still a full column
        (20, ['Zugspitze', 'M\xfcnchen', 'Zugspitze']),
        (4, ['abcd', None, 'ab']),                          # 205004
        (3, ['xyz', 'xy', 'xyzw']),                         # 001011 under 208003
        (9, [None, 'after', None]),
    ]
    subsets = transpose([texts for _, texts in columns])
    encode_and_compare('string columns', descriptors, subsets, ''.join(cstr(n, t) for n, t in columns))
    encode_and_compare('string, one subset', [1011, 1011], [['Q', None]],
                       cstr(9, ['Q']) + cstr(9, [None]))


# 4. new reference values (203YYY) in compressed data
def new_refvals():
    descriptors = [203012, 7001, 12001, 203255, 7001, 12001, 7001, 203000, 7001]
    #             new refvals -1000 for 007001 and 5 for 012001; then values relative to them
    values = [[-1000, -1000], [5, 5], [-1000, 1500], [27.3, 27.3], [None, None], [0, 0]]
    bits = (cint(12, -1000) + cint(12, 5) +
            ccol(15, [0, 2500]) + ccol(12, [268, 268]) + ccol(15, [None, None]) +
            ccol(15, [400, 400]))
    encode_and_compare('new reference values', descriptors, transpose(values), bits)


# 5. mixed template with replication (factor shared by all subsets) - and decode it back
def mixed():
    descriptors = [1001, 103000, 31001, 12001, 20003, 1011, 7001]
    subsets = [
        [11, 2, 280.0, 1, 'ONE', None, 2, 'TWO', 0],
        [11, 2, 281.5, None, 'ONE', 290.0, 2, 'ZWEI', 10],
        [12, 2, None, 3, 'ONE', 285.5, 2, 'DREI', 20],
    ]
    bits = (ccol(7, [11, 11, 12]) + ccol(8, [2, 2, 2]) +
            ccol(12, [2800, 2815, None]) + ccol(9, [1, None, 3]) + cstr(9, ['ONE'] * 3) +
            ccol(12, [None, 2900, 2855]) + ccol(9, [2, 2, 2]) + cstr(9, ['TWO', 'ZWEI', 'DREI']) +
            ccol(15, [400, 410, 420]))
    decoded = encode_and_compare('mixed template with replication', descriptors, subsets, bits)
    expected_back = [
        [11, 2, 280.0, 1, b'ONE      ', None, 2, b'TWO      ', 0],
        [11, 2, 281.5, None, b'ONE      ', 290.0, 2, b'ZWEI     ', 10],
        [12, 2, None, 3, b'ONE      ', 285.5, 2, b'DREI     ', 20],
    ]
    check('mixed template decodes to the values given', decoded == expected_back, repr(decoded))


# 6. error behaviour: exception type and how much was written before it
class Recorder(object):
    """A bit writer that only records the calls"""

    def __init__(self, fail_at=None):
        self.calls = []
        self.fail_at = fail_at

    def _record(self, name, value, width):
        if self.fail_at is not None and len(self.calls) == self.fail_at:
            raise OverflowError('writer failure')
        self.calls.append((name, value, width))
        return value

    def write_uint(self, value, nbits):
        return self._record('uint', value, nbits)

    def write_int(self, value, nbits):
        return self._record('int', value, nbits)

    def write_bytes(self, value, nbytes=None):
        return self._record('bytes', value, nbytes)


def direct(method_name, subsets_values, *args, **kwargs):
    """
    Call one of the compressed column methods directly with a recording
    writer; returns (exception type name or None, calls made, state.idx_value,
    number of descriptors recorded).
    """
    from pybufrkit.coder import CoderState
    state = CoderState(True, kwargs.get('n_subsets', len(subsets_values)), [[v] for v in subsets_values])
    writer = Recorder(kwargs.get('fail_at'))
    descriptor = kwargs.get('descriptor', 'D')
    try:
        getattr(Encoder(), method_name)(state, writer, descriptor, *args)
        error = None
    except Exception as e:
        error = type(e).__name__
    return error, writer.calls, state.idx_value, len(state.decoded_descriptors)


def errors_and_calls():
    M = [2 ** i - 1 for i in range(256)]

    def expect(name, got, want):
        check(name, got == want, '\n     got      {!r}\n     expected {!r}'.format(got, want))

    # the exact sequence of writer calls
    expect('calls: numeric different',
           direct('process_numeric_compressed', [1.5, None, 3.5], 12, 10.0, -5),
           (None, [('uint', 20, 12), ('uint', 5, 6), ('uint', 0, 5), ('uint', 31, 5), ('uint', 20, 5)], 1, 1))
    expect('calls: numeric all equal',
           direct('process_numeric_compressed', [1.5, 1.5], 12, 10.0, -5),
           (None, [('uint', 20, 12), ('uint', 0, 6)], 1, 1))
    expect('calls: numeric all equal, no scaling, no reference value',
           direct('process_numeric_compressed', [7, 7], 12, 1, 0),
           (None, [('uint', 7, 12), ('uint', 0, 6)], 1, 1))
    expect('calls: numeric all missing',
           direct('process_numeric_compressed', [None, None], 12, 10.0, -5),
           (None, [('uint', 4095, 12), ('uint', 0, 6)], 1, 1))
    expect('calls: numeric equal after rounding',
           direct('process_numeric_compressed', [1.51, 1.49], 12, 10.0, 0),
           (None, [('uint', 15, 12), ('uint', 0, 6)], 1, 1))
    expect('calls: code different',
           direct('process_codeflag_compressed', [4, None, 6], 9),
           (None, [('uint', 4, 9), ('uint', 3, 6), ('uint', 0, 3), ('uint', 7, 3), ('uint', 2, 3)], 1, 1))
    expect('calls: code all equal',
           direct('process_codeflag_compressed', [4, 4, 4], 9),
           (None, [('uint', 4, 9), ('uint', 0, 6)], 1, 1))
    expect('calls: code all missing',
           direct('process_codeflag_compressed', [None, None], 9),
           (None, [('uint', 511, 9), ('uint', 0, 6)], 1, 1))
    expect('calls: string different',
           direct('process_string_compressed', ['a', None, 'bcd'], 2),
           (None, [('bytes', '\0\0', 2), ('uint', 2, 6), ('bytes', 'a', 2), ('bytes', '\xff\xff', 2),
                   ('bytes', 'bcd', 2)], 1, 1))
    expect('calls: string all equal',
           direct('process_string_compressed', ['a', 'a'], 2),
           (None, [('bytes', 'a', 2), ('uint', 0, 6)], 1, 1))
    expect('calls: string all missing',
           direct('process_string_compressed', [None, None], 2),
           (None, [('bytes', '\xff\xff', 2), ('uint', 0, 6)], 1, 1))
    expect('calls: string different, width 0',
           direct('process_string_compressed', ['a', 'b'], 0),
           (None, [('bytes', '', 0), ('uint', 0, 6)], 1, 1))

    class D(object):
        id = 7001

    expect('calls: new reference value',
           direct('process_new_refval_compressed', [-3, -3], 12, descriptor=D()),
           (None, [('int', -3, 12), ('uint', 0, 6)], 1, 1))
    expect('error: new reference values differ',
           direct('process_new_refval_compressed', [-3, 4], 12, descriptor=D()),
           ('AssertionError', [], 1, 1))
    expect('error: new reference value missing',
           direct('process_new_refval_compressed', [None, None], 12, descriptor=D()),
           ('AssertionError', [], 1, 1))

    # failures before anything is written
    expect('error: text in a numeric column',
           direct('process_numeric_compressed', [1.5, 'x'], 12, 10.0, 0), ('TypeError', [], 1, 1))
    expect('error: text in a numeric column, not scaled',
           direct('process_numeric_compressed', [1, 'x'], 12, 1, 0), ('TypeError', [], 1, 1))
    expect('error: text in a code column',
           direct('process_codeflag_compressed', [1, 'x'], 9), ('TypeError', [], 1, 1))
    expect('error: float in a code column',
           direct('process_codeflag_compressed', [1, 2.5], 9), ('TypeError', [], 1, 1))
    expect('error: element wider than 255 bits, all missing',
           direct('process_codeflag_compressed', [None, None], 256), ('IndexError', [], 1, 1))
    expect('error: numeric wider than 255 bits, all missing',
           direct('process_numeric_compressed', [None, None], 256, 1, 0), ('IndexError', [], 1, 1))
    expect('error: differences wider than 255 bits next to a missing entry',
           direct('process_codeflag_compressed', [0, None, 2 ** 256], 9), ('IndexError', [], 1, 1))
    expect('no error: differences wider than 255 bits, nothing missing (the writer decides)',
           direct('process_codeflag_compressed', [0, 2 ** 256], 9),
           (None, [('uint', 0, 9), ('uint', 257, 6), ('uint', 0, 257), ('uint', 2 ** 256, 257)], 1, 1))
    expect('error: fewer value lists than subsets, all missing',
           direct('process_numeric_compressed', [None, None], 12, 10.0, 0, n_subsets=3), ('TypeError', [], 1, 1))
    expect('fewer value lists than subsets, code',
           direct('process_codeflag_compressed', [3, 3], 9, n_subsets=3),
           (None, [('uint', 3, 9), ('uint', 2, 6), ('uint', 0, 2), ('uint', 0, 2)], 1, 1))
    expect('fewer value lists than subsets, string',
           direct('process_string_compressed', ['a', 'a'], 1, n_subsets=3),
           (None, [('bytes', '\0', 1), ('uint', 1, 6), ('bytes', 'a', 1), ('bytes', 'a', 1)], 1, 1))
    expect('error: no value lists at all',
           direct('process_string_compressed', [], 1, n_subsets=2), ('IndexError', [], 0, 1))

    # failures of the writer half way: what was written before stays the same
    for fail_at in range(5):
        expect('writer fails at call {} (numeric)'.format(fail_at),
               direct('process_numeric_compressed', [1.5, None, 3.5], 12, 10.0, -5, fail_at=fail_at),
               ('OverflowError',
                [('uint', 20, 12), ('uint', 5, 6), ('uint', 0, 5), ('uint', 31, 5), ('uint', 20, 5)][:fail_at], 1, 1))
        expect('writer fails at call {} (string)'.format(fail_at),
               direct('process_string_compressed', ['a', None, 'bcd'], 2, fail_at=fail_at),
               ('OverflowError',
                [('bytes', '\0\0', 2), ('uint', 2, 6), ('bytes', 'a', 2), ('bytes', '\xff\xff', 2),
                 ('bytes', 'bcd', 2)][:fail_at], 1, 1))

    # through the whole encoder, with the real writer
    def whole(descriptors, subsets):
        results = []
        for label, encoder in ENCODERS:
            try:
                encoder.process(json.dumps(as_json(descriptors, subsets, True)))
                results.append(None)
            except Exception as e:
                results.append(type(e).__name__)
        return results

    # (bitstring reports a value that does not fit as a ValueError)
    expect('error: value below the reference value', whole([7001], [[-401], [0]]), ['ValueError'] * 2)
    expect('error: value too large for the element', whole([1001], [[128], [128]]), ['ValueError'] * 2)
    expect('no error: a large value next to a small one goes to the differences',
           whole([1001], [[128], [0]]), [None] * 2)
    expect('error: differences need 64 bits or more', whole([1001], [[0], [2 ** 63]]), ['ValueError'] * 2)
    expect('error: text in a numeric column (whole message)', whole([1001], [['a'], [0]]), ['TypeError'] * 2)
    expect('error: number in a string column', whole([1011], [[5], ['a']]), ['TypeError'] * 2)
    expect('error: new reference values differ (whole message)',
           whole([203012, 7001, 203255, 7001], [[-1, 0], [-2, 0]]), ['AssertionError'] * 2)


# 7. sample files (the compressed ones and some others): regression against digests
#    recorded from the code before the refactor; rado_250 also is the very file it came from
SAMPLES = {
    'amv2_87': (7436, 'fa23bfbdedb58cb9697cb2b3'),
    'asr3_190': (18224, '8e182fea106097b716515b3a'),
    'b005_89': (3976, 'ee42e73b632dbdd00539686c'),
    'g2nd_208': (876, 'a30981fcb19b5b238853d0b2'),
    'jaso_214': (4972, 'e4011e8414fda39eae62e7dc'),
    'mpco_217': (8677, 'c192862b5ab5b1050cceae45'),
    'rado_250': (5308, '59439d1ac82290e7636dbcff'),
    'profiler_european': (378, '25d982b024a8a3105a81dca7'),
    'uegabe': (479, '9b5f012a9b22496125859baf'),
    'b002_95': (712, '16a2909efaf7d307e25c80e3'),
}


def samples():
    import hashlib
    for name, (length, digest) in sorted(SAMPLES.items()):
        with open('tests/data/{}.json'.format(name)) as ins:
            s = ins.read()
        for label, encoder in ENCODERS:
            got = encoder.process(s).serialized_bytes
            check('sample {} [{}]'.format(name, label),
                  (len(got), hashlib.sha256(got).hexdigest()[:24]) == (length, digest))
    with open('tests/data/rado_250.bufr', 'rb') as ins:
        check('sample rado_250 is the original file',
              ENCODERS[0][1].process(open('tests/data/rado_250.json').read()).serialized_bytes == ins.read())


# 8. the methods of the working copy against those of HEAD (git show), random columns,
#    recording writer: same calls, same exception type, same state afterwards
def against_head():
    import random
    import subprocess
    import types
    source = subprocess.check_output(['git', 'show', 'HEAD:pybufrkit/encoder.py']).decode()
    head = types.ModuleType('encoder_at_head')
    head.__file__ = 'encoder_at_head.py'
    exec(compile(source, 'encoder_at_head.py', 'exec'), head.__dict__)
    from pybufrkit.coder import CoderState

    class D(object):
        id = 12001

        def __repr__(self):
            return '012001'

    def run(encoder_class, method_name, values, n_subsets, args, fail_at):
        state = CoderState(True, n_subsets, [[v] for v in values])
        writer = Recorder(fail_at)
        try:
            getattr(encoder_class(), method_name)(state, writer, D(), *args)
            error = None
        except Exception as e:
            error = (type(e).__name__, str(e))
        return (error, writer.calls, state.idx_value, state.decoded_descriptors_all_subsets,
                [type(v).__name__ for _, v, _ in writer.calls], state.new_refvals,
                state.decoded_values_all_subsets)

    rnd = random.Random(20260930)
    pools = {
        'process_numeric_compressed': [None, None, 0, 1, 2, 3, 7, 1.04, 1.06, 1.1, -3, 2.5, 1e3, 4095, True, 'x',
                                       2 ** 70, float('nan'), float('inf')],
        'process_codeflag_compressed': [None, None, 0, 1, 2, 3, 6, 7, 510, 511, True, 1.0, 2.5, 'x', 2 ** 256, [1]],
        'process_string_compressed': [None, None, '', 'a', 'ab', 'abc', 'abcd', 'a ', b'ab', 5, '\xff\xff'],
        'process_new_refval_compressed': [None, 0, 1, -1, -2047, 2048, 1.0, 'x'],
    }
    n = different = 0
    for method_name, pool in sorted(pools.items()):
        for _ in range(1500):
            n_values = rnd.choice([1, 2, 2, 3, 3, 4, 6])
            if rnd.random() < 0.4:  # few distinct values, so that "all equal" happens
                pool_now = rnd.sample(pool, 2)
            else:
                pool_now = pool
            values = [rnd.choice(pool_now) for _ in range(n_values)]
            n_subsets = n_values if rnd.random() < 0.9 else n_values + 1
            if method_name == 'process_numeric_compressed':
                args = (rnd.choice([1, 7, 12, 255, 256]), rnd.choice([1, 1.0, 10.0, 0.1, 100.0]),
                        rnd.choice([0, 0, -5, 1024]))
            elif method_name == 'process_string_compressed':
                args = (rnd.choice([0, 1, 2, 3, 9]),)
            else:
                args = (rnd.choice([1, 2, 9, 12, 255, 256]),)
            fail_at = rnd.choice([None, None, None, 0, 1, 2, 3])
            a = run(head.Encoder, method_name, values, n_subsets, args, fail_at)
            b = run(Encoder, method_name, values, n_subsets, args, fail_at)
            n += 1
            if repr(a) != repr(b):
                different += 1
                if different < 5:
                    print('     ', method_name, values, n_subsets, args, fail_at, a, b, sep='\n        ')
    check('working copy and HEAD agree on {} random columns'.format(n), different == 0)


if __name__ == '__main__':
    against_head()
    numeric()
    codeflag()
    strings()
    new_refvals()
    mixed()
    errors_and_calls()
    samples()
    print('{} failure(s)'.format(len(FAILURES)))
    sys.exit(1 if FAILURES else 0)
