import os, sys; sys.path.insert(0, os.getcwd())
"""
Differential demonstration for refactor 6 (Encoder.process_section split into
writing the parameters, padding to the octet boundary of the edition and
settling the section length; the parity / residue branches replaced by a
modulo).

Observed through Encoder(...).process(json) (bytes, the section_length values
left on the returned message, the errors) and through direct calls of the
public Encoder.process_section (return value, BITPOS_START metadata), so the
script runs unchanged before and after the patch.

The expected messages are assembled by a small packer written here.  It reads
the layout of the sections from pybufrkit/definitions/*.json (data, not code)
and pads by appending single zero bits until the boundary is reached.
"""
import glob
import json

import pybufrkit
import pybufrkit.errors
from pybufrkit.bitops import get_bit_writer
from pybufrkit.bufr import BufrMessage
from pybufrkit.constants import BITPOS_START
from pybufrkit.decoder import Decoder
from pybufrkit.encoder import Encoder
from pybufrkit.renderer import FlatJsonRenderer

assert os.path.dirname(os.path.dirname(os.path.abspath(pybufrkit.__file__))) == os.getcwd(), pybufrkit.__file__

DEC = Decoder()
ENC = Encoder()                                     # declared lengths ignored (default)
ENC_DECLARED = Encoder(ignore_declared_length=False)  # declared lengths honoured unless zero
ENC_COMPILED = Encoder(compiled_template_cache_max=8)

N_CHECKS = [0]


def check(cond, what):
    N_CHECKS[0] += 1
    if not cond:
        print('FAIL: ' + what)
        sys.exit(1)


# ---------------------------------------------------------------------------
# An independent packer of whole (uncompressed) messages
# ---------------------------------------------------------------------------
def ubits(v, n):
    assert 0 <= v < (1 << n), (v, n)
    return format(v, 'b').zfill(n) if n else ''


def layout(index, edition):
    path = 'pybufrkit/definitions/section{}-{}.json'.format(index, edition)
    if not os.path.exists(path):
        path = 'pybufrkit/definitions/section{}.json'.format(index)
    with open(path) as ins:
        return [(p['name'], p['nbits'], p['type']) for p in json.load(ins)['parameters']]


class Refused(Exception):
    pass


def pack_section(index, edition, values, widths, honour_declared):
    params = layout(index, edition)
    assert len(params) == len(values), (index, edition)
    bits = ''
    for (name, nbits, kind), value in zip(params, values):
        if kind == 'uint':
            bits += ubits(value, nbits)
        elif kind == 'bool':
            bits += '1' if value else '0'
        elif kind == 'bin':
            bits += value
        elif kind == 'bytes':
            assert len(value) * 8 == nbits
            bits += ''.join(ubits(ord(c), 8) for c in value)
        elif kind == 'unexpanded_descriptors':
            for d in value:
                bits += ubits(d // 100000, 2) + ubits(d // 1000 % 100, 6) + ubits(d % 1000, 8)
        elif kind == 'template_data':
            for row in value:
                assert len(row) == len(widths)
                for v, w in zip(row, widths):
                    bits += ubits((1 << w) - 1 if v is None else v, w)
        else:
            raise AssertionError(kind)
    # an even number of octets up to edition 3, whole octets afterwards
    boundary = 16 if edition <= 3 else 8
    while len(bits) % boundary:
        bits += '0'
    if params[0][0] == 'section_length':
        declared = values[0]
        if declared == 0 or not honour_declared:
            bits = ubits(len(bits) // 8, 24) + bits[24:]
        elif declared * 8 > len(bits):
            bits += '0' * (declared * 8 - len(bits))
        elif declared * 8 < len(bits):
            raise Refused('Writing exceeds declared section length {} by {} bytes'.format(
                declared, len(bits) // 8 - declared))
    return bits


def pack_message(data, widths, honour_declared=False):
    """data: the JSON lists given to the encoder -> (bytes, [bytes of each section])"""
    edition = data[0][2]
    has_section2 = data[1][[name for name, _, _ in layout(1, edition)].index('is_section2_presents')]
    indices = [0, 1] + ([2] if has_section2 else []) + [3, 4, 5]
    assert len(indices) == len(data)
    sections = [pack_section(i, edition, values, widths, honour_declared) for i, values in zip(indices, data)]
    total = sum(len(s) for s in sections) // 8
    declared = data[0][1]
    if declared == 0 or not honour_declared:
        sections[0] = sections[0][:32] + ubits(total, 24) + sections[0][56:]
    elif declared != total:
        raise Refused('Write exceeds declared total length {} by {} bytes'.format(declared, total - declared))
    as_bytes = [bytes(int(s[i:i + 8], 2) for i in range(0, len(s), 8)) for s in sections]
    return b''.join(as_bytes), as_bytes


def lengths_of_sections_that_declare_one(data, parts):
    edition = data[0][2]
    indices = [0, 1] + ([2] if len(data) == 6 else []) + [3, 4, 5]
    return [len(p) for i, p in zip(indices, parts) if layout(i, edition)[0][0] == 'section_length']


# ---------------------------------------------------------------------------
# Hand built messages: k one-bit values per subset
# ---------------------------------------------------------------------------
SEC1 = {
    1: [1, 0, False, '0000000', 2, 4, 18, 0, 16, 2, 18, 23, 0, 0],
    2: [999, 0, 1, 0, False, '0000000', 2, 4, 18, 0, 16, 2, 18, 23, 0, 0],
    3: [999, 0, 0, 1, 0, False, '0000000', 2, 4, 18, 0, 16, 2, 18, 23, 0, 0],
    4: [999, 0, 1, 0, 0, False, '0000000', 2, 0, 4, 18, 0, 2016, 2, 18, 23, 0, 0],
}
IDX_SECTION2_FLAG = {1: 2, 2: 4, 3: 5, 4: 5}


def message(edition, rows, local_bits=None, lengths=(999, 999, 999, 999, 999)):
    """lengths: declared lengths of the message and of sections 1, 2, 3, 4"""
    k = len(rows[0])
    sec1 = list(SEC1[edition])
    if edition > 1:
        sec1[0] = lengths[1]
    data = [['BUFR', lengths[0], edition], sec1]
    if local_bits is not None:
        sec1[IDX_SECTION2_FLAG[edition]] = True
        data.append([lengths[2], '00000000', local_bits])
    data.append([lengths[3], '00000000', len(rows), True, False, '000000', [31031] * k])
    data.append([lengths[4], '00000000', [list(r) for r in rows]])
    data.append(['7777'])
    return data


def pattern(k, seed):
    return [None if (i * 7 + seed) % 5 == 0 else (i + seed) % 2 for i in range(k)]


def declared_lengths(msg):
    return [p.value for section in msg.sections for p in section if p.name == 'section_length']


def check_message(name, data, k, encoders=None, honour=False):
    expected, parts = pack_message(data, [1] * k, honour_declared=honour)
    for label, enc in encoders or (('plain', ENC), ('compiled', ENC_COMPILED)):
        msg = enc.process(json.loads(json.dumps(data)))
        check(msg.serialized_bytes == expected, '{} [{}]: bytes\n {}\n {}'.format(
            name, label, msg.serialized_bytes.hex(), expected.hex()))
        check(msg.length.value == len(expected), '{} [{}]: length of the message object'.format(name, label))
        check(declared_lengths(msg) == lengths_of_sections_that_declare_one(data, parts),
              '{} [{}]: section_length values of the message object'.format(name, label))
    return expected, parts


def test_every_padding_residue():
    for edition in (2, 3, 4):
        for k in range(1, 18):
            for n_subsets in (1, 3):
                rows = [pattern(k, s) for s in range(n_subsets)]
                data = message(edition, rows)
                expected, parts = check_message('edition {} k={} n={}'.format(edition, k, n_subsets), data, k)
                # all sections have the alignment of the edition
                for p in parts[1:-1]:
                    check(len(p) % (2 if edition <= 3 else 1) == 0, 'alignment')
                back = DEC.process(expected)
                check(back.n_subsets.value == n_subsets and back.edition.value == edition, 'decoded header')
                # (a field of one bit has no missing value: its all-ones pattern is read as 1)
                check(back.template_data.value.decoded_values_all_subsets ==
                      [[1 if v is None else v for v in row] for row in rows],
                      'edition {} k={}: decoded values'.format(edition, k))


def test_optional_section():
    for edition in (2, 3, 4):
        for local_bits in ('', '10101', '11110000', '101010101010', '1111000011110000', '1' * 17, '0' * 31):
            rows = [pattern(3, 1), pattern(3, 2)]
            check_message('edition {} section 2 of {} bits'.format(edition, len(local_bits)),
                          message(edition, rows, local_bits=local_bits), 3)


def test_direct_calls_of_process_section():
    # the value returned by process_section and the BITPOS_START it records
    for edition, k, local_bits in ((3, 9, None), (3, 8, '101'), (4, 11, '1' * 9), (2, 16, None)):
        data = message(edition, [pattern(k, 0), pattern(k, 1)], local_bits=local_bits)
        expected, parts = pack_message(data, [1] * k)
        msg, writer = BufrMessage(), get_bit_writer()
        index, offset, part = 0, 0, 0
        while True:
            section = ENC.section_configurer.configure_section_with_values(msg, index, data[index - offset], ENC.overrides)
            index += 1
            if section is None:
                offset += 1
                continue
            start = 8 * sum(len(p) for p in parts[:part])
            returned = ENC.process_section(msg, writer, section)
            what = 'direct call edition {} section {}'.format(edition, index - 1)
            check(returned == 8 * len(parts[part]), what + ': returned {}'.format(returned))
            check(section.get_metadata(BITPOS_START) == start, what + ': start')
            check(writer.get_pos() == start + returned, what + ': position')
            check(writer.to_bytes()[start // 8:] == parts[part] or part == 0, what + ': bytes')
            part += 1
            if section.end_of_message:
                break
        check(part == len(parts), 'all sections')


def expect_refusal(name, data, k):
    try:
        pack_message(data, [1] * k, honour_declared=True)
    except Refused as e:
        text = str(e)
    else:
        raise AssertionError('the independent packer accepts ' + name)
    try:
        ENC_DECLARED.process(json.loads(json.dumps(data)))
    except BaseException as e:
        check(type(e) is pybufrkit.errors.PyBufrKitError, '{}: raised {!r}'.format(name, e))
        check(e.message == text, '{}: message {!r} instead of {!r}'.format(name, e.message, text))
    else:
        check(False, name + ': not refused')


def test_declared_lengths():
    honoured = (('declared', ENC_DECLARED),)
    for edition in (2, 3, 4):
        for k in (3, 8, 13, 16):
            rows = [pattern(k, 0), pattern(k, 3)]
            name = 'edition {} k={} '.format(edition, k)
            # zero means "compute it"
            zeros = message(edition, rows, local_bits='1', lengths=(0, 0, 0, 0, 0))
            expected, parts = check_message(name + 'zero lengths', zeros, k, honoured, honour=True)
            total, l1, l2, l3, l4 = [len(expected)] + [len(p) for p in parts[1:5]]
            # exactly what is written
            exact = message(edition, rows, local_bits='1', lengths=(total, l1, l2, l3, l4))
            again, _ = check_message(name + 'exact lengths', exact, k, honoured, honour=True)
            check(again == expected, name + 'exact lengths give the same message')
            # ignored when not honoured
            check_message(name + 'exact lengths ignored', exact, k)
            # longer than what is written: the section is extended with zeros
            for d1, d2, d3, d4 in ((2, 0, 0, 0), (0, 1, 0, 0), (0, 0, 3, 0), (0, 0, 0, 1), (1, 2, 3, 4), (0, 0, 0, 300)):
                longer = message(edition, rows, local_bits='1', lengths=(0, l1 + d1, l2 + d2, l3 + d3, l4 + d4))
                grown, _ = check_message(name + 'longer {}'.format((d1, d2, d3, d4)), longer, k, honoured, honour=True)
                check(len(grown) == total + d1 + d2 + d3 + d4, name + 'grown')
                # ... and a mixture of zero and declared
                mixed = message(edition, rows, local_bits='1', lengths=(0, 0, l2 + d2, 0, l4 + d4))
                check_message(name + 'mixed {}'.format((d2, d4)), mixed, k, honoured, honour=True)
            # shorter than what is written: refused
            for which in (1, 2, 3, 4):
                for cut in (1, 2, 3):
                    lengths = [0, l1, l2, l3, l4]
                    lengths[which] -= cut
                    expect_refusal(name + 'section {} shorter by {}'.format(which, cut),
                                   message(edition, rows, local_bits='1', lengths=lengths), k)
            # the total (not touched by the refactor, for completeness)
            expect_refusal(name + 'wrong total', message(edition, rows, local_bits='1', lengths=(total + 1, 0, 0, 0, 0)), k)


def test_edition_1_is_not_supported():
    # Section 1 of edition 1 (no section_length, 14 octets) is written, then the
    # configuration of section 2 fails: the flag of section 2 is no property in edition 1.
    for enc in (ENC, ENC_DECLARED):
        try:
            enc.process(message(1, [pattern(4, 0)]))
        except BaseException as e:
            check(type(e) is AttributeError and '_is_section2_presents' in str(e), 'edition 1: raised {!r}'.format(e))
        else:
            check(False, 'edition 1: accepted')


def test_edition_that_cannot_be_compared():
    # int('4') is written as 4, but '4' <= 3 is refused when the boundary of the edition is looked up
    data = message(4, [pattern(2, 0)])
    data[0][2] = '4'
    for enc in (ENC, ENC_DECLARED, ENC_COMPILED):
        try:
            enc.process(json.loads(json.dumps(data)))
        except BaseException as e:
            check(type(e) is TypeError, 'edition of type str: raised {!r}'.format(e))
        else:
            check(False, 'edition of type str: accepted')


# ---------------------------------------------------------------------------
# The sample corpus
# ---------------------------------------------------------------------------
ROUND_TRIP = ('IUSK73_AMMC_040000.bufr', 'IUSK73_AMMC_182300.bufr', 'b002_95.bufr', 'contrived.bufr',
              'mpco_217.bufr', 'profiler_european.bufr', 'rado_250.bufr')


def walk_sections(b, edition, has_section2):
    assert edition >= 2
    pos, lengths = 8, []
    for _ in range(4 if has_section2 else 3):
        n = int.from_bytes(b[pos:pos + 3], 'big')
        lengths.append(n)
        pos += n
    assert b[pos:pos + 4] == b'7777' and pos + 4 == int.from_bytes(b[4:7], 'big') == len(b)
    return lengths


def index_collections(n):
    yield [0]
    if n > 1:
        yield [n - 1]
        yield list(range(n))
        yield [n - 1, 0, n - 1, n // 2]
    if n > 3:
        yield {1, n - 2}


def test_corpus():
    for path in sorted(glob.glob('tests/data/*.bufr')):
        name = os.path.basename(path)
        if name in ('prepbufr.bufr', 'multi_invalid_messages.bufr'):
            continue  # need tables that are not shipped / not a single valid message
        with open(path, 'rb') as ins:
            file_bytes = ins.read()
        src = DEC.process(file_bytes)
        if name in ROUND_TRIP:
            # the file itself is the expected result of encoding what was decoded from it
            for label, enc in (('plain', ENC), ('declared', ENC_DECLARED)):
                out = enc.process(FlatJsonRenderer().render(src))
                check(out.serialized_bytes == file_bytes[:src.length.value], '{} [{}]: round trip'.format(name, label))
        n = src.n_subsets.value
        rows = src.template_data.value.decoded_values_all_subsets
        snapshot = repr(rows)
        sec1 = [(p.name, p.value) for p in src.sections[1] if p.name != 'section_length']
        for indices in index_collections(n):
            keep = sorted(set(indices))
            encoded = ENC.process(src.subset(indices))
            b = encoded.serialized_bytes
            what = '{} subset {}'.format(name, indices if len(keep) < 9 else '({} indices)'.format(len(keep)))
            # a valid message: the lengths it declares are the ones it has, with the alignment of its edition
            lengths = walk_sections(b, src.edition.value, src.is_section2_presents.value)
            check(all(x % (2 if src.edition.value <= 3 else 1) == 0 for x in lengths), what + ': alignment')
            check(declared_lengths(encoded) == lengths, what + ': section_length values of the message object')
            check(encoded.length.value == len(b), what + ': length value')
            out = DEC.process(b)
            check(out.n_subsets.value == len(keep), what + ': count')
            check(out.is_compressed.value == src.is_compressed.value, what + ': compression flag')
            check(out.unexpanded_descriptors.value == src.unexpanded_descriptors.value, what + ': template')
            check([(p.name, p.value) for p in out.sections[1] if p.name != 'section_length'] == sec1,
                  what + ': identification')
            got = out.template_data.value.decoded_values_all_subsets
            check(len(got) == len(keep), what + ': rows')
            for row, i in zip(got, keep):
                check(row == rows[i], what + ': values of subset {}'.format(i))
            check(repr(rows) == snapshot, what + ': source modified')
        for bad in ([n], [-1]):
            try:
                src.subset(bad)
            except pybufrkit.errors.PyBufrKitError:
                check(True, '')
            else:
                check(False, '{}: subset {} accepted'.format(name, bad))


def test_subset_with_declared_lengths_honoured():
    # The data of a subset still carry the lengths of the source.  When they are
    # honoured, the reduced data section is extended with zeros up to the old length.
    for name in ('contrived.bufr', '207003.bufr', 'jaso_214.bufr', 'g2nd_208.bufr'):
        with open(os.path.join('tests/data', name), 'rb') as ins:
            src = DEC.process(ins.read())
        data = src.subset([0])
        data[0][1] = 0  # the total is computed
        b = ENC_DECLARED.process(data).serialized_bytes
        lengths = walk_sections(b, src.edition.value, src.is_section2_presents.value)
        check(lengths == declared_lengths(src), name + ': the lengths of the source are kept')
        reference = ENC.process(src.subset([0])).serialized_bytes
        shorter = walk_sections(reference, src.edition.value, src.is_section2_presents.value)
        check(shorter[:-1] == lengths[:-1] and shorter[-1] < lengths[-1], name + ': only the data section shrinks')
        start4 = 8 + sum(lengths[:-1])
        check(b[start4 + 3: start4 + shorter[-1]] == reference[start4 + 3: start4 + shorter[-1]], name + ': same data')
        check(b[start4 + shorter[-1]: start4 + lengths[-1]] == b'\x00' * (lengths[-1] - shorter[-1]), name + ': zeros')
        out = DEC.process(b)
        check(out.template_data.value.decoded_values_all_subsets ==
              [src.template_data.value.decoded_values_all_subsets[0]], name + ': values')


if __name__ == '__main__':
    test_every_padding_residue()
    test_optional_section()
    test_direct_calls_of_process_section()
    test_declared_lengths()
    test_edition_1_is_not_supported()
    test_edition_that_cannot_be_compared()
    test_corpus()
    test_subset_with_declared_lengths_honoured()
    print('OK ({} checks)'.format(N_CHECKS[0]))
