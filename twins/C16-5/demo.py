import os, sys; sys.path.insert(0, os.getcwd())
"""
Differential demonstration for refactor 5 (descent machinery of DataQuerent).

Three parts:

 A. direct calls of the methods that were rewritten (node_matches,
    proceed_next_path_component, descend_and_proceed,
    filter_for_descendant_sub_nodes) on hand built nodes, compared with literal
    expectations;
 B. whole queries on hand built "messages" (random node trees, compressed and
    not, all three separators, every kind of slice, valueless nodes, zero-count
    replications, attributes of attributes), compared with a reference evaluator
    that is written in this file and does not call the library;
 C. whole queries on the sample corpus under tests/data, with paths enumerated
    from the structure of each message, compared with the same reference
    evaluator, and bare IDs compared with a scan of the flat data.

Exits 0 when everything agrees.
"""
import glob
import random

import pybufrkit.dataquery as dq
from pybufrkit.dataquery import (
    DataQuerent, NodePathParser, PathComponent,
    NODE_MATCH, NODE_KEEP, NODE_NOT_MATCH,
)
from pybufrkit.errors import QueryError
from pybufrkit.templatedata import (
    ValueDataNode, NoValueDataNode, SequenceNode,
    FixedReplicationNode, DelayedReplicationNode,
)
from pybufrkit.decoder import Decoder

assert os.path.dirname(os.path.abspath(dq.__file__)) == os.path.join(os.getcwd(), 'pybufrkit'), dq.__file__

N_CHECKS = [0]


def check(cond, *what):
    N_CHECKS[0] += 1
    if not cond:
        print('MISMATCH', *what)
        sys.exit(1)


# ---------------------------------------------------------------------------
# Hand built nodes
# ---------------------------------------------------------------------------
class D(object):
    """A stand-in for a descriptor: only str() and n_members are looked at."""

    def __init__(self, ident, n_members=None):
        self.ident = ident
        if n_members is not None:
            self.n_members = n_members

    def __str__(self):
        return self.ident

    __repr__ = __str__


class Counter(object):
    def __init__(self):
        self.n = 0

    def __call__(self):
        self.n += 1
        return self.n - 1


def V(ident, nxt, attributes=()):
    node = ValueDataNode(D(ident), nxt())
    for a in attributes:
        node.add_attribute(a)
    return node


def S(ident, members):
    node = SequenceNode(D(ident))
    node.members = list(members)
    return node


def R(ident, n_members, members):
    node = FixedReplicationNode(D(ident, n_members))
    node.members = list(members)
    return node


def DR(ident, n_members, factor, members):
    node = DelayedReplicationNode(D(ident, n_members))
    node.factor = factor
    node.members = list(members)
    return node


def O(ident):
    return NoValueDataNode(D(ident))


class Box(object):
    def __init__(self, value):
        self.value = value


class FakeTemplateData(object):
    def __init__(self, nodes_all, values_all):
        self.decoded_nodes_all_subsets = nodes_all
        self.decoded_values_all_subsets = values_all
        self.n_subsets = len(values_all)


class FakeMessage(object):
    def __init__(self, nodes_all, values_all, compressed):
        self.n_subsets = Box(len(values_all))
        self.is_compressed = Box(compressed)
        self.template_data = Box(FakeTemplateData(nodes_all, values_all))


# ---------------------------------------------------------------------------
# The reference evaluator (does not call the library)
# ---------------------------------------------------------------------------
def ref_has_sub(node):
    return any(hasattr(node, a) for a in ('members', 'attributes', 'factor'))


def ref_select(nodes, comp):
    """The nodes of the list designated by the step, in document order."""
    sep, ident, slc = comp
    exact = [i for i, n in enumerate(nodes) if str(n.descriptor) == ident]
    passing = [i for i, n in enumerate(nodes)
               if sep == '>' and str(n.descriptor) != ident and ref_has_sub(n)]
    if isinstance(slc, int):
        chosen = exact[slc:slc + 1]
    else:
        chosen = exact[slc]
    return [nodes[i] for i in sorted(chosen + passing)]


def ref_continue(selected, comps):
    sep, ident, _ = comps[0]
    out = []
    for n in selected:
        if str(n.descriptor) == ident:
            if len(comps) == 1:
                out.append(n)
            else:
                out.extend(ref_step(n, comps[1:]))
        else:  # only under '>': a composite node that is passed through
            out.extend(ref_descend(n, comps))
    return out


def ref_children(node, comps):
    if not hasattr(node, 'members'):
        raise QueryError('{} has no child nodes'.format(node.descriptor))
    if isinstance(node, (FixedReplicationNode, DelayedReplicationNode)):
        if not node.members:
            return []
        k = node.descriptor.n_members
        envelope = []
        for i in range(0, len(node.members), k):
            got = ref_continue(ref_select(node.members[i:i + k], comps[0]), comps)
            if got:
                envelope.append(got)
        return [envelope] if envelope else []
    return ref_continue(ref_select(node.members, comps[0]), comps)


def ref_attributes(node, comps):
    if not (hasattr(node, 'attributes') or hasattr(node, 'factor')):
        raise QueryError('{} has no attribute nodes'.format(node.descriptor))
    candidates = []
    if isinstance(node, DelayedReplicationNode):
        candidates.append(node.factor)
    candidates.extend(getattr(node, 'attributes', []))
    return ref_continue(ref_select(candidates, comps[0]), comps)


def ref_descend(node, comps):
    if not ref_has_sub(node):
        raise QueryError('{} has no descendant nodes'.format(node.descriptor))
    out = []
    if hasattr(node, 'members'):
        out.extend(ref_children(node, comps))
    if hasattr(node, 'attributes') or hasattr(node, 'factor'):
        out.extend(ref_attributes(node, comps))
    return out


def ref_step(node, comps):
    return {'/': ref_children, '.': ref_attributes, '>': ref_descend}[comps[0][0]](node, comps)


def ref_values(nodes, values):
    out = []
    for n in nodes:
        if isinstance(n, list):
            out.append(ref_values(n, values))
        elif isinstance(n, ValueDataNode):
            out.append(values[n.index])
        else:
            raise QueryError('cannot query valueless node: {}'.format(n.descriptor))
    return out


def ref_query(msg, subset_slc, comps):
    td = msg.template_data.value
    n = msg.n_subsets.value
    indices = [subset_slc] if isinstance(subset_slc, int) else list(range(n))[subset_slc]
    root = S('TEMPLATE', [])
    out = []
    if msg.is_compressed.value:
        root.members = td.decoded_nodes_all_subsets[0]
        nodes = ref_step(root, comps)
        for i in indices:
            out.append((i, ref_values(nodes, td.decoded_values_all_subsets[i])))
    else:
        for i in indices:
            values = td.decoded_values_all_subsets[i]
            root.members = td.decoded_nodes_all_subsets[i]
            out.append((i, ref_values(ref_step(root, comps), values)))
    return [i for i, _ in out], [v for _, v in out]


# ---------------------------------------------------------------------------
# Path texts and their meaning, written down independently of the parser
# ---------------------------------------------------------------------------
SLICES = [
    ('', slice(None, None, None)),
    ('[0]', 0), ('[1]', 1), ('[2]', 2), ('[7]', 7),
    ('[-1]', slice(-1, None, None)), ('[-2]', slice(-2, -1, None)),
    ('[::2]', slice(None, None, 2)), ('[1:]', slice(1, None)), ('[:1]', slice(None, 1)),
    ('[::-1]', slice(None, None, -1)), ('[1:3]', slice(1, 3)), ('[-2:]', slice(-2, None)),
    ('[:]', slice(None, None)),
]
SUBSETS = [
    ('', slice(None, None, None)), ('@[0]', 0), ('@[1]', 1), ('@[-1]', slice(-1, None, None)),
    ('@[::2]', slice(None, None, 2)), ('@[1:]', slice(1, None)), ('@[99]', 99), ('@[5:]', slice(5, None)),
]


def outcome(fn):
    try:
        return ('ok',) + tuple(fn())
    except (QueryError, IndexError) as e:
        return ('err', type(e).__name__, str(e))


QUERENT = DataQuerent(NodePathParser())


def lib_query(msg, text):
    r = QUERENT.query(msg, text)
    flat = r.all_values(flat=True)
    return r.subset_indices(), r.all_values(), flat


def compare(msg, subset, steps, tag):
    """steps: [(sep, id, (slice text, slice object))]; subset: (text, object)"""
    text = subset[0] + ''.join(sep + ident + s[0] for sep, ident, s in steps)
    comps = [(sep, ident, s[1]) for sep, ident, s in steps]

    def ref():
        indices, values = ref_query(msg, subset[1], comps)
        return indices, values, [flatten(v) for v in values]

    got = outcome(lambda: lib_query(msg, text))
    want = outcome(ref)
    check(got == want, tag, repr(text), 'library:', repr(got)[:300], 'reference:', repr(want)[:300])
    return got


def flatten(x):
    out = []
    for e in x:
        if isinstance(e, list):
            out.extend(flatten(e))
        else:
            out.append(e)
    return out


# ---------------------------------------------------------------------------
# A. the rewritten methods, called directly
# ---------------------------------------------------------------------------
def part_a():
    nxt = Counter()
    q = DataQuerent(NodePathParser())
    ALL = slice(None, None, None)

    plain = V('E1', nxt)
    with_attr = V('E2', nxt, [V('A1', nxt)])
    seq = S('S1', [V('E1', nxt)])
    fixed = R('R1', 1, [V('E1', nxt), V('E1', nxt)])
    delayed = DR('D1', 1, V('F', nxt), [])
    bare = O('O1')
    # a node that has nothing but a factor (never produced by wiring, but the test is on the attribute)
    factor_only = O('O2')
    factor_only.factor = V('F', nxt)

    # node_matches: the exact match wins whatever the separator and the kind of node
    for sep in '/.>':
        for node in (plain, with_attr, seq, fixed, delayed, bare, factor_only):
            check(q.node_matches(node, PathComponent(sep, str(node.descriptor), ALL)) == NODE_MATCH,
                  'node_matches exact', sep, node)
    # no exact match: only '>' keeps, and only nodes that can have sub-nodes
    for node, composite in ((plain, False), (with_attr, True), (seq, True), (fixed, True),
                            (delayed, True), (bare, False), (factor_only, True)):
        for sep in '/.':
            check(q.node_matches(node, PathComponent(sep, 'ZZ', ALL)) == NODE_NOT_MATCH, 'node_matches', sep, node)
        check(q.node_matches(node, PathComponent('>', 'ZZ', ALL)) == (NODE_KEEP if composite else NODE_NOT_MATCH),
              'node_matches >', node)
    check((NODE_NOT_MATCH, NODE_MATCH, NODE_KEEP) == (0, 1, 2), 'constants')
    # the result is one of the three constants, of type int
    check(type(q.node_matches(seq, PathComponent('>', 'ZZ', ALL))) is int, 'type')

    # a node without descriptor: AttributeError, whatever the separator
    class Nothing(object):
        pass
    for sep in '/.>':
        try:
            q.node_matches(Nothing(), PathComponent(sep, 'ZZ', ALL))
            check(False, 'no AttributeError')
        except AttributeError:
            check(True)

    # proceed_next_path_component: at the last component the very list is handed back
    nodes = [plain, seq]
    check(q.proceed_next_path_component(nodes, [PathComponent('/', 'E1', ALL)]) is nodes, 'identity, last component')
    check(q.proceed_next_path_component(nodes, []) is nodes, 'identity, no component')
    empty = []
    check(q.proceed_next_path_component(empty, [PathComponent('/', 'E1', ALL)]) is empty, 'identity, empty list')
    # with more components: a new list, sub-nodes concatenated in order of the nodes
    s1 = S('S1', [V('E1', nxt), V('E2', nxt), V('E1', nxt)])
    s2 = S('S1', [V('E2', nxt)])
    s3 = S('S1', [V('E1', nxt)])
    comps = [PathComponent('/', 'S1', ALL), PathComponent('/', 'E1', ALL)]
    inp = [s1, s2, s3]
    got = q.proceed_next_path_component(inp, comps)
    check(got == [s1.members[0], s1.members[2], s3.members[0]] and got is not inp, 'proceed, two components')
    check(q.proceed_next_path_component([], comps) == [], 'proceed, no nodes')
    # path components given as a tuple work as well
    check(q.proceed_next_path_component(inp, tuple(comps)) == got, 'proceed, tuple')
    # replications below give envelopes, which are kept as they are
    r = R('R1', 1, [V('E1', nxt), V('E1', nxt)])
    got = q.proceed_next_path_component([r, s3], [PathComponent('/', 'X', ALL), PathComponent('/', 'E1', 0)])
    check(got == [[[r.members[0]], [r.members[1]]], s3.members[0]], 'proceed, envelope')
    # an error below comes through unchanged, and at the first node that has it
    try:
        q.proceed_next_path_component([s3, plain, bare], comps)
        check(False, 'no QueryError')
    except QueryError as e:
        check(e.message == 'E1 has no child nodes', 'proceed error', str(e))

    # descend_and_proceed
    a1 = V('A1', nxt)
    e_with = V('E2', nxt, [a1])
    inner = S('S2', [V('E1', nxt), e_with])
    outer = S('S1', [inner, V('E1', nxt)])
    dly = DR('D1', 1, V('E1', nxt), [V('E3', nxt), V('E3', nxt)])
    last = [PathComponent('>', 'E1', ALL)]
    got = q.descend_and_proceed([outer, plain, V('E9', nxt), bare, dly], last)
    # outer is kept and searched, plain matches, E9 and O1 do not match, the delayed replication is searched
    # (no E1 member; its factor is an E1)
    check(got == [inner.members[0], outer.members[1], plain, dly.factor], 'descend', got)
    check(q.descend_and_proceed([], last) == [], 'descend, nothing')
    check(q.descend_and_proceed([bare, V('E9', nxt)], last) == [], 'descend, nothing matches')
    got = q.descend_and_proceed([outer], [PathComponent('>', 'E2', ALL), PathComponent('.', 'A1', ALL)])
    check(got == [a1], 'descend then attribute', got)
    got = q.descend_and_proceed([dly], [PathComponent('>', 'E3', 0)])
    check(got == [[[dly.members[0]], [dly.members[1]]]], 'descend into replication', got)
    try:
        q.descend_and_proceed([], [])
        check(False, 'no IndexError')
    except IndexError:
        check(True)
    # exact match goes on with the next component and fails where that fails
    try:
        q.descend_and_proceed([plain], [PathComponent('>', 'E1', ALL), PathComponent('/', 'X', ALL)])
        check(False, 'no QueryError')
    except QueryError as e:
        check(e.message == 'E1 has no child nodes', str(e))

    # filter_for_descendant_sub_nodes
    for node in (plain, bare):
        try:
            q.filter_for_descendant_sub_nodes(node, last)
            check(False, 'no QueryError')
        except QueryError as e:
            check(e.message == '{} has no descendant nodes'.format(node.descriptor), str(e))
    check(q.filter_for_descendant_sub_nodes(outer, last) == [inner.members[0], outer.members[1]], 'desc members')
    check(q.filter_for_descendant_sub_nodes(e_with, [PathComponent('>', 'A1', ALL)]) == [a1], 'desc attributes only')
    check(q.filter_for_descendant_sub_nodes(dly, last) == [dly.factor], 'desc members + factor')
    # a node with a factor attribute that is not a delayed replication has no candidate: empty result
    check(q.filter_for_descendant_sub_nodes(factor_only, [PathComponent('>', 'F', ALL)]) == [], 'factor only')
    both = DR('D1', 1, V('E1', nxt), [V('E1', nxt)])
    both.attributes = [V('E1', nxt)]
    got = q.filter_for_descendant_sub_nodes(both, last)
    check(got == [[[both.members[0]]], both.factor, both.attributes[0]], 'members, then factor, then attributes')


# ---------------------------------------------------------------------------
# B. random hand built messages
# ---------------------------------------------------------------------------
ELEMENT_IDS = ['E1', 'E2', 'E3']
ATTR_IDS = ['A1', 'A2', 'E1']
SEQ_IDS = ['S1', 'S2']
ALL_IDS = ELEMENT_IDS + ['A1', 'A2'] + SEQ_IDS + ['R1', 'D1', 'F', 'O1', 'ZZ', 'TEMPLATE']


def random_members(rng, nxt, depth, n=None):
    members = []
    for _ in range(rng.randint(1, 4) if n is None else n):
        roll = rng.random()
        if roll < 0.45 or depth == 0:
            attrs = []
            if rng.random() < 0.35:
                for _ in range(rng.randint(1, 3)):
                    sub = [V(rng.choice(ATTR_IDS), nxt)] if rng.random() < 0.25 else []
                    attrs.append(V(rng.choice(ATTR_IDS), nxt, sub))
            members.append(V(rng.choice(ELEMENT_IDS), nxt, attrs))
        elif roll < 0.65:
            members.append(S(rng.choice(SEQ_IDS), random_members(rng, nxt, depth - 1)))
        elif roll < 0.78:
            k = rng.randint(1, 3)
            reps = rng.randint(1, 3)
            block = []
            for _ in range(reps):
                # repetitions usually alike, sometimes not (as with operators under a bitmap)
                block += random_members(rng, nxt, depth - 1, n=k)
            members.append(R('R1', k, block))
        elif roll < 0.93:
            k = rng.randint(1, 2)
            reps = rng.choice([0, 0, 1, 2, 3])
            factor = V(rng.choice(['F', 'F', 'E1']), nxt, [V('A1', nxt)] if rng.random() < 0.2 else [])
            block = []
            for _ in range(reps):
                block += random_members(rng, nxt, depth - 1, n=k)
            members.append(DR('D1', k, factor, block))
        else:
            members.append(O('O1'))
    return members


def random_steps(rng):
    steps = []
    for i in range(rng.randint(1, 4)):
        sep = rng.choice(['/', '>', '>'] if i == 0 else ['/', '/', '.', '>'])
        steps.append((sep, rng.choice(ALL_IDS[:-1]), rng.choice(SLICES) if rng.random() < 0.6 else SLICES[0]))
    return steps


def part_b():
    rng = random.Random(1605)
    seen = {'ok': 0, 'ok-nonempty': 0, 'err': 0}
    messages = []
    for i_msg in range(60):
        compressed = i_msg % 2 == 0
        n_subsets = rng.randint(1, 4)
        if compressed:
            nxt = Counter()
            tree = random_members(rng, nxt, 3)
            nodes_all = [tree] * n_subsets
            counts = [nxt.n] * n_subsets
        else:
            nodes_all, counts = [], []
            for _ in range(n_subsets):
                nxt = Counter()
                nodes_all.append(random_members(rng, nxt, 3))
                counts.append(nxt.n)
        values_all = [[1000 * i + j for j in range(c)] for i, c in enumerate(counts)]
        messages.append(FakeMessage(nodes_all, values_all, compressed))

    for i_msg, msg in enumerate(messages):
        chains = []
        for nodes in msg.template_data.value.decoded_nodes_all_subsets:
            enumerate_paths(nodes, [], 6, chains)
        for i_query in range(150):
            if i_query % 3 == 0:
                steps = random_steps(rng)
            else:
                # a path that exists in one of the subsets, with slices, and with some steps
                # turned into descendant steps (alone or swallowing the steps before them)
                chain = list(rng.choice(chains))
                if i_query % 3 == 1:
                    i = rng.randrange(len(chain))
                    j = rng.randrange(i, len(chain))
                    chain = chain[:i] + [('>', chain[j][1])] + chain[j + 1:]
                steps = [(sep, ident, rng.choice(SLICES) if rng.random() < 0.5 else SLICES[0])
                         for sep, ident in chain]
            got = compare(msg, rng.choice(SUBSETS) if rng.random() < 0.4 else SUBSETS[0], steps,
                          'B/msg{}'.format(i_msg))
            seen[got[0]] += 1
            if got[0] == 'ok' and any(flatten(v) for v in got[2]):
                seen['ok-nonempty'] += 1
    check(seen['ok-nonempty'] > 2000 and seen['err'] > 500, 'coverage of part B', seen)
    return seen


# ---------------------------------------------------------------------------
# C. the sample corpus
# ---------------------------------------------------------------------------
def enumerate_paths(nodes, prefix, depth, out):
    """All (sep, id) chains that exist below the given member list."""
    for n in nodes:
        here = prefix + [('/', str(n.descriptor))]
        out.append(here)
        walk_below(n, here, depth, out)


def walk_below(n, here, depth, out):
    if depth == 0:
        return
    if hasattr(n, 'factor'):
        out.append(here + [('.', str(n.factor.descriptor))])
        walk_below(n.factor, here + [('.', str(n.factor.descriptor))], depth - 1, out)
    for a in getattr(n, 'attributes', []):
        out.append(here + [('.', str(a.descriptor))])
        walk_below(a, here + [('.', str(a.descriptor))], depth - 1, out)
    if hasattr(n, 'members'):
        members = n.members
        if isinstance(n, (FixedReplicationNode, DelayedReplicationNode)):
            members = members[:2 * n.descriptor.n_members]
        enumerate_paths(members, here, depth - 1, out)


def ids_not_ordinary(nodes, acc, inside=False):
    """IDs that occur as attribute or as replication factor somewhere."""
    for n in nodes:
        if inside:
            acc.add(str(n.descriptor))
        if hasattr(n, 'factor'):
            ids_not_ordinary([n.factor], acc, True)
        ids_not_ordinary(getattr(n, 'attributes', []), acc, True)
        ids_not_ordinary(getattr(n, 'members', []), acc, inside)
    return acc


def part_c():
    rng = random.Random(16)
    decoder = Decoder()
    n_files = 0
    n_nonempty = 0
    for path in sorted(glob.glob(os.path.join('tests', 'data', '*.bufr'))):
        name = os.path.basename(path)
        if name == 'multi_invalid_messages.bufr':
            continue
        with open(path, 'rb') as ins:
            msg = decoder.process(ins.read())
        n_files += 1
        td = msg.template_data.value
        chains = []
        enumerate_paths(td.decoded_nodes_all_subsets[0], [], 5, chains)
        # unique chains, a sample of them
        unique = sorted(set(tuple(c) for c in chains))
        rng.shuffle(unique)
        for chain in unique[:70]:
            # 1. as it is, with slices thrown in
            steps = [(sep, ident, rng.choice(SLICES) if rng.random() < 0.5 else SLICES[0]) for sep, ident in chain]
            subset = rng.choice(SUBSETS) if rng.random() < 0.3 else SUBSETS[0]
            got = compare(msg, subset, steps, name)
            n_nonempty += got[0] == 'ok' and any(got[3])
            # 2. with a run of steps replaced by a descendant step
            if len(chain) >= 2:
                i = rng.randrange(len(chain))
                j = rng.randrange(i, len(chain))
                short = list(chain[:i]) + [('>', chain[j][1])] + list(chain[j + 1:])
                steps = [(sep, ident, rng.choice(SLICES) if rng.random() < 0.4 else SLICES[0])
                         for sep, ident in short]
                got = compare(msg, SUBSETS[0], steps, name)
                n_nonempty += got[0] == 'ok' and any(got[3])
            # 3. every step a descendant step
            steps = [('>', ident, rng.choice(SLICES) if rng.random() < 0.3 else SLICES[0]) for _, ident in chain[-3:]]
            compare(msg, SUBSETS[0], steps, name)

        # bare IDs against the flat data
        special = ids_not_ordinary(td.decoded_nodes_all_subsets[0], set())
        if not msg.is_compressed.value:
            for nodes in td.decoded_nodes_all_subsets[1:]:
                ids_not_ordinary(nodes, special)
        all_ids = sorted(set(str(d) for d in td.decoded_descriptors_all_subsets[0]))
        rng.shuffle(all_ids)
        for ident in all_ids[:25]:
            got = compare(msg, SUBSETS[0], [('>', ident, SLICES[0])], name)
            if ident in special or got[0] != 'ok':
                continue
            want = [
                [v for d, v in zip(ds, vs) if str(d) == ident]
                for ds, vs in zip(td.decoded_descriptors_all_subsets, td.decoded_values_all_subsets)
            ]
            check(QUERENT.query(msg, ident).all_values(flat=True) == want, name, 'bare id', ident)
            check(got[1] == list(range(td.n_subsets)), name, 'bare id subsets', ident)
    check(n_files >= 15 and n_nonempty > 500, 'coverage of part C', n_files, n_nonempty)
    return n_files, n_nonempty


if __name__ == '__main__':
    part_a()
    a = N_CHECKS[0]
    seen = part_b()
    b = N_CHECKS[0] - a
    n_files, n_nonempty = part_c()
    c = N_CHECKS[0] - a - b
    print('part A: {} direct checks'.format(a))
    print('part B: {} queries on hand built messages {}'.format(b, seen))
    print('part C: {} checks on {} sample files ({} non-empty results)'.format(c, n_files, n_nonempty))
    print('OK')
