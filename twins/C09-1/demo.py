"""
Demo for refactor 1: nested JSON -> flat JSON (pybufrkit/utils.py).

Run as:  cd /tmp/tw_C09 && /venv/bin/python _out/1/demo.py
"""
import os, sys; sys.path.insert(0, os.getcwd())

import copy
import json
import logging

logging.disable(logging.CRITICAL)

import pybufrkit
assert os.path.dirname(os.path.abspath(pybufrkit.__file__)) == os.path.join(os.getcwd(), 'pybufrkit'), pybufrkit.__file__

from pybufrkit.decoder import Decoder
from pybufrkit.encoder import Encoder
from pybufrkit.renderer import FlatJsonRenderer, NestedJsonRenderer
from pybufrkit.utils import (nested_json_to_flat_json, template_data_nested_json_to_flat_json,
                             JSON_DUMPS_KWARGS)

decoder = Decoder()
encoder = Encoder()


def build(descriptors, subsets, compressed=False):
    return [
        ['BUFR', 0, 4],
        [0, 0, 0, 0, 0, False, '0000000', 0, 0, 0, 25, 0, 2020, 1, 2, 3, 4, 5],
        [0, '00000000', len(subsets), True, compressed, '000000', list(descriptors)],
        [0, '00000000', [list(s) for s in subsets]],
        ['7777'],
    ]


def through_json(obj):
    return json.loads(json.dumps(obj, **JSON_DUMPS_KWARGS))


def check_message(bufr_message, label):
    """nested JSON -> flat gives exactly the flat JSON, in memory and through a JSON file"""
    flat = FlatJsonRenderer().render(bufr_message)
    nested = NestedJsonRenderer().render(bufr_message)
    nested_before = copy.deepcopy(nested)
    converted = nested_json_to_flat_json(nested)
    assert converted == flat, label
    assert nested == nested_before, label + ': input was modified'
    # types are conserved too (int stays int, float stays float, bytes stay bytes)
    assert repr(converted) == repr(flat), label
    # the result is made of fresh lists, never aliasing the input
    assert all(a is not b for a, b in zip(converted, nested)), label

    flat_s = through_json(flat)
    assert nested_json_to_flat_json(through_json(nested)) == flat_s, label
    # the template data helper alone
    assert template_data_nested_json_to_flat_json(nested[-2][-1]['value']) == flat[-2][-1], label
    return flat_s, nested_json_to_flat_json(through_json(nested))


# ---------------------------------------------------------------- sample files
SAMPLES = (
    'tests/data/contrived.bufr',
    'tests/data/207003.bufr',            # compressed with delayed replication
    'tests/data/rado_250.bufr',          # 222000, 224000, 236000
    'tests/data/profiler_european.bufr',  # 204001 associated fields
    'tests/data/uegabe.bufr',            # 204004 associated fields
    'tests/data/jaso_214.bufr',          # compressed, associated fields
    'tests/data/b002_95.bufr',           # skipped local descriptors
    'tests/data/ISMD01_OKPR.bufr',       # compressed strings
    'tests/data/prepbufr.bufr',
    'tests/benchmark_data/ocea_133.bufr',  # QA info attached to a replication factor
    'tests/benchmark_data/pilo_91.bufr',
    'tests/benchmark_data/temp_101.bufr',
    'tests/benchmark_data/ship_13.bufr',
    'tests/benchmark_data/b004_145.bufr',
)
for path in SAMPLES:
    with open(path, 'rb') as ins:
        original_bytes = ins.read()
    message = decoder.process(original_bytes)
    flat_s, converted_s = check_message(message, path)
    # encoding from what came out of the nested JSON gives the same bytes as from flat JSON
    if path.endswith(('contrived.bufr', '207003.bufr', 'ocea_133.bufr', 'uegabe.bufr')):
        b1 = encoder.process(json.dumps(flat_s)).serialized_bytes
        b2 = encoder.process(json.dumps(converted_s)).serialized_bytes
        assert b1 == b2, path

# ------------------------------------------------------------ synthetic shapes
CASES = {
    'strings_flags_zero_replication': (
        [1015, 2002, 102000, 31001, 12001, 1015, 20003],
        [[b'A "q" \'s\'  x\xe9\xff', 5, 2, 280.5, b"it's", None, b' lead', 3],
         [None, None, 0, None]]),
    'associated_fields': (
        [204008, 31021, 12001, 10004, 204000, 12001],
        [[1, 3, 280.5, None, 10000.0, 281.5]]),
    'data_not_present_221': (
        [221003, 4001, 12001, 4002, 12001],
        [[2020, 11, 280.0]]),
    'qa_on_elements_and_replication_factor': (
        [1001, 1002, 101000, 31001, 12001, 222000, 236000, 101005, 31031, 1031, 1032, 101005, 33007],
        [[1, 2, 2, 280.0, 281.0, 0, 0, 0, 0, 0, 0, 0, 98, 1, 70, 71, 72, 73, 74]]),
    'chained_attributes_first_order_stats': (
        [1001, 12001, 224000, 236000, 101002, 31031, 1031, 1032, 8023, 101002, 224255],
        [[1, 280.0, 0, 0, 0, 0, 98, 1, 4, 2, 281.0]]),
    'nested_replications': (
        [104002, 102000, 31001, 12001, 1015, 20003],
        [[1, 280.0, b'x y', 0, 3],
         [0, 2, 281.0, b'a', 282.0, b'b', None]]),
}
for name, (descriptors, subsets) in CASES.items():
    encoded = encoder.process(build(descriptors, subsets))
    message = decoder.process(encoded.serialized_bytes)
    flat_s, converted_s = check_message(message, name)
    assert encoder.process(json.dumps(converted_s)).serialized_bytes == encoded.serialized_bytes, name
    # every decoded value appears exactly once in the hierarchical view
    n_values = sum(len(v) for v in FlatJsonRenderer().render(message)[3][-1])
    assert sum(len(v) for v in converted_s[3][-1]) == n_values, name

# ------------------------------------------------------- hand-made nested JSON
assert nested_json_to_flat_json([]) == []
assert nested_json_to_flat_json([[], []]) == [[], []]
assert nested_json_to_flat_json([[{'name': 'a', 'value': 1}, {'name': 'b', 'value': [1, 2]}]]) == [[1, [1, 2]]]
assert nested_json_to_flat_json([[{'name': 'template_data', 'value': []}]]) == [[[]]]
assert nested_json_to_flat_json([[{'name': 'template_data', 'value': [[], []]}]]) == [[[[], []]]]
# a parameter merely *named* like something else keeps its value untouched (same object)
payload = [[{'id': '001001', 'value': 1}]]
assert nested_json_to_flat_json([[{'name': 'other', 'value': payload}]])[0][0] is payload

assert template_data_nested_json_to_flat_json([]) == []
assert template_data_nested_json_to_flat_json(()) == []
subset = [
    {'id': '201130', 'description': '201130'},                         # neither value nor members
    {'id': '001001', 'value': 7, 'attributes': []},
    {'id': '012001', 'value': 1.5, 'attributes': [
        {'id': 'A12001', 'value': 3, 'attributes': [{'id': '031021', 'value': 9, 'virtual': True}]},
        {'id': '033007', 'value': 70, 'virtual': True},
        {'id': 'A12001', 'value': None},
    ]},
    {'id': '301001', 'members': [{'id': '001002', 'value': 8}, {'id': '301002', 'members': []}]},
    {'id': '103000', 'factor': {'id': '031001', 'value': 0}, 'members': []},
    {'id': '101000',
     'factor': {'id': '031001', 'value': 2, 'attributes': [
         {'id': '033007', 'value': 50, 'virtual': False},          # the key counts, not its value
         {'id': 'A31001', 'value': 4}]},
     'members': [[{'id': '001003', 'value': 'a'}], [{'id': '001003', 'value': 'b'}]]},
    {'id': '102002', 'members': [[{'id': '1', 'members': [[{'id': 'x', 'value': 10}], []]}], []]},
    {'id': '999999', 'factor': {'id': '031001', 'value': 99}},          # factor without members
    {'id': '', 'members': [{'id': '001004', 'value': 11}]},             # empty id is not a replication
]
expected = [7, 3, None, 1.5, 8, 0, 4, 2, 'a', 'b', 10, 99, 11]
subset_before = copy.deepcopy(subset)
assert template_data_nested_json_to_flat_json([subset, []]) == [expected, []]
assert template_data_nested_json_to_flat_json(iter([subset])) == [expected]
assert template_data_nested_json_to_flat_json([tuple(subset)]) == [expected]
assert subset == subset_before


# ------------------------------------------------------------------ error cases
def raises(exc_type, func, *args):
    try:
        func(*args)
    except Exception as e:
        assert type(e) is exc_type, (type(e), e)
        return e
    raise AssertionError('no exception')


assert raises(KeyError, nested_json_to_flat_json, [[{'value': 1}]]).args == ('name',)
assert raises(KeyError, nested_json_to_flat_json, [[{}]]).args == ('name',)
assert raises(KeyError, nested_json_to_flat_json, [[{'name': 'x'}]]).args == ('value',)
assert raises(KeyError, nested_json_to_flat_json, [[{'name': 'template_data'}]]).args == ('value',)
raises(TypeError, nested_json_to_flat_json, [[1]])
raises(TypeError, nested_json_to_flat_json, [['BUFR', 10, 4]])      # flat JSON given for nested JSON
raises(TypeError, nested_json_to_flat_json, [1])
raises(TypeError, nested_json_to_flat_json, None)
raises(TypeError, nested_json_to_flat_json, [[{'name': 'template_data', 'value': None}]])
raises(TypeError, nested_json_to_flat_json, [[{'name': 'template_data', 'value': [1]}]])
raises(TypeError, template_data_nested_json_to_flat_json, [[1]])
raises(TypeError, template_data_nested_json_to_flat_json, 5)
raises(AttributeError, template_data_nested_json_to_flat_json, [[['value']]])   # list has no .get
raises(AttributeError, template_data_nested_json_to_flat_json, [['value']])      # str has no .get
assert raises(KeyError, template_data_nested_json_to_flat_json,
              [[{'id': '001001', 'value': 1, 'attributes': [{'id': 'A01001'}]}]]).args == ('value',)
raises(TypeError, template_data_nested_json_to_flat_json,
       [[{'id': '001001', 'value': 1, 'attributes': None}]])
raises(TypeError, template_data_nested_json_to_flat_json,
       [[{'id': '001001', 'value': 1, 'attributes': [3]}]])
assert raises(KeyError, template_data_nested_json_to_flat_json, [[{'members': []}]]).args == ('id',)
assert raises(KeyError, template_data_nested_json_to_flat_json,
              [[{'id': '101000', 'factor': {'id': '031001'}, 'members': []}]]).args == ('value',)
raises(AttributeError, template_data_nested_json_to_flat_json, [[{'id': 101000, 'members': []}]])
raises(TypeError, template_data_nested_json_to_flat_json, [[{'id': '101000', 'members': [1]}]])
raises(TypeError, template_data_nested_json_to_flat_json, [[{'id': '301000', 'members': 1}]])
raises(AttributeError, template_data_nested_json_to_flat_json, [[{'id': '301000', 'factor': [], 'members': []}]])

print('demo 1 OK')
