"""Demo for refactor 1: the character state machine of process_embedded_query_expr.

Scripts are assembled from fragments whose expected treatment is known by
construction (code, quoted literals, comments, embedded expressions), so the
expected output is built next to the input, independently of the library.
"""
import os, sys; sys.path.insert(0, os.getcwd())
import itertools
import random

import pybufrkit
from pybufrkit.script import process_embedded_query_expr

assert os.path.abspath(pybufrkit.__file__).startswith(os.getcwd()), pybufrkit.__file__

# (kind, text, trimmed expression or None)
CODE = [('code', t, None) for t in ['a = ', ' + ', '\n', 'x$y', '$ {q}', '$$', 'f(1)}', '{', '$']]
LITERALS = [('lit', t, None) for t in [
    "'plain'", '"plain"', "''", '""', "'${001001}'", '"${%length}"', "'#'", '"# ${a}"',
    "'say \"hi\" ${b}'", '"it\'s # ${c}"', "'two\nlines ${d}'"]]
COMMENTS = [('comment', t, None) for t in [
    '# note\n', '#\n', '# ${%length}\n', "# it's ${001001}\n", '# "open ${a}\n', '## ${b} #\n']]
EMBEDS = [('embed', '${' + pad_l + e + pad_r + '}', e)
          for e in ['%length', '001001', '@[0] > 008002', '/105002/102000/008002', "a'b", 'a"b', 'a#b', 'a\nb', '$x', '${y', '%n_subsets']
          for pad_l, pad_r in [('', ''), (' ', ''), ('', '  '), ('\t', '\n')]]
POOL = CODE + LITERALS + COMMENTS + EMBEDS


def expected_of(fragments):
    out, names = [], {}
    for kind, text, expr in fragments:
        if kind == 'embed':
            if expr not in names:
                names[expr] = 'PBK_%d' % len(names)
            out.append(names[expr])
        else:
            out.append(text)
    return ''.join(out), names


def joinable(prev, cur):
    # A code fragment ending in '$' directly followed by something starting
    # with '{' would itself form an embedded expression: keep those apart.
    return not (prev[0] == 'code' and prev[1].endswith('$') and cur[1].startswith('{'))


def check(fragments):
    for p, c in zip(fragments, fragments[1:]):
        if not joinable(p, c):
            return 0
    script = ''.join(f[1] for f in fragments)
    exp_code, exp_subs = expected_of(fragments)
    code, subs = process_embedded_query_expr(script)
    assert code == exp_code, (script, code, exp_code)
    assert subs == exp_subs, (script, subs, exp_subs)
    assert list(subs.items()) == list(exp_subs.items()), (script, subs)
    assert type(code) is str and type(subs) is dict
    # distinct expressions have distinct names
    assert len(set(subs.values())) == len(subs)
    return 1


n = 0
# every ordering of up to three fragments of a reduced pool
small = CODE[:5] + LITERALS[4:9] + COMMENTS[2:5] + EMBEDS[0:8:3] + EMBEDS[16:28:5]
for size in range(0, 4):
    for frags in itertools.product(small, repeat=size):
        n += check(list(frags))
# long random scripts over the whole pool
rnd = random.Random(18)
for _ in range(20000):
    n += check([rnd.choice(POOL) for _ in range(rnd.randint(1, 25))])
assert n > 20000, n

# A comment that is the last thing of the script needs no line feed
assert process_embedded_query_expr('x = ${a} # ${a}') == ('x = PBK_0 # ${a}', {'a': 'PBK_0'})
# A line feed ends the comment, not the quote
assert process_embedded_query_expr("#'\n${a}") == ("#'\nPBK_0", {'a': 'PBK_0'})
assert process_embedded_query_expr("'#\n${a}'${a}") == ("'#\n${a}'PBK_0", {'a': 'PBK_0'})
# A quote of the other kind does not close a literal
assert process_embedded_query_expr("'\"${a}'${b}\"${c}\"") == ("'\"${a}'PBK_0\"${c}\"", {'b': 'PBK_0'})
# Fixed examples of the test-suite
assert process_embedded_query_expr('length = ${%length}; v = ${001001}')[0] == 'length = PBK_0; v = PBK_1'
assert process_embedded_query_expr('length = ${%length}\nanother_length = ${ %length }') == (
    'length = PBK_0\nanother_length = PBK_0', {'%length': 'PBK_0'})

# Edge cases of the dollar sign
assert process_embedded_query_expr('') == ('', {})
assert process_embedded_query_expr('$') == ('$', {})
assert process_embedded_query_expr('a$') == ('a$', {})
assert process_embedded_query_expr('$$$') == ('$$$', {})
assert process_embedded_query_expr('$${a}') == ('$PBK_0', {'a': 'PBK_0'})
assert process_embedded_query_expr('${a}${b}${a}') == ('PBK_0PBK_1PBK_0', {'a': 'PBK_0', 'b': 'PBK_1'})
# The empty / blank expression is an expression as any other
assert process_embedded_query_expr('${}+${ }+${x}') == ('PBK_0+PBK_0+PBK_1', {'': 'PBK_0', 'x': 'PBK_1'})
# An expression that is never closed is dropped together with the rest
assert process_embedded_query_expr('a = ${001001') == ('a = ', {})
assert process_embedded_query_expr('${') == ('', {})
assert process_embedded_query_expr('a${b}c${d # \'e\n') == ('aPBK_0c', {'b': 'PBK_0'})
# Many expressions: numbering follows first appearance
many = ''.join('${e%d},' % (i % 13) for i in range(40))
code, subs = process_embedded_query_expr(many)
assert code == ''.join('PBK_%d,' % (i % 13) for i in range(40))
assert subs == {'e%d' % i: 'PBK_%d' % i for i in range(13)}

# Error cases: things that are not text
for bad, exc in [(None, TypeError), (5, TypeError), (b'a${x}', TypeError)]:
    try:
        process_embedded_query_expr(bad)
    except exc:
        pass
    else:
        raise AssertionError('no %s for %r' % (exc.__name__, bad))
# A sequence of one-character strings is scanned like the string itself
assert process_embedded_query_expr(list("a'${x}'${x}")) == ("a'${x}'PBK_0", {'x': 'PBK_0'})

print('demo 1 ok, %d assembled scripts' % n)
