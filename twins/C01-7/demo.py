"""
Refactor 7 - differential demonstration.

Messages with bitmaps are laid out by hand (bit strings written by the small
encoder below, which knows nothing of pybufrkit), so the labels, values and
bitmap links that FM-94 assigns to them are known beforehand.  They are decoded
with the walking decoder and with the decoder that runs compiled templates,
and encoded back with the Encoder (whose define_bitmap shares the bookkeeping).
Real files with 222000 / 224000 / 236000 / 237000 are compared with digests
recorded on the unpatched tree.

Exit status 0 = everything as expected.
"""
import os, sys; sys.path.insert(0, os.getcwd())

import copy
import hashlib
import logging

# ---------------------------------------------------------------------------
# A tiny hand encoder of BUFR messages, independent of pybufrkit
# ---------------------------------------------------------------------------
from fractions import Fraction


def ubits(width, value):
    """`value` as an unsigned big endian bit string of `width` bits"""
    if width == 0:
        assert value == 0
        return ''
    assert 0 <= value < (1 << width), (width, value)
    return format(value, '0{}b'.format(width))


def pack(bits):
    bits += '0' * (-len(bits) % 8)
    return bytes(bytearray(int(bits[i:i + 8], 2) for i in range(0, len(bits), 8)))


def uint_bytes(nbytes, value):
    return pack(ubits(8 * nbytes, value))


class F(object):
    """
    One field of a subset: its label, how it is laid out and the value FM-94
    assigns to it.  kind: 'u' unsigned integer of `width` bits (raw None = all
    ones), 's' `width` octets of text, 'c' no bits at all (an operator that
    only shows up with a constant), 'r' sign and magnitude integer.
    """

    def __init__(self, label, kind, width, raw, value):
        self.label, self.kind, self.width, self.raw, self.value = label, kind, width, raw, value

    def bits(self):
        if self.kind == 'c':
            return ''
        if self.kind == 's':
            assert len(self.raw) == self.width
            return ''.join(ubits(8, c) for c in bytearray(self.raw))
        if self.kind == 'r':
            return ('1' if self.raw < 0 else '0') + ubits(self.width - 1, abs(self.raw))
        return ubits(self.width, (1 << self.width) - 1 if self.raw is None else self.raw)


def num(label, width, scale, ref, raw):
    """Numeric element: (raw + ref) / 10 ** scale; all ones (width > 1) is missing"""
    if raw is None or (width > 1 and raw == (1 << width) - 1):
        return F(label, 'u', width, raw, None)
    if scale == 0:
        return F(label, 'u', width, raw, raw + ref)
    return F(label, 'u', width, raw, float(Fraction(raw + ref) / Fraction(10) ** scale))


def code(label, width, raw):
    """Code / flag table, associated field, skipped local descriptor: the integer itself"""
    if raw is None or (width > 1 and raw == (1 << width) - 1):
        return F(label, 'u', width, raw, None)
    return F(label, 'u', width, raw, raw)


def const(label):
    return F(label, 'c', 0, None, 0)


def text(label, nbytes, raw):
    return F(label, 's', nbytes, raw, raw)


def refval(label, width, raw):
    return F(label, 'r', width, raw, raw)


def uncompressed_data(subsets):
    return ''.join(f.bits() for fields in subsets for f in fields)


def compressed_data(subsets, widths=None):
    """
    Column by column: minimum, six bits of increment width, one increment per
    subset.  `widths` can force the increment width of a column (by index).
    """
    widths = widths or {}
    out = []
    for idx, column in enumerate(zip(*subsets)):
        f = column[0]
        assert all((g.label, g.kind, g.width) == (f.label, f.kind, f.width) for g in column)
        if f.kind == 'c':
            continue
        if f.kind == 'r':
            assert all(g.raw == f.raw for g in column)
            out.append(f.bits() + ubits(6, 0))
        elif f.kind == 's':
            if all(g.raw == f.raw for g in column) and idx not in widths:
                out.append(f.bits() + ubits(6, 0))
            else:
                # the minimum is sent as zero octets, the increments are the full texts
                out.append('0' * (8 * f.width) + ubits(6, f.width) + ''.join(g.bits() for g in column))
        else:
            allones = (1 << f.width) - 1
            raws = [None if (g.raw is None or (f.width > 1 and g.raw == allones)) else g.raw for g in column]
            present = [r for r in raws if r is not None]
            if not present:
                out.append(ubits(f.width, allones) + ubits(6, 0))
                continue
            low = min(present)
            span = max(present) - low
            if idx in widths:
                nbits = widths[idx]
            elif span == 0 and len(present) == len(raws):
                nbits = 0
            else:
                nbits = 1
                while span >= (1 << nbits) - 1:  # all ones is taken by "missing"
                    nbits += 1
            out.append(ubits(f.width, low) + ubits(6, nbits) + ''.join(
                ubits(nbits, (1 << nbits) - 1 if r is None else r - low) for r in raws))
    return ''.join(out)


def message(descriptors, n_subsets, compressed, data_bits, edition=4, tables_version=25):
    sec3 = b'\0' + uint_bytes(2, n_subsets) + uint_bytes(1, 0x80 | (0x40 if compressed else 0))
    sec3 += b''.join(pack(ubits(2, d // 100000) + ubits(6, d // 1000 % 100) + ubits(8, d % 1000))
                     for d in descriptors)
    sec4 = b'\0' + pack(data_bits)
    if edition == 4:
        sec1 = (b'\0' + uint_bytes(2, 1) + uint_bytes(2, 0) + b'\0' + b'\0' + b'\0\0\0' +
                uint_bytes(1, tables_version) + b'\0' + uint_bytes(2, 2020) + b'\x01\x01\0\0\0')
    else:
        assert edition == 3
        sec1 = (b'\0' + b'\0' + uint_bytes(1, 1) + b'\0' + b'\0' + b'\0\0' +
                uint_bytes(1, tables_version) + b'\0' + b'\x14\x01\x01\0\0' + b'\0')
        sec3 += b'\0' * ((len(sec3) + 3) % 2)
        sec4 += b'\0' * ((len(sec4) + 3) % 2)
    body = b''.join(uint_bytes(3, len(s) + 3) + s for s in (sec1, sec3, sec4))
    return b'BUFR' + uint_bytes(3, 8 + len(body) + 4) + uint_bytes(1, edition) + body + b'7777'


# ---------------------------------------------------------------------------
# The demonstration
# ---------------------------------------------------------------------------
logging.disable(logging.CRITICAL)

from pybufrkit.decoder import Decoder  # noqa: E402
from pybufrkit.encoder import Encoder  # noqa: E402
from pybufrkit.errors import PyBufrKitError  # noqa: E402
from pybufrkit.renderer import FlatJsonRenderer  # noqa: E402
import pybufrkit.coder as coder_module  # noqa: E402

assert os.path.dirname(os.path.abspath(coder_module.__file__)) == os.path.join(os.getcwd(), 'pybufrkit'), \
    'not the worktree copy of pybufrkit'

failures = []
n_checks = [0]


def check(name, got, want):
    n_checks[0] += 1
    if got != want:
        failures.append(name)
        print('FAIL {}\n   got  {!r}\n   want {!r}'.format(name, got, want))


def outcome(func):
    try:
        return 'ok', func()
    except Exception as e:  # the type is what is compared
        return type(e).__name__, None


def decoders():
    return (('walk', Decoder()), ('compiled', Decoder(compiled_template_cache_max=8)),)


def expect_ok(name, descriptors, subsets, links, compressed, edition=4, roundtrip=True):
    """Decode (both ways) and compare labels, values, types of the values and bitmap links"""
    data = compressed_data(subsets) if compressed else uncompressed_data(subsets)
    s = message(descriptors, len(subsets), compressed, data, edition=edition)
    name = '{} [{}, ed.{}]'.format(name, 'compressed' if compressed else 'uncompressed', edition)
    for how, decoder in decoders():
        for attempt in (1, 2):  # the second one runs the cached compiled template
            status, m = outcome(lambda: decoder.process(s))
            check('{} {} #{} decodes'.format(name, how, attempt), status, 'ok')
            if status != 'ok':
                continue
            td = m.template_data.value
            check('{} {} n_subsets'.format(name, how), len(td.decoded_values_all_subsets), len(subsets))
            for i, fields in enumerate(subsets):
                check('{} {} labels of subset {}'.format(name, how, i),
                      [str(d) for d in td.decoded_descriptors_all_subsets[i]], [f.label for f in fields])
                check('{} {} values of subset {}'.format(name, how, i),
                      [(type(v).__name__, v) for v in td.decoded_values_all_subsets[i]],
                      [(type(f.value).__name__, f.value) for f in fields])
                check('{} {} links of subset {}'.format(name, how, i),
                      dict(td.bitmap_links_all_subsets[i]), links[i])
            if roundtrip and how == 'walk' and attempt == 1:
                status, encoded = outcome(
                    lambda: Encoder().process(copy.deepcopy(FlatJsonRenderer().render(m))))
                check('{} encodes back'.format(name), status, 'ok')
                if status == 'ok':
                    if not compressed:  # (the Encoder is free in its choice of increment widths)
                        check('{} encoded bytes'.format(name), encoded.serialized_bytes, s)
                    again = Decoder().process(encoded.serialized_bytes).template_data.value
                    check('{} encoded and decoded again'.format(name), again.decoded_values_all_subsets,
                          [[f.value for f in fields] for fields in subsets])
                    check('{} encoder links'.format(name),
                          [dict(x) for x in encoded.template_data.value.bitmap_links_all_subsets], links)


def expect_error(name, descriptors, subsets, compressed, error):
    data = compressed_data(subsets) if compressed else uncompressed_data(subsets)
    s = message(descriptors, len(subsets), compressed, data)
    name = '{} [{}]'.format(name, 'compressed' if compressed else 'uncompressed')
    for how, decoder in decoders():
        check('{} {} fails'.format(name, how), outcome(lambda: decoder.process(s))[0], error)


# Table B, version 25: label tail, width, scale, reference
E01001 = ('01001', 7, 0, 0)
E01002 = ('01002', 10, 0, 0)
E12001 = ('12001', 12, 1, 0)
E11001 = ('11001', 9, 0, 0)


def element(e, raw):
    return num('0' + e[0], e[1], e[2], e[3], raw)


def marker(prefix, e, raw):
    """Substituted / first order statistics / replaced value: the element's own Table B entry"""
    return num(prefix + e[0], e[1], e[2], e[3], raw)


def difference(e, raw):
    """225255: one bit more and a reference value of -2 ** width"""
    return num('D' + e[0], e[1] + 1, e[2], -2 ** e[1], raw)


def bitmap(bits):
    return [code('031031', 1, b) for b in bits]


def selected(elements, bits):
    return [(i, e) for i, (e, b) in enumerate(zip(elements, bits)) if b == 0]


# ---------------------------------------------------------------------------
# A: 222000 with a bitmap that is not for reuse, class 33 values linked
# ---------------------------------------------------------------------------
A_DESCRIPTORS = [1001, 1002, 12001, 222000, 101003, 31031, 1031, 1032, 33007, 33007]


def layout_a(blk, stn, t, qa):
    return ([element(E01001, blk), element(E01002, stn), element(E12001, t), const('222000')] +
            bitmap([0, 1, 0]) +
            [code('001031', 16, 98), code('001032', 8, 5),
             num('033007', 7, 0, 0, qa[0]), num('033007', 7, 0, 0, qa[1])])


A_SUBSETS = [layout_a(12, 345, 2731, (50, 60)), layout_a(13, None, 2801, (None, 70)),
             layout_a(0, 1022, 0, (126, 0))]
A_LINKS = [{9: 0, 10: 2}] * 3
for compressed in (False, True):
    for edition in (4, 3):
        expect_ok('A', A_DESCRIPTORS, A_SUBSETS, A_LINKS, compressed, edition)

# ---------------------------------------------------------------------------
# B: 236000 defines for reuse; 237000 recalls (also after another bitmap has
#    been defined not for reuse); all marker operators; 237255 cancels
# ---------------------------------------------------------------------------
B_DESCRIPTORS = [1001, 1002, 12001,
                 222000, 236000, 101003, 31031, 1031, 1032, 33007, 33007,
                 224000, 237000, 8023, 224255, 224255,
                 225000, 101003, 31031, 8024, 225255,
                 223000, 237000, 223255, 223255,
                 232000, 237000, 232255, 232255]
B_ELEMENTS = [E01001, E01002, E12001]


def layout_b(raws, reuse_bits, other_bits, qa, first, diff, subst, repl, tail):
    """`tail`: labels of the operators that follow (each one is a constant)"""
    reused = selected(B_ELEMENTS, reuse_bits)
    other = selected(B_ELEMENTS, other_bits)
    assert len(reused) == 2 and len(other) == 1
    fields = [element(e, r) for e, r in zip(B_ELEMENTS, raws)]
    links = {}

    def linked(new_fields, targets):
        for f, (i, _) in zip(new_fields, targets):
            links[len(fields)] = i
            fields.append(f)

    fields += [const('222000'), const('236000')] + bitmap(reuse_bits)
    fields += [code('001031', 16, 98), code('001032', 8, 5)]
    linked([num('033007', 7, 0, 0, q) for q in qa], reused)
    fields += [const('224000'), const('237000'), code('008023', 6, 4)]
    linked([marker('F', e, r) for (_, e), r in zip(reused, first)], reused)
    fields += [const('225000')] + bitmap(other_bits) + [code('008024', 6, 2)]
    linked([difference(e, r) for (_, e), r in zip(other, diff)], other)
    fields += [const('223000'), const('237000')]
    linked([marker('T', e, r) for (_, e), r in zip(reused, subst)], reused)
    fields += [const('232000'), const('237000')]
    linked([marker('R', e, r) for (_, e), r in zip(reused, repl)], reused)
    fields += [const(label) for label in tail]
    return fields, links


def case_b(tail, same_bitmaps):
    one = layout_b((12, 345, 2731), [0, 1, 0], [1, 0, 1], (50, 60), (11, 2700), (1024 - 5,), (14, 2755), (1, None),
                   tail)
    if same_bitmaps:
        two = layout_b((99, 0, 4094), [0, 1, 0], [1, 0, 1], (None, 0), (98, None), (2046,), (0, 0), (126, 4094), tail)
    else:
        # every subset is a fresh application of the template: other bitmaps, other elements marked
        two = layout_b((99, 0, 4094), [1, 0, 0], [0, 1, 1], (None, 0), (5, None), (0,), (1022, 0), (None, 4094), tail)
    return [one[0], two[0]], [one[1], two[1]]


subsets, links = case_b(['237255'], same_bitmaps=False)
check('B: links as laid out by hand (subset 0)', links[0],
      {10: 0, 11: 2, 15: 0, 16: 2, 22: 1, 25: 0, 26: 2, 29: 0, 30: 2})
check('B: a difference statistic below zero', subsets[0][22].value, -5)
expect_ok('B', B_DESCRIPTORS + [237255], subsets, links, compressed=False)
expect_ok('B', B_DESCRIPTORS + [237255], subsets, links, compressed=False, edition=3)
subsets, links = case_b(['237255'], same_bitmaps=True)
expect_ok('B', B_DESCRIPTORS + [237255], subsets, links, compressed=True)

for compressed in (False, True):
    # still there for a further recall as long as it is not cancelled ...
    subsets, links = case_b(['223000', '237000'], same_bitmaps=True)
    for fields, lk in zip(subsets, links):
        lk[len(fields)] = 0
        fields.append(marker('T', E01001, 77))
    expect_ok('B + recall', B_DESCRIPTORS + [223000, 237000, 223255], subsets, links, compressed)
    # ... and gone afterwards
    subsets, links = case_b(['237255', '223000'], same_bitmaps=True)
    expect_error('B + cancel + recall', B_DESCRIPTORS + [237255, 223000, 237000, 223255], subsets, compressed,
                 'PyBufrKitError')
    # 237 with any other operand cancels as well
    subsets, links = case_b(['237001', '223000'], same_bitmaps=True)
    expect_error('B + 237001 + recall', B_DESCRIPTORS + [237001, 223000, 237000, 223255], subsets, compressed,
                 'PyBufrKitError')
    # 236 is a constant whatever its operand, and out of an indicator's reach it defines nothing
    subsets, links = case_b(['237255', '236000', '236001'], same_bitmaps=True)
    expect_ok('B + 236000 236001', B_DESCRIPTORS + [237255, 236000, 236001], subsets, links, compressed,
              roundtrip=False)
    subsets, links = case_b(['237255', '236000', '223000'], same_bitmaps=True)
    expect_error('B + cancel + 236000 + recall', B_DESCRIPTORS + [237255, 236000, 223000, 237000, 223255], subsets,
                 compressed, 'PyBufrKitError')

# ---------------------------------------------------------------------------
# D: 235000 cancels the back references: the next bitmap counts back anew
# ---------------------------------------------------------------------------


def layout_d(with_235, raws, stat):
    fields = [element(E01001, raws[0]), element(E12001, raws[1]), const('222000')] + bitmap([0, 0])
    fields += [num('033007', 7, 0, 0, 40), num('033007', 7, 0, 0, 41)]
    fields += [element(E01002, raws[2]), element(E11001, raws[3]), const('224000')] + bitmap([0, 1])
    fields += [code('008023', 6, 10)]
    fields += [marker('F', E01002 if with_235 else E01001, stat)]
    return fields


for with_235 in (True, False):
    descriptors = ([1001, 12001, 222000, 101002, 31031, 33007, 33007] + ([235000] if with_235 else []) +
                   [1002, 11001, 224000, 101002, 31031, 8023, 224255])
    subsets = [layout_d(with_235, (1, 2000, 1000, 359), 100), layout_d(with_235, (2, 2001, 1000, 360), 101)]
    links = [{5: 0, 6: 1, 13: 7 if with_235 else 0}] * 2
    for compressed in (False, True):
        expect_ok('D with 235000' if with_235 else 'D without 235000', descriptors, subsets, links, compressed)

# 235000 also drops the bitmap that was defined for reuse; with another operand just the same
for op in (235000, 235255):
    for compressed in (False, True):
        fields = [element(E01001, 5), const('222000'), const('236000')] + bitmap([0]) + [num('033007', 7, 0, 0, 1)]
        expect_error('D2 {} then recall'.format(op), [1001, 222000, 236000, 101001, 31031, 33007, op, 223000, 237000],
                     [fields + [const('223000')]] * 2, compressed, 'PyBufrKitError')
        # without it the recall works
        expect_ok('D2 recall', [1001, 222000, 236000, 101001, 31031, 33007, 223000, 237000, 223255],
                  [fields + [const('223000'), const('237000'), marker('T', E01001, 6)]] * 2,
                  [{4: 0, 7: 0}] * 2, compressed)

# ---------------------------------------------------------------------------
# E: what cannot be decoded
# ---------------------------------------------------------------------------
for compressed in (False, True):
    one = [element(E01001, 5), const('222000')] + bitmap([0, 0]) + [num('033007', 7, 0, 0, 1)]
    expect_error('E bitmap longer than what precedes it', [1001, 222000, 101002, 31031, 33007], [one, one],
                 compressed, 'PyBufrKitError')
    expect_error('E recall, nothing ever defined', [1001, 223000, 237000, 223255],
                 [[element(E01001, 5), const('223000')]] * 2, compressed, 'PyBufrKitError')
    # a bitmap not for reuse cannot be recalled
    one = [element(E01001, 5), const('222000')] + bitmap([0]) + [num('033007', 7, 0, 0, 1), const('223000')]
    expect_error('E recall of a bitmap not for reuse', [1001, 222000, 101001, 31031, 33007, 223000, 237000, 223255],
                 [one, one], compressed, 'PyBufrKitError')
    expect_error('E marker without bitmap', [1001, 224255], [[element(E01001, 5)]] * 2, compressed, 'TypeError')
    one = [element(E01001, 5), const('224000')] + bitmap([0]) + [code('008023', 6, 4), marker('F', E01001, 6)]
    expect_error('E more markers than bits', [1001, 224000, 101001, 31031, 8023, 224255, 224255], [one, one],
                 compressed, 'StopIteration')
    expect_error('E operator that is not implemented', [1001, 241000], [[element(E01001, 5)]] * 2, compressed,
                 'NotImplementedError')

# ---------------------------------------------------------------------------
# F: nothing is carried over from one subset to the next (uncompressed)
# ---------------------------------------------------------------------------
F_DESCRIPTORS = [106000, 31001, 1001, 222000, 236000, 101001, 31031, 33007, 223000, 237000, 223255]


def layout_f(count, blk):
    fields = [num('031001', 8, 0, 0, count)]
    if count:
        fields += [element(E01001, blk), const('222000'), const('236000')] + bitmap([0]) + [num('033007', 7, 0, 0, 9)]
    return fields + [const('223000')] + ([const('237000'), marker('T', E01001, blk + 1)] if count else [])


expect_ok('F', F_DESCRIPTORS, [layout_f(1, 3), layout_f(1, 4)], [{5: 1, 8: 1}] * 2, compressed=False)
expect_ok('F', F_DESCRIPTORS, [layout_f(1, 3), layout_f(1, 4)], [{5: 1, 8: 1}] * 2, compressed=True)
expect_error('F second subset defines nothing', F_DESCRIPTORS, [layout_f(1, 3), layout_f(0, 0)], False,
             'PyBufrKitError')
# ... although a lone subset of that kind is fine up to the recall
expect_error('F only subset defines nothing', F_DESCRIPTORS, [layout_f(0, 0)], False, 'PyBufrKitError')

# ---------------------------------------------------------------------------
# G: the state object driven directly, the way the coders drive it
# ---------------------------------------------------------------------------
from pybufrkit.coder import CoderState  # noqa: E402
from pybufrkit.descriptors import ElementDescriptor, OperatorDescriptor  # noqa: E402

BITMAP_REGISTERS = ('bitmap', 'bitmapped_descriptors', 'bitmap_definition_state',
                    'most_recent_bitmap_is_for_reuse', 'n_031031', 'next_bitmapped_descriptor',
                    'back_reference_boundary', 'back_referenced_descriptors')
PRISTINE = (None, None, 0, False, 0, None, 0, None)
ALL_ATTRIBUTES = sorted(BITMAP_REGISTERS + (
    'is_compressed', 'n_subsets', 'idx_subset', 'decoded_descriptors_all_subsets', 'bitmap_links_all_subsets',
    'decoded_descriptors', 'bitmap_links', 'decoded_values_all_subsets', 'decoded_values', 'idx_value',
    'nbits_offset', 'scale_offset', 'nbits_of_new_refval', 'new_refvals', 'nbits_of_associated',
    'nbits_of_skipped_local_descriptor', 'bsr_modifier', 'new_nbytes', 'data_not_present_count',
    'status_qa_info_follows'))


def registers(state):
    return tuple(getattr(state, name) for name in BITMAP_REGISTERS)


class Stub(object):
    def __init__(self, id_):
        self.id = id_


for is_compressed in (False, True):
    for coder in (Decoder(), Encoder()):
        tag = 'G {} {}'.format(type(coder).__name__, 'compressed' if is_compressed else 'uncompressed')
        state = CoderState(is_compressed, 2)
        check(tag + ' attributes', sorted(vars(state)), ALL_ATTRIBUTES)
        check(tag + ' pristine', registers(state), PRISTINE)
        eds = [ElementDescriptor(1001 + i, 'n', 'Numeric', 0, 0, 7, 'Numeric', 0, 2) for i in range(3)]
        state.decoded_descriptors.extend(eds + [OperatorDescriptor(222000)])
        values = state.decoded_values_all_subsets[0] if is_compressed else state.decoded_values
        values.extend([1, 2, 3, 0])
        check(tag + ' recall, nothing defined', outcome(state.recall_bitmap)[0], 'PyBufrKitError')

        # the definition state machine: indicator, (236000), 031031 ..., something else
        state.bitmap_definition_state = 1
        state.mark_back_reference_boundary()
        state.back_reference_boundary -= 1  # as marked by the coder, in front of the 222000
        for id_, want in ((236000, (True, 4, 0)), (101003, (True, 4, 0)), (31031, (True, 5, 1)),
                          (31031, (True, 5, 2)), (31031, (True, 5, 3))):
            coder.process_bitmap_definition(state, None, Stub(id_))
            check('{} after {}'.format(tag, id_), (state.most_recent_bitmap_is_for_reuse,
                                                 state.bitmap_definition_state, state.n_031031), want)
        values.extend([0, 1, 0])
        state.decoded_descriptors.extend([Stub(31031)] * 3)
        state.idx_value = len(values)  # the Encoder counts, the Decoder looks at the end
        coder.process_bitmap_definition(state, None, Stub(1031))
        check(tag + ' defined', (state.bitmap_definition_state, state.bitmap, state.bitmapped_descriptors,
                                 state.back_referenced_descriptors),
              (0, [0, 1, 0], [(0, eds[0]), (2, eds[2])], [(0, eds[0]), (1, eds[1]), (2, eds[2])]))
        check(tag + ' next', [state.next_bitmapped_descriptor(), state.next_bitmapped_descriptor()],
              [(0, eds[0]), (2, eds[2])])
        check(tag + ' exhausted', outcome(state.next_bitmapped_descriptor)[0], 'StopIteration')

        # another one, not for reuse: 237000 still recalls the first
        state.bitmap_definition_state = 1
        for id_, want in ((101003, (False, 4, 0)), (1031, (False, 4, 0)), (31031, (False, 5, 1)),
                          (31031, (False, 5, 2)), (31031, (False, 5, 3))):
            coder.process_bitmap_definition(state, None, Stub(id_))
            check('{} second, after {}'.format(tag, id_), (state.most_recent_bitmap_is_for_reuse,
                                                         state.bitmap_definition_state, state.n_031031), want)
        values.extend([1, 1, 0])
        state.idx_value = len(values)
        check(tag + ' define_bitmap returns the bitmap', coder.define_bitmap(state, False), [1, 1, 0])
        check(tag + ' second', (state.bitmap, state.bitmapped_descriptors), ([0, 1, 0], [(2, eds[2])]))
        # 237000 behind an indicator ends the definition at once
        state.bitmap_definition_state = 1
        coder.process_bitmap_definition(state, None, Stub(237000))
        check(tag + ' 237000 behind an indicator', (state.most_recent_bitmap_is_for_reuse,
                                                    state.bitmap_definition_state, state.n_031031), (False, 0, 3))
        check(tag + ' recall returns the bitmap', state.recall_bitmap(), [0, 1, 0])
        check(tag + ' recalled', (state.bitmap, state.bitmapped_descriptors, state.next_bitmapped_descriptor()),
              ([0, 1, 0], [(0, eds[0]), (2, eds[2])], (0, eds[0])))
        # a bitmap of another length does not fit the back references that are kept
        values.extend([0, 0])
        state.idx_value = len(values)
        state.n_031031 = 2
        check(tag + ' misfit', outcome(lambda: coder.define_bitmap(state, True))[0], 'PyBufrKitError')
        check(tag + ' misfit is kept for reuse all the same', state.bitmap, [0, 0])
        check(tag + ' cancel', (state.cancel_bitmap(), state.bitmap, state.bitmapped_descriptors),
              (None, None, [(0, eds[0]), (2, eds[2])]))
        check(tag + ' recall, cancelled', outcome(state.recall_bitmap)[0], 'PyBufrKitError')
        state.cancel_all_back_references()
        check(tag + ' 235000', (state.bitmap, state.bitmapped_descriptors, state.back_referenced_descriptors,
                                state.back_reference_boundary), (None, None, None, 3))
        state.bitmap_definition_state = 5
        state.most_recent_bitmap_is_for_reuse = True
        state.switch_subset_context(1)
        check(tag + ' next subset', registers(state), PRISTINE)
        check(tag + ' attributes afterwards', sorted(vars(state)), ALL_ATTRIBUTES)

# ---------------------------------------------------------------------------
# H: real messages
# ---------------------------------------------------------------------------
DIGESTS = {  # recorded on the unpatched tree
    'amv2_87': 'fb1c815e690eddb69f35fb3066149c88e488160c',  # compressed, 222000 236000 237000
    'asr3_190': '4db8bd63f6bf8e87ae73d0fcc473ba5dc640ff14',  # compressed, 222000 224000 224255 236000 237000
    'b005_89': 'f43cae715d7aa3dedc4194205cd4dcbb877c3ac7',  # compressed, the same operators
    'g2nd_208': '6c9cb082ccc3328b20ff375646d22e2cca366b86',  # compressed, 224000 224255 236000
    'mpco_217': 'c2f138c310055fbf0b22f53e7760cb51d3df120b',  # compressed, 224000 224255 236000 237000
    'rado_250': '7040864f0a240fbdcf365bef168f680a55ffa0e6',  # uncompressed, 222000 224000 224255 236000 237000
}


def digest(m):
    td = m.template_data.value
    h = hashlib.sha1()
    for descriptors, values, links in zip(td.decoded_descriptors_all_subsets, td.decoded_values_all_subsets,
                                          td.bitmap_links_all_subsets):
        h.update(repr(([str(d) for d in descriptors], values, sorted(links.items()))).encode('ascii'))
    return h.hexdigest()


for stub in sorted(DIGESTS):
    with open(os.path.join('tests', 'data', stub + '.bufr'), 'rb') as ins:
        s = ins.read()
    for how, decoder in decoders():
        m = decoder.process(s)
        check('H {} {}'.format(stub, how), digest(m), DIGESTS[stub])
    encoded = Encoder(ignore_declared_length=True).process(copy.deepcopy(FlatJsonRenderer().render(m)))
    check('H {} encoder links'.format(stub),
          [sorted(x.items()) for x in encoded.template_data.value.bitmap_links_all_subsets],
          [sorted(x.items()) for x in m.template_data.value.bitmap_links_all_subsets])

print('{} checks, {} failed'.format(n_checks[0], len(failures)))
sys.exit(1 if failures else 0)
