"""
Demo for refactor 1: the minimum / difference-width / increment step of the
compressed numeric and code/flag columns of the encoder.

Run as:  cd /tmp/tw_C05 && /venv/bin/python _out/1/demo.py
Exits 0 when every assertion holds (both without and with the patch).
"""
import os, sys; sys.path.insert(0, os.getcwd())

import itertools
import json
import random

import pybufrkit
assert os.path.dirname(os.path.abspath(pybufrkit.__file__)) == os.path.join(os.getcwd(), 'pybufrkit'), \
    'run me with the worktree as current directory'

from pybufrkit.bitops import get_bit_writer
from pybufrkit.coder import CoderState
from pybufrkit.decoder import Decoder
from pybufrkit.encoder import Encoder, nbits_for_uint

SEC1 = [0, 0, 89, 0, 0, False, '0000000', 0, 2, 0, 13, 0, 2007, 11, 21, 12, 0, 0]
ENC = Encoder()
ENC_COMPILED = Encoder(compiled_template_cache_max=8)
DEC = Decoder()


def message(descriptors, subsets, compressed):
    return [['BUFR', 0, 4], list(SEC1),
            [0, '00000000', len(subsets), True, compressed, '000000', list(descriptors)],
            [0, '00000000', [list(s) for s in subsets]], ['7777']]


def encode(descriptors, subsets, compressed):
    return ENC.process(json.dumps(message(descriptors, subsets, compressed))).serialized_bytes


def decode(data):
    td = DEC.process(data).template_data.value
    return (td.decoded_values_all_subsets,
            [[d.id for d in ds] for ds in td.decoded_descriptors_all_subsets],
            td.bitmap_links_all_subsets)


def data_bits(data, n_descriptors):
    """The bits of the data section after its 4 octets header, as a '0'/'1' string (edition 4, no section 2)."""
    start = 8 + 22 + 7 + 2 * n_descriptors + 4
    payload = data[start:-4]
    return ''.join('{:08b}'.format(b) for b in payload)


# ---------------------------------------------------------------------------
# Independent model of one compressed column of unsigned raw values
# ---------------------------------------------------------------------------
def model_width(max_diff):
    """Smallest n such that max_diff fits in n bits without being all ones."""
    n = 1
    while max_diff > 2 ** n - 2:
        n += 1
    return n


def model_write_column(raws, w):
    """raws: raw unsigned integers or None. Returns the expected bits."""
    ones = lambda n: 2 ** n - 1
    present = [r for r in raws if r is not None]
    if not present:
        return '{:0{}b}'.format(ones(w), w) + '{:06b}'.format(0)
    if len(present) == len(raws) and len(set(present)) == 1:
        return '{:0{}b}'.format(present[0], w) + '{:06b}'.format(0)
    mn, mx = min(present), max(present)
    nd = model_width(mx - mn + 1)
    out = '{:0{}b}'.format(mn, w) + '{:06b}'.format(nd)
    for r in raws:
        out += '{:0{}b}'.format(ones(nd) if r is None else r - mn, nd)
    return out


def model_read_column(bits, pos, w, n):
    """Independent reader. Returns (raws, new position)."""
    mn = int(bits[pos:pos + w], 2); pos += w
    nd = int(bits[pos:pos + 6], 2); pos += 6
    if nd == 0:
        value = None if (w > 1 and mn == 2 ** w - 1) else mn
        return [value] * n, pos
    raws = []
    for _ in range(n):
        inc = int(bits[pos:pos + nd], 2); pos += nd
        raws.append(None if inc == 2 ** nd - 1 else mn + inc)
    return raws, pos


def check_columns(descriptors, widths, columns, to_raw=None):
    """
    columns[k] is the list of per-subset values of the k-th element. Encode them
    compressed and uncompressed, and check: the decodings agree and equal the
    input; the compressed bits are exactly the modelled ones; the independent
    reader recovers the columns.
    """
    n = len(columns[0])
    subsets = [[col[i] for col in columns] for i in range(n)]
    element_ids = [d for d in descriptors if d // 100000 == 0]
    cmp_bytes = encode(descriptors, subsets, True)
    unc_bytes = encode(descriptors, subsets, False)
    cmp_dec = decode(cmp_bytes)
    unc_dec = decode(unc_bytes)
    assert cmp_dec == unc_dec, (descriptors, subsets, cmp_dec, unc_dec)
    assert cmp_dec[0] == subsets, (descriptors, subsets, cmp_dec[0])
    assert cmp_dec[1] == [element_ids] * n
    assert cmp_dec[2] == [{}] * n

    bits = data_bits(cmp_bytes, len(descriptors))
    expected = ''
    pos = 0
    for k, (w, col) in enumerate(zip(widths, columns)):
        raws = [None if v is None else (to_raw[k](v) if to_raw else v) for v in col]
        expected += model_write_column(raws, w)
        got, pos = model_read_column(bits, pos, w, n)
        assert got == raws, (descriptors, k, col, got)
    assert bits[:len(expected)] == expected, (descriptors, columns)
    assert set(bits[len(expected):]) <= {'0'} and len(bits) - len(expected) < 8


# ---------------------------------------------------------------------------
# 1. the width rule itself
# ---------------------------------------------------------------------------
for x in list(range(1, 5000)) + [2 ** k + d for k in range(12, 70) for d in (-2, -1, 0, 1)]:
    assert nbits_for_uint(x) == model_width(x), x
for bad in (1.5, '3', None):
    try:
        nbits_for_uint(bad)
    except TypeError:
        pass
    else:
        raise AssertionError('TypeError expected for {!r}'.format(bad))

# ---------------------------------------------------------------------------
# 2. exhaustive small scope: code tables of 2, 3, 4 bits and numerics of 2, 3, 4 bits
#    (004001 is 12 bits, scale 0, reference 0; 201YYY changes its width)
# ---------------------------------------------------------------------------
CODE = {2: 2001, 3: 1003, 4: 2003}
PER_MESSAGE = 64


def exhaustive(w, n_subsets, numeric):
    domain = [None] + list(range(2 ** w - 1))
    all_columns = [list(c) for c in itertools.product(domain, repeat=n_subsets)]
    for i in range(0, len(all_columns), PER_MESSAGE):
        chunk = all_columns[i:i + PER_MESSAGE]
        if numeric:
            descriptors = [201000 + 128 + w - 12] + [4001] * len(chunk) + [201000]
        else:
            descriptors = [CODE[w]] * len(chunk)
        check_columns(descriptors, [w] * len(chunk), chunk)
    return len(all_columns)


total = 0
for w in (2, 3, 4):
    for n_subsets in (1, 2, 3) if w == 4 else (1, 2, 3, 4):
        total += exhaustive(w, n_subsets, numeric=False)
        total += exhaustive(w, n_subsets, numeric=True)
print('exhaustive columns checked:', total)

# ---------------------------------------------------------------------------
# 3. random: wide fields (up to 64 bits), many subsets, scale and reference value
# ---------------------------------------------------------------------------
rnd = random.Random(5)
for _ in range(60):
    w = rnd.randint(5, 64)
    n = rnd.randint(2, 40)
    top = 2 ** w - 2
    style = rnd.choice(['full', 'narrow', 'edge'])
    if style == 'full':
        col = [rnd.randint(0, top) for _ in range(n)]
    elif style == 'narrow':
        base = rnd.randint(0, max(0, top - 300))
        col = [min(top, base + rnd.randint(0, 300)) for _ in range(n)]
    else:  # range of exactly 2^k - 2 or 2^k - 1
        k = rnd.randint(1, w - 1)
        span = 2 ** k - rnd.choice([1, 2, 3])
        base = rnd.randint(0, top - span)
        col = [base, base + span] + [base + rnd.randint(0, span) for _ in range(n - 2)]
        rnd.shuffle(col)
    for i in range(n):
        if rnd.random() < 0.2:
            col[i] = None
    if all(v is None for v in col[1:]) and rnd.random() < 0.5:
        col[0] = None
    check_columns([201000 + 128 + w - 12, 4001, 201000], [w], [col])

# scaled / referenced numerics together with code and flag tables
#   012001: 12 bits, scale 1, ref 0;  005001: 25 bits, scale 5, ref -9000000; 007004: 14 bits, scale -1
for _ in range(40):
    n = rnd.randint(2, 25)
    temp = [rnd.choice([None, rnd.randint(0, 4094) / 10.0]) for _ in range(n)]
    lat = [rnd.choice([None, rnd.randint(-9000000, 9000000) / 100000.0]) for _ in range(n)]
    pres = [rnd.choice([None, rnd.randint(0, 16382) * 10.0]) for _ in range(n)]
    cloud = [rnd.choice([None, rnd.randint(0, 14)]) for _ in range(n)]
    flags = [rnd.choice([None, rnd.randint(0, 126)]) for _ in range(n)]
    check_columns([12001, 5001, 7004, 20011, 8001], [12, 25, 14, 4, 7],
                  [temp, lat, pres, cloud, flags],
                  to_raw=[lambda v: int(round(v * 10)),
                          lambda v: int(round(v * 100000)) + 9000000,
                          lambda v: int(round(v * 0.1)),
                          lambda v: v, lambda v: v])
    # the compiled-template path goes through the same methods and writes the same bytes
    subsets = [list(t) for t in zip(temp, lat, pres, cloud, flags)]
    msg = json.dumps(message([12001, 5001, 7004, 20011, 8001], subsets, True))
    assert ENC_COMPILED.process(msg).serialized_bytes == ENC.process(msg).serialized_bytes

# ---------------------------------------------------------------------------
# 4. unit level: what the two methods write and how they advance the state
# ---------------------------------------------------------------------------
class FakeDescriptor(object):
    id = 2003
    nbits = 4


def run_unit(method_name, columns_by_subset, *args):
    state = CoderState(True, len(columns_by_subset), [list(s) for s in columns_by_subset])
    writer = get_bit_writer()
    descriptor = FakeDescriptor()
    getattr(ENC, method_name)(state, writer, descriptor, *args)
    assert state.idx_value == 1
    assert state.decoded_descriptors == [descriptor]
    assert state.decoded_descriptors_all_subsets[0] is state.decoded_descriptors_all_subsets[-1]
    # the input values of the caller are not modified
    assert state.decoded_values_all_subsets == [list(s) for s in columns_by_subset]
    return writer.bit_stream.bin


assert run_unit('process_codeflag_compressed', [[3], [None], [9]], 4) == \
    '0011' + '000100' + '0000' + '1111' + '0110'    # range 6: 6 + 1 is all ones in 3 bits -> 4 bits
assert run_unit('process_codeflag_compressed', [[3], [None], [4]], 4) == \
    '0011' + '000010' + '00' + '11' + '01'          # range 1 -> 2 bits, missing = 11
assert run_unit('process_codeflag_compressed', [[5], [None]], 4) == \
    '0101' + '000010' + '00' + '11'                 # equal next to missing -> 2 bits
assert run_unit('process_codeflag_compressed', [[5], [5]], 4) == '0101' + '000000'
assert run_unit('process_codeflag_compressed', [[None], [None]], 4) == '1111' + '000000'
assert run_unit('process_numeric_compressed', [[1.0], [None], [1.7]], 12, 10, -5) == \
    '{:012b}'.format(15) + '000100' + '0000' + '1111' + '0111'
# values that agree after scaling: one field of width 0, unless an entry is missing
assert run_unit('process_numeric_compressed', [[1.01], [1.02]], 12, 10, -5) == '{:012b}'.format(15) + '000000'
assert run_unit('process_numeric_compressed', [[1.01], [None], [1.02]], 12, 10, -5) == \
    '{:012b}'.format(15) + '000010' + '00' + '11' + '00'
assert run_unit('process_numeric_compressed', [[7], [9]], 12, 1, 0) == \
    '{:012b}'.format(7) + '000011' + '000' + '010'  # range 2: the rule looks at range + 1 = 3 -> 3 bits
assert run_unit('process_numeric_compressed', [[7], [10]], 12, 1, 0) == \
    '{:012b}'.format(7) + '000011' + '000' + '011'  # range 3 -> 3 bits
assert run_unit('process_numeric_compressed', [[7], [13]], 12, 1, 0) == \
    '{:012b}'.format(7) + '000100' + '0000' + '0110'  # range 6 -> 4 bits

# ---------------------------------------------------------------------------
# 5. error cases keep their exception types
# ---------------------------------------------------------------------------
def error_of(descriptors, subsets):
    try:
        encode(descriptors, subsets, True)
    except Exception as e:
        return type(e).__name__
    return None


assert error_of([2003], [[1], ['x']]) == 'TypeError'          # not comparable
assert error_of([2003], [[1.5], [2]]) == 'TypeError'          # no width for a float range
assert error_of([2003], [[-1], [3]]) == 'ValueError'       # negative minimum cannot be written
assert error_of([2003], [[0], [2 ** 255], [None]]) == 'IndexError'   # no missing pattern for 256 bits
assert error_of([2003], [[0], [2 ** 255]]) == 'ValueError'  # width 256 does not fit 6 bits
assert error_of([2003], [[0], [2 ** 70], [None]]) == 'ValueError'   # missing pattern for 71 bits, width does not fit 6 bits
assert error_of([2003], [[0], [2 ** 70]]) == 'ValueError'  # width 71 does not fit 6 bits
assert error_of([4001], [[0], [2 ** 255], [None]]) == 'IndexError'
assert error_of([4001], [[0], [2 ** 70], [None]]) == 'ValueError'
assert error_of([4001], [[0], ['x']]) == 'TypeError'
assert error_of([2003], [[0], [16]]) is None                  # the encoder does not range check
assert error_of([2003, 2003], [[0], [1, 2]]) == 'IndexError'  # short subset

print('demo 1 OK')
