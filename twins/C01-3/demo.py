import os, sys; sys.path.insert(0, os.getcwd())
# ---------------------------------------------------------------------------
# Independent, minimal BUFR message builder (no pybufrkit code involved).
# ---------------------------------------------------------------------------
class Bits(object):
    """Big-endian bit accumulator."""

    def __init__(self):
        self.chunks = []

    def u(self, value, nbits):
        """Append an unsigned integer of nbits."""
        assert nbits >= 0 and 0 <= value < (1 << nbits) or (nbits == 0 and value == 0), (value, nbits)
        if nbits:
            self.chunks.append(format(value, '0{}b'.format(nbits)))
        return self

    def ones(self, nbits):
        """Append nbits of all ones (the missing value)."""
        return self.u((1 << nbits) - 1, nbits)

    def s(self, data):
        """Append raw bytes."""
        for byte in bytearray(data):
            self.u(byte, 8)
        return self

    def sm(self, value, nbits):
        """Append a sign-magnitude integer (operator 203 reference values)."""
        self.u(1 if value < 0 else 0, 1)
        return self.u(abs(value), nbits - 1)

    def nbits(self):
        return sum(len(c) for c in self.chunks)

    def to_bytes(self):
        s = ''.join(self.chunks)
        s += '0' * (-len(s) % 8)
        return bytes(bytearray(int(s[i:i + 8], 2) for i in range(0, len(s), 8)))


def _u(value, nbytes):
    return bytes(bytearray((value >> (8 * (nbytes - 1 - i))) & 0xFF for i in range(nbytes)))


def build_message(descriptors, data, n_subsets=1, compressed=False, edition=4,
                  master_table_version=25, pad_data_to=None):
    """
    Assemble a complete BUFR message.

    :param descriptors: list of int descriptor ids (FXXYYY as decimal number)
    :param data: bytes of the data section payload (after the 4 octet header)
    """
    if edition == 4:
        sec1 = (_u(22, 3) + _u(0, 1) + _u(0, 2) + _u(0, 2) + _u(0, 1) + _u(0, 1) +
                _u(0, 1) + _u(0, 1) + _u(0, 1) + _u(master_table_version, 1) + _u(0, 1) +
                _u(2020, 2) + _u(1, 1) + _u(2, 1) + _u(3, 1) + _u(4, 1) + _u(5, 1))
        assert len(sec1) == 22
    elif edition == 3:
        sec1 = (_u(18, 3) + _u(0, 1) + _u(0, 1) + _u(0, 1) + _u(0, 1) + _u(0, 1) +
                _u(0, 1) + _u(0, 1) + _u(master_table_version, 1) + _u(0, 1) +
                _u(20, 1) + _u(1, 1) + _u(2, 1) + _u(3, 1) + _u(4, 1) + _u(0, 1))
        assert len(sec1) == 18
    elif edition == 2:
        sec1 = (_u(18, 3) + _u(0, 1) + _u(0, 2) + _u(0, 1) + _u(0, 1) +
                _u(0, 1) + _u(0, 1) + _u(master_table_version, 1) + _u(0, 1) +
                _u(20, 1) + _u(1, 1) + _u(2, 1) + _u(3, 1) + _u(4, 1) + _u(0, 1))
        assert len(sec1) == 18
    else:
        raise ValueError(edition)

    desc_bytes = b''
    for d in descriptors:
        f, x, y = d // 100000, d // 1000 % 100, d % 1000
        desc_bytes += _u((f << 14) | (x << 8) | y, 2)
    flags = 0x80 | (0x40 if compressed else 0)
    sec3_body = _u(0, 1) + _u(n_subsets, 2) + _u(flags, 1) + desc_bytes
    if edition < 4 and (len(sec3_body) + 3) % 2:
        sec3_body += b'\0'
    sec3 = _u(len(sec3_body) + 3, 3) + sec3_body

    if pad_data_to is not None:
        data = data + b'\0' * (pad_data_to - len(data))
    if edition < 4 and (len(data) + 4) % 2:
        data += b'\0'
    sec4 = _u(len(data) + 4, 3) + _u(0, 1) + data

    body = sec1 + sec3 + sec4 + b'7777'
    total = 8 + len(body)
    return b'BUFR' + _u(total, 3) + _u(edition, 1) + body


def decode(message, **kwargs):
    """Decode with the library under test; return (values, labels) per subset."""
    from pybufrkit.decoder import Decoder
    bufr = Decoder(**kwargs).process(message)
    td = bufr.template_data.value
    values = [list(vs) for vs in td.decoded_values_all_subsets]
    labels = [[str(d) for d in ds] for ds in td.decoded_descriptors_all_subsets]
    return values, labels


def num(raw, scale, ref):
    """The FM-94 value of a numeric field: (raw + reference) / 10**scale."""
    if raw is None:
        return None
    value = raw + ref
    if scale != 0:
        value = value / (1.0 * 10 ** scale)
    return value


def same(actual, expected):
    """Exact equality including the int/float distinction, element by element."""
    assert len(actual) == len(expected), (len(actual), len(expected), actual, expected)
    for i, (a, e) in enumerate(zip(actual, expected)):
        assert type(a) is type(e) and a == e, (i, a, e, actual, expected)
    return True


# ---------------------------------------------------------------------------
# Demo for refactor 3: BitReader.read / read_uint_or_none, BitStringBitReader.read_uint / read_int
# ---------------------------------------------------------------------------
from pybufrkit.errors import PyBufrKitError, BitReadError
from pybufrkit.decoder import Decoder
from pybufrkit.bitops import get_bit_reader, BitReader, BitStringBitReader

BOTH = ({}, {'compiled_template_cache_max': 8})


def expect_error(exc_type, func, *args, **kwargs):
    try:
        func(*args, **kwargs)
    except Exception as e:
        assert type(e) is exc_type, (type(e), e)
        return e
    raise AssertionError('no error raised, expected {}'.format(exc_type.__name__))


assert type(get_bit_reader(b'')) is BitStringBitReader and issubclass(BitStringBitReader, BitReader)

# --- 1. read_uint: every width from 1 to 72, aligned or not, values 0, 1, pattern, max -------------
for nbits in range(1, 73):
    top = (1 << nbits) - 1
    for lead in (0, 3, 8):  # bits in front, so that byte-multiple widths start unaligned too
        for raw in (0, 1, top, top - 1, top // 3, 1 << (nbits - 1)):
            r = get_bit_reader(Bits().u(0, lead).u(raw, nbits).u(5, 3).to_bytes())
            if lead:
                assert r.read_uint(lead) == 0
            got = r.read_uint(nbits)
            assert got == raw and type(got) is int, (nbits, lead, raw, got)
            assert r.get_pos() == lead + nbits
            assert r.read_uint(3) == 5

# --- 2. read_uint_or_none: all ones is missing, except for a single bit -----------------------------
for nbits in range(1, 65):
    top = (1 << nbits) - 1
    for lead in (0, 5):
        r = get_bit_reader(Bits().u(0, lead).ones(nbits).u(top - 1 if nbits > 1 else 0, nbits)
                           .u(0, nbits).u(top >> 1, nbits).to_bytes())
        r.read_uint(lead) if lead else None
        first = r.read_uint_or_none(nbits)
        if nbits == 1:
            assert first == 1 and type(first) is int
        else:
            assert first is None
        assert r.get_pos() == lead + nbits
        assert r.read_uint_or_none(nbits) == (top - 1 if nbits > 1 else 0)
        zero = r.read_uint_or_none(nbits)
        assert zero == 0 and type(zero) is int and zero is not None
        assert r.read_uint_or_none(nbits) == top >> 1
# wider than 64 bits (206YYY, 204YYY): missing values are known up to 255 bits
r = get_bit_reader(b'\xff' * 20)
assert r.read_uint_or_none(65) is None and r.get_pos() == 65
r = get_bit_reader(b'\x00' * 20)
assert r.read_uint_or_none(70) == 0 and r.get_pos() == 70
# wider than any operand can describe: the value is read, then no missing value is known for it
r = get_bit_reader(b'\xff' * 40)
expect_error(IndexError, r.read_uint_or_none, 256)
assert r.get_pos() == 256
r = get_bit_reader(b'\x00' * 40)
expect_error(IndexError, r.read_uint_or_none, 300)
# zero width: refused by bitstring itself
r = get_bit_reader(b'\xff')
expect_error(ValueError, r.read_uint_or_none, 0)
expect_error(ValueError, r.read_uint, 0)
expect_error(ValueError, r.read_uint, -1)
expect_error(TypeError, r.read_uint, None)
expect_error(TypeError, r.read_uint, '8')
assert r.get_pos() == 0
# out of bits
e = expect_error(BitReadError, r.read_uint, 9)
assert isinstance(e, PyBufrKitError) and 'only 8 bits were available' in e.message
expect_error(BitReadError, r.read_uint_or_none, 16)
assert r.get_pos() == 0 and r.read_uint_or_none(8) is None and r.get_pos() == 8
expect_error(BitReadError, r.read_uint_or_none, 1)

# --- 3. read_int: sign and magnitude -----------------------------------------------------------------
for nbits in (2, 3, 8, 9, 12, 16, 17, 24, 32, 33):
    top = (1 << (nbits - 1)) - 1
    for value in (0, 1, -1, top, -top, top // 2, -(top // 2)):
        r = get_bit_reader(Bits().u(1, 1).sm(value, nbits).u(2, 2).to_bytes())
        assert r.read_bool() is True
        got = r.read_int(nbits)
        assert got == value and type(got) is int, (nbits, value, got)
        assert r.get_pos() == 1 + nbits and r.read_uint(2) == 2
    # negative zero is plain zero
    r = get_bit_reader(Bits().u(1, 1).u(0, nbits - 1).to_bytes())
    got = r.read_int(nbits)
    assert got == 0 and type(got) is int and str(got) == '0'
# all ones is NOT missing for a reference value: it is the most negative one
r = get_bit_reader(b'\xff\xff')
assert r.read_int(12) == -2047
# the sign bit is consumed before the magnitude is found to be unreadable
r = get_bit_reader(b'\x80')
expect_error(BitReadError, r.read_int, 9)
assert r.get_pos() == 1
# a field of one bit (or less) is the sign bit alone: the magnitude is empty, the value zero
r = get_bit_reader(b'\x80')
got = r.read_int(1)
assert got == 0 and type(got) is int and r.get_pos() == 1
r = get_bit_reader(b'\x00')
got = r.read_int(1)
assert got == 0 and type(got) is int and r.get_pos() == 1
r = get_bit_reader(b'\x80')
got = r.read_int(0)
assert got == 0 and type(got) is int and r.get_pos() == 1
r = get_bit_reader(b'\x80')
expect_error(TypeError, r.read_int, None)
assert r.get_pos() == 1
r = get_bit_reader(b'')
expect_error(BitReadError, r.read_int, 4)
expect_error(BitReadError, r.read_bool)
assert r.get_pos() == 0

# --- 4. the generic read(), as used for the sections --------------------------------------------------
r = get_bit_reader(b'BUFR' + Bits().u(1234, 24).u(1, 1).u(0, 1).u(5, 3).u(1, 1).u(300, 11).u(0xABCD, 16).s(b'xy').to_bytes())
assert r.read('bytes', 32) == b'BUFR'
got = r.read('uint', 24)
assert got == 1234 and type(got) is int
assert r.read('bool', 1) is True and r.read('bool', 999) is False   # nbits is ignored for bool
assert r.get_pos() == 58
assert r.read('bin', 3) == '101'
got = r.read('int', 12)
assert got == -300 and type(got) is int
assert r.read('uint_or_none', 16) == 0xABCD
assert r.read('bytes', 12) == b'x'          # number of bytes is rounded down
assert r.get_pos() == 97
assert r.read('bytes', 7) == b'' and r.get_pos() == 97
expect_error(AttributeError, r.read, 'nosuch', 8)
expect_error(AttributeError, r.read, '', 8)
expect_error(TypeError, r.read, 5, 8)
expect_error(BitReadError, r.read, 'bytes', 16)
expect_error(BitReadError, r.read, 'uint', 16)
assert r.get_pos() == 97


# read() dispatches on the name, so it works for any subclass method
class Extended(BitStringBitReader):
    def read_twice(self, nbits):
        return self.read_uint(nbits) * 2

    def read_uint(self, nbits):
        self.calls = getattr(self, 'calls', 0) + 1
        return super(Extended, self).read_uint(nbits)


x = Extended(b'\x81\xff\xff')
assert x.read('twice', 8) == 258 and x.calls == 1
assert x.read_int(8) == -127 and x.calls == 2          # read_int goes through read_uint once
assert x.read_uint_or_none(8) is None and x.calls == 3  # and so does read_uint_or_none

# --- 5. whole messages: missing values, 1-bit fields, new reference values, all editions ----------------------
for edition in (2, 3, 4):
    for kw in BOTH:
        data = (Bits().u(1, 1).ones(7)                      # 031000 one bit of value one; 001001 missing
                .ones(2).ones(7).ones(12).ones(8)           # code, flag, numeric, 16-bit numeric all missing
                .s(b'\xff' * 9)                             # characters are returned as they are
                .sm(-2047, 12).u(0, 15).sm(2047, 12).ones(15)
                .to_bytes())
        T = [101000, 31000, 1001, 2001, 8001, 12001, 1032, 1011, 203012, 7001, 203255, 7001, 203012, 7001, 203255, 7001]
        v, l = decode(build_message(T, data, edition=edition), **kw)
        same(v[0], [1, None, None, None, None, None, b'\xff' * 9, -2047, -2047, 2047, None])
        assert l == [['031000', '001001', '002001', '008001', '012001', '001032', '001011',
                      '007001', '007001', '007001', '007001']]
        # compressed: minimum missing / 1-bit increments / 6-bit width read through read_uint
        data = (Bits().ones(7).u(0, 6)
                .u(1, 2).u(1, 6).u(1, 1).u(0, 1)
                .sm(-9, 8).u(0, 6)
                .u(9, 15).u(8, 6).u(255, 8).u(254, 8)
                .to_bytes())
        v, l = decode(build_message([1001, 2001, 203008, 7001, 203255, 7001], data, n_subsets=2,
                                    compressed=True, edition=edition), **kw)
        same(v[0], [None, None, -9, None])
        same(v[1], [None, 1, -9, 254])
        # new reference values must not differ between the subsets of compressed data
        data = Bits().sm(-9, 8).u(1, 6).u(0, 1).u(1, 1).to_bytes()
        expect_error(PyBufrKitError, decode,
                     build_message([203008, 7001, 203255], data, n_subsets=2, compressed=True, edition=edition), **kw)

# truncated messages end in BitReadError wherever the cut falls inside the data
msg = build_message([1001, 12001, 5001, 1011], Bits().u(5, 7).u(2731, 12).u(1, 25).s(b'ABCDEFGHI').to_bytes())
for cut in range(1, 20):
    expect_error(BitReadError, decode, msg[:-cut])
# section level reads: wrong edition / signature are still reported the same way
expect_error(BitReadError, decode, b'BUFR\x00\x00')
e = expect_error(PyBufrKitError, decode, msg[:-4] + b'7778')
assert 'not as expected' in e.message
expect_error(PyBufrKitError, decode, b'no message here')

# --- 6. sample corpus against stored values ---------------------------------------------------------------------
import json

for name in ('207003', 'IUSK73_AMMC_182300', 'b002_95', 'g2nd_208', 'jaso_214', 'profiler_european',
             'rado_250', 'uegabe'):
    with open(os.path.join('tests', 'data', name + '.json')) as f:
        sections = json.load(f)
    with open(os.path.join('tests', 'data', name + '.bufr'), 'rb') as f:
        raw = f.read()
    bufr = Decoder().process(raw)
    assert bufr.length.value == sections[0][1] and bufr.edition.value == sections[0][2]
    assert bufr.n_subsets.value == sections[-3][2] and bufr.is_compressed.value is sections[-3][4]
    assert bufr.unexpanded_descriptors.value == sections[-3][-1]
    values = bufr.template_data.value.decoded_values_all_subsets
    assert len(values) == len(sections[-2][-1])
    for got, exp in zip(values, sections[-2][-1]):
        same([x.decode('latin-1') if isinstance(x, bytes) else x for x in got], exp)

print('demo 3 OK')
