import os, sys; sys.path.insert(0, os.getcwd())
import pybufrkit
assert os.path.dirname(os.path.abspath(pybufrkit.__file__)) == os.path.join(os.getcwd(), 'pybufrkit'), pybufrkit.__file__

# ---- independent reference for the documented grammar (regex based) --------
import itertools, re, string
from pybufrkit.dataquery import NodePathParser, NodePath, PathComponent
from pybufrkit.errors import PathExprParsingError

_EL = r'[^@\[\]:/.>]*'
_ID = r'[^@\[\]:/.>]+'
_SL = r'\[%s(?::%s)*\]' % (_EL, _EL)
_WHOLE = re.compile(r'^(?:@(?P<ss>%s)(?=[/>])|(?=[/>0-9A-Z]))(?P<rest>.*)$' % _SL, re.S)
_COMP = re.compile(r'(?P<sep>[/.>])(?P<id>%s)(?P<sl>%s)?' % (_ID, _SL))
_INT = re.compile(r'^-?[0-9]+$')


def ref_slice(text, default):
    """text is '[...]' or None; returns (ok, object)"""
    if text is None:
        return True, default
    parts = text[1:-1].split(':')
    if len(parts) > 3 or not all(p == '' or _INT.match(p) for p in parts):
        return False, None
    nums = [None if p == '' else int(p) for p in parts]
    if len(nums) == 1:
        n = nums[0]
        if n is None:
            return False, None
        return True, (n if n >= 0 else slice(n, None if n == -1 else n + 1, None))
    return True, slice(*nums)


def reference(s, bare=True):
    """None if s is not in the language, else (subset_slice, [(sep, id, slice), ...])"""
    default = slice(None, None, None) if bare else 0
    t = ''.join(c for c in s if c not in string.whitespace)
    m = _WHOLE.match(t)
    if not t or not m:
        return None
    ok, subset = ref_slice(m.group('ss'), default)
    if not ok:
        return None
    rest = m.group('rest')
    if rest[0] not in '/>':
        rest = '>' + rest
    comps, pos = [], 0
    while pos < len(rest):
        cm = _COMP.match(rest, pos)
        if not cm:
            return None
        ok, slc = ref_slice(cm.group('sl'), default)
        if not ok:
            return None
        comps.append((cm.group('sep'), cm.group('id'), slc))
        pos = cm.end()
    return subset, comps


def observe(s, bare=True):
    """Same shape as reference(); anything but the parsing error propagates."""
    try:
        p = NodePathParser(bare_id_matches_all=bare).parse(s)
    except PathExprParsingError:
        return None
    assert isinstance(p, NodePath) and p.path_string == s
    assert all(type(c) is PathComponent for c in p.components)
    return p.subset_slice, [tuple(c) for c in p.components]


def same(a, b):
    """equality that also distinguishes 0 / False / 0.0 and 1 / True"""
    return repr(a) == repr(b)
# -----------------------------------------------------------------------------

import random

ALPHA = '@[]:/.>-01A '


def canon_slice(slc):
    if isinstance(slc, slice):
        return '[' + ':'.join('' if v is None else str(v) for v in (slc.start, slc.stop, slc.step)) + ']'
    return '[' + str(slc) + ']'


def canon(ref):
    """the canonical printout, derived from the reference parse only"""
    subset, comps = ref
    return '@' + canon_slice(subset) + ''.join(sep + id_ + canon_slice(slc) for sep, id_, slc in comps)


def check(s, bare=True):
    r, o = reference(s, bare), observe(s, bare)
    assert same(r, o), (s, bare, r, o)
    if r is None:
        return False
    p = NodePathParser(bare_id_matches_all=bare).parse(s)
    printed = str(p)
    assert type(printed) is str and printed == canon(r), (s, printed, canon(r))
    assert '{}'.format(p) == printed and '%s' % p == printed
    # printing does not modify the path
    assert same((p.subset_slice, [tuple(c) for c in p.components]), r) and p.path_string == s
    # parse(print(p)) == p, and printing is idempotent, with either setting of the flag
    for bare2 in (True, False):
        q = NodePathParser(bare_id_matches_all=bare2).parse(printed)
        assert same((q.subset_slice, [tuple(c) for c in q.components]), r), (s, printed)
        assert str(q) == printed
    return True


def random_expr(rnd):
    def num():
        return rnd.choice(['', '', '0', '1', '-1', '-2', str(rnd.randint(0, 40)), str(-rnd.randint(1, 40))])

    def slc(allow_none=True):
        k = rnd.choice([0, 1, 2, 3]) if allow_none else rnd.choice([1, 2, 3])
        if k == 0:
            return ''
        if k == 1:
            return '[%s]' % (num() or '3')
        return '[' + ':'.join(num() for _ in range(k)) + ']'

    s = '@' + slc(False) + rnd.choice('/>') if rnd.random() < 0.4 else rnd.choice(['', '/', '>'])
    for i in range(rnd.randint(1, 7)):
        s += (rnd.choice('/.>') if i else '') + rnd.choice(['A', '001001', '301011', 'B12', 'R', '0']) + slc()
    return s


def main():
    # 1. hand-built paths: the printer on its own
    np_ = NodePath('anything')
    assert str(np_) == ''                                   # no selector, no components
    np_.subset_slice = 2
    assert str(np_) == '@[2]'
    np_.subset_slice = slice(None, None, None)
    assert str(np_) == '@[::]'
    np_.add_component(PathComponent('/', '301011', 0))
    np_.add_component(PathComponent('>', '004001', slice(None, None, None)))
    np_.add_component(PathComponent('.', 'A21', slice(-1, None, None)))
    np_.add_component(PathComponent('/', 'B', slice(1, -1, 2)))
    np_.add_component(PathComponent('/', 'C', slice(None, 5, None)))
    np_.add_component(PathComponent('>', 'D', slice(0, 0, 0)))   # zeros are printed, only None is left out
    assert str(np_) == '@[::]/301011[0]>004001[::].A21[-1::]/B[1:-1:2]/C[:5:]>D[0:0:0]', str(np_)
    np_.subset_slice = None
    assert str(np_) == '/301011[0]>004001[::].A21[-1::]/B[1:-1:2]/C[:5:]>D[0:0:0]'
    assert len(np_.components) == 6 and np_.path_string == 'anything'

    for slc, want in [(0, '[0]'), (7, '[7]'), (123456789012345678901, '[123456789012345678901]'),
                      (slice(None), '[::]'), (slice(None, None, None), '[::]'), (slice(3), '[:3:]'),
                      (slice(1, None), '[1::]'), (slice(None, None, -1), '[::-1]'), (slice(-2, -1, None), '[-2:-1:]'),
                      (slice(0, None, None), '[0::]'), (slice(None, 0), '[:0:]'), (slice(1, 2, 3), '[1:2:3]')]:
        got = NodePath('').slice_to_str(slc)
        assert got == want and type(got) is str, (slc, got, want)
        assert got == canon_slice(slc)

    # 2. documented examples and their canonical form
    for s, want in [('001001', '@[::]>001001[::]'), ('/301011/004001', '@[::]/301011[::]/004001[::]'),
                    ('@[0] > 001001 [ 1 : 2 ]', '@[0]>001001[1:2:]'), ('@[-1]/A.B[0]', '@[-1::]/A[::].B[0]'),
                    ('@[::2]>A[-3]', '@[::2]>A[-3:-2:]'), ('A[::-1].B', '@[::]>A[::-1].B[::]')]:
        assert check(s) and str(NodePathParser().parse(s)) == want, (s, str(NodePathParser().parse(s)))
    assert str(NodePathParser(bare_id_matches_all=False).parse('/A.B[1:]')) == '@[0]/A[0].B[1::]'

    # 3. strings that must not print at all: rejected with the parsing error
    for s in ('', ' ', '@', '@[', '@[]', '@[0]', '@[0]A', '@[0].A', '.A', 'A[', 'A[]', 'A]', 'A[0', 'A[0]]', 'A[0][1]',
              'A@', 'A/', 'A//B', '/', '>', 'A[1:2:3:4]', 'A[x]', 'a', '-1', 'A[0]B', '@[0]@[0]/A', '@A'):
        assert not check(s) and not check(s, bare=False), s

    # 4. exhaustive: all strings up to length 4
    n = acc = 0
    for length in range(0, 5):
        for t in itertools.product(ALPHA, repeat=length):
            n += 1
            acc += check(''.join(t), bare=bool(n % 2))

    # 5. random grammar-derived long expressions and their single-character mutations
    rnd = random.Random(2015)
    n_rand = acc_rand = 0
    for _ in range(1500):
        s = random_expr(rnd)
        assert check(s), s
        if rnd.random() < 0.3:
            s = ''.join(c + ' ' * (rnd.random() < 0.3) for c in s)
            assert check(s), s
        for _ in range(4):
            pos = rnd.randrange(len(s))
            t = rnd.choice([s[:pos] + rnd.choice(ALPHA) + s[pos:], s[:pos] + s[pos + 1:], s[:pos] + rnd.choice(ALPHA) + s[pos + 1:]])
            n_rand += 1
            acc_rand += check(t, bare=rnd.random() < 0.5)
    print('demo 2 ok: %d/%d short strings and %d/%d mutants accepted, printed and re-parsed' % (acc, n, acc_rand, n_rand))


main()
