import os, sys; sys.path.insert(0, os.getcwd())

import random

from pybufrkit.bitops import get_bit_reader, get_bit_writer
from pybufrkit.errors import BitReadError, PyBufrKitError


def bits_of(writer):
    """The content of the writer as a string of 0/1, independent of to_bytes."""
    return writer.bit_stream.bin


def pad_to_byte(writer):
    rest = -writer.get_pos() % 8
    if rest:
        writer.skip(rest)
    return rest


def expect(exc_type, func, *args):
    try:
        func(*args)
    except Exception as e:
        assert type(e) is exc_type or (exc_type is ValueError and isinstance(e, ValueError)), \
            (exc_type, type(e), e)
        return e
    raise AssertionError('no {} from {}{}'.format(exc_type.__name__, func.__name__, args))


def values_for(n):
    return sorted({0, 1, 2 ** (n - 1), max(2 ** n - 2, 0), 2 ** n - 1})


# ---------------------------------------------------------------------------
# 1. exhaustive: width x value x bit offset, unsigned write / read round trip
# ---------------------------------------------------------------------------
count = 0
for n in range(1, 65):
    for value in values_for(n):
        for offset in range(8):
            w = get_bit_writer()
            assert w.get_pos() == 0
            if offset:
                w.skip(offset)
            assert w.get_pos() == offset
            ret = w.write_uint(value, n)
            assert ret == value and type(ret) is int
            assert w.get_pos() == offset + n
            # the exact bits, most significant first, whatever format was selected
            assert bits_of(w) == '0' * offset + format(value, '0{}b'.format(n)), (n, value, offset)
            tail = pad_to_byte(w)
            data = w.to_bytes()
            assert len(data) * 8 == offset + n + tail

            r = get_bit_reader(data)
            if offset:
                assert r.read_uint(offset) == 0
            assert r.get_pos() == offset
            got = r.read_uint(n)
            assert got == value and type(got) is int, (n, value, offset, got)
            assert r.get_pos() == offset + n == w.get_pos() - tail
            if tail:
                assert r.read_uint(tail) == 0
            assert r.get_pos() == len(data) * 8
            count += 1
assert count > 2000

# generic entry points use the same code
w = get_bit_writer()
assert w.write(5, 'uint', 3) == 5
assert w.write(200, 'uint', 8) == 200
assert w.write(1, 'uint', 5) == 1
assert bits_of(w) == '101' + '11001000' + '00001'
r = get_bit_reader(w.to_bytes())
assert [r.read('uint', 3), r.read('uint', 8), r.read('uint', 5)] == [5, 200, 1]
assert r.get_pos() == 16

# ---------------------------------------------------------------------------
# 2. skip writes zero bits of any width, aligned or not
# ---------------------------------------------------------------------------
for start in range(8):
    for n in list(range(1, 65)) + [72, 100, 128]:
        w = get_bit_writer()
        if start:
            w.write_uint(2 ** start - 1, start)
        assert w.skip(n) is None
        assert w.get_pos() == start + n
        assert bits_of(w) == '1' * start + '0' * n

# ---------------------------------------------------------------------------
# 3. value conversion: anything int() accepts is converted first
# ---------------------------------------------------------------------------
w = get_bit_writer()
assert w.write_uint(3.7, 3) == 3 and type(w.write_uint(3.7, 3)) is int
assert w.write_uint('5', 4) == 5
assert w.write_uint(True, 1) == 1 and type(w.write_uint(True, 1)) is int
assert w.write_uint(b'7', 8) == 7
assert bits_of(w) == '011' + '011' + '0101' + '1' + '1' + '00000111'

# ---------------------------------------------------------------------------
# 4. values that do not fit are refused and nothing is written
# ---------------------------------------------------------------------------
for n in range(1, 65):
    for offset in range(8):
        w = get_bit_writer()
        if offset:
            w.skip(offset)
        before = bits_of(w)
        expect(ValueError, w.write_uint, 2 ** n, n)
        expect(ValueError, w.write_uint, -1, n)
        assert bits_of(w) == before and w.get_pos() == offset

w = get_bit_writer()
w.write_uint(1, 1)
expect(ValueError, w.write_uint, 0, 0)          # zero width
expect(ValueError, w.write_uint, 0, -3)         # negative width
expect(ValueError, w.write_uint, 'x', 3)        # int() fails first
expect(TypeError, w.write_uint, None, 3)
expect(TypeError, w.write_uint, 1, None)        # width is not a number
expect(TypeError, w.write_uint, None, None)     # value is converted before the width is looked at
e = expect(ValueError, w.write_uint, 'x', None)
assert 'invalid literal' in str(e)
expect(ValueError, w.skip, 0)
expect(TypeError, w.skip, None)
assert bits_of(w) == '1' and w.get_pos() == 1

# ---------------------------------------------------------------------------
# 5. reading past the end is the BitReadError of the library, position kept
# ---------------------------------------------------------------------------
for nbytes in range(0, 9):
    total = nbytes * 8
    for n in range(1, 65):
        for offset in range(8):
            if offset > total or offset + n <= total:
                continue
            r = get_bit_reader(b'\xa5' * nbytes)
            if offset:
                r.read_uint(offset)
            e = expect(BitReadError, r.read_uint, n)
            assert isinstance(e, PyBufrKitError)
            assert isinstance(e.message, str) and e.message
            assert r.get_pos() == offset
            # what is left can still be read
            left = total - offset
            if 0 < left <= 64:
                r.read_uint(left)
                assert r.get_pos() == total

r = get_bit_reader(b'\xff\x00')
expect(ValueError, r.read_uint, 0)
expect(ValueError, r.read_uint, -1)
expect(TypeError, r.read_uint, None)
assert r.get_pos() == 0
assert r.read_uint(16) == 0xff00

# ---------------------------------------------------------------------------
# 6. random sequences of unsigned fields, up to 200 fields
# ---------------------------------------------------------------------------
rnd = random.Random(19001)
for _ in range(150):
    nfields = rnd.randint(1, 200)
    fields = []
    w = get_bit_writer()
    expected_bits = []
    for _i in range(nfields):
        n = rnd.randint(1, 64)
        v = rnd.choice([0, 1, 2 ** n - 1, rnd.getrandbits(n)])
        if rnd.random() < 0.1:
            k = rnd.randint(1, 20)
            w.skip(k)
            fields.append((k, 0))
            expected_bits.append('0' * k)
        fields.append((n, v))
        assert w.write_uint(v, n) == v
        expected_bits.append(format(v, '0{}b'.format(n)))
        assert w.get_pos() == sum(f[0] for f in fields)
    assert bits_of(w) == ''.join(expected_bits)
    end = w.get_pos()
    pad_to_byte(w)
    r = get_bit_reader(w.to_bytes())
    for n, v in fields:
        assert r.read_uint(n) == v
    assert r.get_pos() == end

print('demo 1 ok:', count, 'exhaustive unsigned round trips')
