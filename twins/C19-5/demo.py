import os, sys; sys.path.insert(0, os.getcwd())
"""
Differential demonstration for refactor 5 (read()/write() dispatch by tables of
argument adapters).  Every expectation below is computed without bitops: the
calling conventions are spelled out literally, bit patterns come from a model made
of '0'/'1' strings, and the whole-message checks compare with the files on disk.
Exits 0 when everything agrees, 1 otherwise.
"""
import random
import struct

from pybufrkit import bitops
from pybufrkit.bitops import BitReader, BitWriter, get_bit_reader, get_bit_writer
from pybufrkit.errors import BitReadError

assert os.path.dirname(os.path.abspath(bitops.__file__)) == os.path.join(os.getcwd(), 'pybufrkit'), \
    'run me from the worktree root'

FAILURES = []
N_CHECKS = [0]


def check(cond, what):
    N_CHECKS[0] += 1
    if not cond:
        FAILURES.append(what)
        print('FAIL', what)


def outcome(f):
    """('ok', result) or ('exc', exact exception class)"""
    try:
        return 'ok', f()
    except Exception as e:
        return 'exc', type(e)


# ---------------------------------------------------------------------------
# A. Which method is called, with which positional arguments, and what is returned
# ---------------------------------------------------------------------------
class RecordingReader(BitReader):
    def __init__(self):
        self.calls = []

    def get_pos(self):
        return 0


class RecordingWriter(BitWriter):
    def __init__(self):
        self.calls = []

    def get_pos(self):
        return 0


def _recorder(name):
    def method(self, *args, **kwargs):
        token = object()
        self.calls.append((name, args, kwargs, token))
        return token

    return method


# 'float' and 'uint_or_none' are not named in either chain/table: the fall-through branch
for _t in ('bytes', 'uint', 'bool', 'bin', 'int', 'float', 'uint_or_none'):
    setattr(RecordingReader, 'read_' + _t, _recorder('read_' + _t))
for _t in ('bytes', 'uint', 'bool', 'bin', 'int', 'float'):
    setattr(RecordingWriter, 'write_' + _t, _recorder('write_' + _t))


def expected_read_args(data_type, nbits):
    if data_type == 'bytes':
        return (nbits // 8,)
    if data_type == 'bool':
        return ()
    return (nbits,)


def expected_write_args(value, data_type, nbits):
    if data_type == 'bytes':
        return (value, nbits // 8)
    if data_type == 'bool' or data_type == 'bin':
        return (value,)
    return (value, nbits)


class Str(str):
    """a str subclass, as six.text_type values of a JSON definition could be"""


WIDTHS = list(range(0, 70)) + [255, 256, 1000, -1, -8, -9, 7.5, 16.0]
for data_type in ('bytes', 'uint', 'bool', 'bin', 'int', 'float', 'uint_or_none'):
    for dt in (data_type, Str(data_type), u'' + data_type):
        for nbits in WIDTHS:
            r = RecordingReader()
            result = r.read(dt, nbits)
            check(len(r.calls) == 1, 'read %s %r: one call' % (dt, nbits))
            name, args, kwargs, token = r.calls[0]
            check(name == 'read_' + data_type, 'read %s %r: method' % (dt, nbits))
            check(args == expected_read_args(data_type, nbits) and
                  [type(a) for a in args] == [type(a) for a in expected_read_args(data_type, nbits)],
                  'read %s %r: args %r' % (dt, nbits, args))
            check(kwargs == {}, 'read %s %r: no keywords' % (dt, nbits))
            check(result is token, 'read %s %r: result handed through' % (dt, nbits))

for data_type in ('bytes', 'uint', 'bool', 'bin', 'int', 'float'):
    for dt in (data_type, Str(data_type), u'' + data_type):
        for nbits in WIDTHS:
            for value in (0, None, b'ab', u'ab', '0101', True, 3.5, (1, 2)):
                w = RecordingWriter()
                result = w.write(value, dt, nbits)
                check(len(w.calls) == 1, 'write %s %r: one call' % (dt, nbits))
                name, args, kwargs, token = w.calls[0]
                check(name == 'write_' + data_type, 'write %s %r: method' % (dt, nbits))
                exp = expected_write_args(value, data_type, nbits)
                check(args == exp and args[0] is value and
                      [type(a) for a in args] == [type(a) for a in exp],
                      'write %s %r: args %r' % (dt, nbits, args))
                check(kwargs == {}, 'write %s %r: no keywords' % (dt, nbits))
                check(result is token, 'write %s %r: result handed through' % (dt, nbits))

# nbits is handed through untouched (identity) where it is not divided
marker = object()
r = RecordingReader()
r.read('uint', marker)
check(r.calls[0][1][0] is marker, 'read uint: nbits object handed through')
r = RecordingReader()
r.read('float', None)
check(r.calls[0][1] == (None,), 'read float None')
r = RecordingReader()
r.read('bool', None)
check(r.calls[0][1] == (), 'read bool ignores nbits (None)')
w = RecordingWriter()
w.write(1, 'int', marker)
check(w.calls[0][1][1] is marker, 'write int: nbits object handed through')
w = RecordingWriter()
w.write(True, 'bool', None)
w.write('01', 'bin', None)
check([c[1] for c in w.calls] == [(True,), ('01',)], 'write bool/bin ignore nbits (None)')

# ---------------------------------------------------------------------------
# B. Error behaviour of the dispatch itself
# ---------------------------------------------------------------------------
for make in (RecordingReader, lambda: get_bit_reader(b'\x00' * 8)):
    r = make()
    check(outcome(lambda: r.read('nope', 8)) == ('exc', AttributeError), 'read unknown type')
    check(outcome(lambda: r.read('', 8)) == ('exc', AttributeError), 'read empty type')
    # the method lookup comes first: unknown type wins over an undividable nbits
    check(outcome(lambda: r.read('nope', None)) == ('exc', AttributeError), 'read unknown type, nbits None')
    check(outcome(lambda: r.read('bytes', None)) == ('exc', TypeError), 'read bytes, nbits None')
    check(outcome(lambda: r.read('bytes', '16')) == ('exc', TypeError), 'read bytes, nbits str')
    check(outcome(lambda: r.read(3, 8)) == ('exc', TypeError), 'read with int as type')
    check(outcome(lambda: r.read(None, 8)) == ('exc', TypeError), 'read with None as type')
    check(outcome(lambda: r.read(['uint'], 8)) == ('exc', TypeError), 'read with list as type')
    check(outcome(lambda: r.read(b'uint', 8)) == ('exc', TypeError), 'read with bytes as type')
    if isinstance(r, RecordingReader):
        check(r.calls == [], 'nothing called on errors (reader)')
    else:
        check(r.get_pos() == 0, 'nothing consumed on errors (reader)')

for make in (RecordingWriter, get_bit_writer):
    w = make()
    check(outcome(lambda: w.write(1, 'nope', 8)) == ('exc', AttributeError), 'write unknown type')
    check(outcome(lambda: w.write(1, 'nope', None)) == ('exc', AttributeError), 'write unknown type, nbits None')
    check(outcome(lambda: w.write(b'a', 'bytes', None)) == ('exc', TypeError), 'write bytes, nbits None')
    check(outcome(lambda: w.write(b'a', 'bytes', '8')) == ('exc', TypeError), 'write bytes, nbits str')
    check(outcome(lambda: w.write(1, 3, 8)) == ('exc', TypeError), 'write with int as type')
    check(outcome(lambda: w.write(1, None, 8)) == ('exc', TypeError), 'write with None as type')
    check(outcome(lambda: w.write(1, ['uint'], 8)) == ('exc', TypeError), 'write with list as type')
    if isinstance(w, RecordingWriter):
        check(w.calls == [], 'nothing called on errors (writer)')
    else:
        check(w.get_pos() == 0 and w.to_bytes() == b'', 'nothing written on errors (writer)')

# the abstract base classes themselves: the name is looked up on the instance, and the
# abstract bodies return None whatever arguments they get
check(outcome(lambda: BitReader().read('bool', 1)) == ('ok', None), 'abstract read_bool')
check(outcome(lambda: BitReader().read('bytes', 9)) == ('ok', None), 'abstract read_bytes')
check(outcome(lambda: BitWriter().write(1, 'bin', 1)) == ('ok', None), 'abstract write_bin')
check(outcome(lambda: BitWriter().write(1, 'uint', 1)) == ('ok', None), 'abstract write_uint')
# arity is still enforced by the callee: read_uint_or_none(nbits) reached by the fall-through
r = get_bit_reader(b'\xff\xfe')
check(r.read('uint_or_none', 8) is None and r.read('uint_or_none', 8) == 254, 'fall-through: uint_or_none')
# get_pos is not a read_ method; 'read_' + 'uint_or_none' is - but e.g. '_or_none' is not
check(outcome(lambda: r.read('_or_none', 8)) == ('exc', AttributeError), 'no read__or_none')


# ---------------------------------------------------------------------------
# C. Real reader and writer through read()/write(), against a '0'/'1' string model
# ---------------------------------------------------------------------------
def bits_of_uint(value, nbits):
    s = bin(value)[2:]
    assert len(s) <= nbits
    return '0' * (nbits - len(s)) + s


def bits_of_int(value, nbits):
    return ('1' if value < 0 else '0') + bits_of_uint(abs(value), nbits - 1)


def bits_of_bytes(value, nbits):
    nbytes = nbits // 8
    value = (value + b' ' * nbytes)[:nbytes] if len(value) < nbytes else value[:nbytes]
    return ''.join(bits_of_uint(b, 8) for b in bytearray(value)), value


def to_bytes(bits):
    bits = bits + '0' * (-len(bits) % 8)
    return bytes(bytearray(int(bits[i:i + 8], 2) for i in range(0, len(bits), 8)))


def padded_bytes(w):
    """to_bytes() wants whole bytes: fill up with zero bits, as the encoder does at the end of a section"""
    w.write('0' * (-w.get_pos() % 8), 'bin', None)
    return w.to_bytes()


def random_field(rng):
    t = rng.choice(('uint', 'int', 'bool', 'bin', 'bytes'))
    if t == 'uint':
        n = rng.randint(1, 64)
        v = rng.choice((0, 1, 2 ** (n - 1), max(2 ** n - 2, 0), 2 ** n - 1, rng.randrange(2 ** n)))
        return t, n, v, bits_of_uint(v, n), v
    if t == 'int':
        n = rng.randint(2, 64)
        m = rng.choice((0, 1, 2 ** (n - 1) - 1, rng.randrange(2 ** (n - 1))))
        v = m * rng.choice((1, -1))
        return t, n, v, bits_of_int(v, n), v
    if t == 'bool':
        v = rng.choice((True, False))
        # nbits is ignored for bool: hand over anything
        return t, rng.choice((1, 0, 7, None)), v, '1' if v else '0', v
    if t == 'bin':
        n = rng.randint(0, 64)
        v = ''.join(rng.choice('01') for _ in range(n))
        return t, n, v, v, v
    n = rng.randint(0, 12) * 8 + rng.randint(0, 7)  # not always a multiple of 8: floor division
    v = bytes(bytearray(rng.randrange(256) for _ in range(rng.randint(0, 14))))
    b, fitted = bits_of_bytes(v, n)
    return t, n, v, b, fitted


rng = random.Random(19005)
for trial in range(300):
    fields = [random_field(rng) for _ in range(rng.randint(1, 200 if trial % 10 == 0 else 40))]
    w = get_bit_writer()
    model = ''
    for t, n, v, b, back in fields:
        ret = w.write(v, t, n)
        model += b
        check(ret == back, 'trial %d: write %s returns %r, expected %r' % (trial, t, ret, back))
        check(w.get_pos() == len(model), 'trial %d: writer position after %s' % (trial, t))
    data = padded_bytes(w)
    check(data == to_bytes(model), 'trial %d: bytes written' % trial)
    r = get_bit_reader(data)
    pos = 0
    for t, n, v, b, back in fields:
        # 'bin' is written with the length of the value but read with nbits: hand over the length
        got = r.read(t, len(v) if t == 'bin' else n)
        pos += len(b)
        check(got == back and type(got) == type(back), 'trial %d: read %s %r gives %r, expected %r' % (trial, t, n, got, back))
        check(r.get_pos() == pos, 'trial %d: reader position after %s' % (trial, t))
    # reading past the end, through read(): the library's error, for every sized type
    rest = len(data) * 8 - pos
    for t, n in (('uint', rest + 1), ('bin', rest + 1), ('bytes', (rest // 8 + 1) * 8), ('int', rest + 2)):
        check(outcome(lambda: r.read(t, n)) == ('exc', BitReadError), 'trial %d: %s past the end' % (trial, t))
        # a sign-magnitude read is two reads: the sign bit, when there is one, is consumed before the magnitude fails
        check(r.get_pos() == pos + (1 if t == 'int' and rest else 0), 'trial %d: position after failed %s' % (trial, t))
    rest -= 1 if rest else 0
    if rest == 0:
        check(outcome(lambda: r.read('bool', 1)) == ('exc', BitReadError), 'trial %d: bool past the end' % trial)

# exhaustive widths for the numeric types through read()/write(), at every bit offset
for n in range(1, 65):
    for v in sorted({0, 1, 2 ** (n - 1), max(2 ** n - 2, 0), 2 ** n - 1}):
        for offset in range(8):
            w = get_bit_writer()
            if offset:
                w.write('1' * offset, 'bin', 999)
            check(w.write(v, 'uint', n) == v, 'uint %d/%d@%d returns' % (v, n, offset))
            check(w.get_pos() == offset + n, 'uint %d/%d@%d position' % (v, n, offset))
            data = padded_bytes(w)
            check(data == to_bytes('1' * offset + bits_of_uint(v, n)), 'uint %d/%d@%d bytes' % (v, n, offset))
            r = get_bit_reader(data)
            if offset:
                check(r.read('bin', offset) == '1' * offset, 'offset bits back')
            check(r.read('uint', n) == v and r.get_pos() == offset + n, 'uint %d/%d@%d read back' % (v, n, offset))
            # refusing what does not fit
            w2 = get_bit_writer()
            check(outcome(lambda: w2.write(2 ** n, 'uint', n)) == ('exc', ValueError) and w2.get_pos() == 0,
                  'uint 2^%d refused' % n)
    if n >= 2:
        for m in sorted({0, 1, 2 ** (n - 1) - 1}):
            for v in (m, -m):
                w = get_bit_writer()
                w.write(True, 'bool', 1)
                check(w.write(v, 'int', n) == v, 'int %d/%d returns' % (v, n))
                data = padded_bytes(w)
                check(data == to_bytes('1' + bits_of_int(v, n)), 'int %d/%d bytes' % (v, n))
                r = get_bit_reader(data)
                check(r.read('bool', 1) is True, 'bool back')
                check(r.read('int', n) == v and r.get_pos() == n + 1, 'int %d/%d read back' % (v, n))

# ---------------------------------------------------------------------------
# D. Whole messages: the section parameters are read and written through read()/write()
# ---------------------------------------------------------------------------
from pybufrkit.decoder import Decoder
from pybufrkit.encoder import Encoder

DATA = os.path.join('tests', 'data')
for stub in ('IUSK73_AMMC_182300', 'rado_250', '207003', 'jaso_214', 'b002_95'):
    with open(os.path.join(DATA, stub + '.bufr'), 'rb') as ins:
        raw = ins.read()
    msg = Decoder().process(raw)
    # section 0 by hand
    check(raw[:4] == b'BUFR' and raw[-4:] == b'7777', stub + ': signatures in the file')
    length = struct.unpack('>I', b'\x00' + raw[4:7])[0]
    edition = bytearray(raw)[7]
    check(msg.length.value == length == len(raw), stub + ': length (uint 24)')
    check(msg.edition.value == edition, stub + ': edition (uint 8)')
    # section 3 by hand: skip section 0 (8 bytes), section 1, optional section 2
    p = 8
    len1 = struct.unpack('>I', b'\x00' + raw[p:p + 3])[0]
    has_sec2 = bool(bytearray(raw)[p + (9 if edition >= 4 else 7)] & 0x80)
    check(msg.is_section2_presents.value is has_sec2, stub + ': section 2 flag (bool)')
    p += len1
    if has_sec2:
        p += struct.unpack('>I', b'\x00' + raw[p:p + 3])[0]
    n_subsets = struct.unpack('>H', raw[p + 4:p + 6])[0]
    flags = bytearray(raw)[p + 6]
    check(msg.n_subsets.value == n_subsets, stub + ': n_subsets (uint 16)')
    check(msg.is_observation.value is bool(flags & 0x80), stub + ': is_observation (bool)')
    check(msg.is_compressed.value is bool(flags & 0x40), stub + ': is_compressed (bool)')
    sec3 = [s for s in msg.sections if s.get_metadata('index') == 3][0]
    by_name = dict((prm.name, prm.value) for prm in sec3)
    check(by_name['flag_bits'] == bits_of_uint(flags & 0x3f, 6), stub + ': flag_bits (bin 6)')
    check(by_name['reserved_bits'] == bits_of_uint(bytearray(raw)[p + 3], 8), stub + ': reserved_bits (bin 8)')
    sec5 = [s for s in msg.sections if s.get_metadata('index') == 5][0]
    check([prm.value for prm in sec5] == [b'7777'], stub + ': stop signature (bytes 32)')

for stub in ('IUSK73_AMMC_182300', 'rado_250'):
    # these two JSON files encode to exactly the bytes of the sample file
    with open(os.path.join(DATA, stub + '.bufr'), 'rb') as ins:
        raw = ins.read()
    with open(os.path.join(DATA, stub + '.json')) as ins:
        encoded = Encoder().process(ins.read())
    check(encoded.serialized_bytes == raw, stub + ': JSON encodes to the bytes of the sample file')

print('%d checks, %d failures' % (N_CHECKS[0], len(FAILURES)))
sys.exit(1 if FAILURES else 0)
