import os, sys; sys.path.insert(0, os.getcwd())
import json
import random

from pybufrkit.decoder import Decoder
from pybufrkit.encoder import Encoder
from pybufrkit.renderer import NestedJsonRenderer, FlatJsonRenderer
from pybufrkit.dataquery import (NodePathParser, DataQuerent, QueryResult, PathComponent,
                                 PATH_SEPARATOR_CHILD, PATH_SEPARATOR_ATTRIB, PATH_SEPARATOR_DESCEND)
from pybufrkit.templatedata import (ValueDataNode, NoValueDataNode, SequenceNode,
                                    FixedReplicationNode, DelayedReplicationNode)
from pybufrkit.errors import QueryError, PathExprParsingError
from pybufrkit.utils import EntityEncoder

DATA = os.path.join('tests', 'data')
QUERENT = DataQuerent(NodePathParser())


def load(name, **decoder_kwargs):
    with open(os.path.join(DATA, name), 'rb') as ins:
        return Decoder(**decoder_kwargs).process(ins.read())


def nested_json(message):
    return NestedJsonRenderer()._render_template_data(message.template_data.value)


def raises(exc_type, func, *args, **kwargs):
    try:
        func(*args, **kwargs)
    except exc_type as e:
        # exact type, not a subclass
        return type(e) is exc_type
    except Exception:
        return False
    return False


# --------------------------------------------------------------------------
# Independent oracle: evaluates a path of child (/) and attribute (.) steps
# over the nested JSON rendering of the message. It never touches the node
# tree nor any DataQuerent method.
# --------------------------------------------------------------------------
class OracleError(Exception):
    pass


def is_replication(j):
    return j['id'][0] == '1' and 'members' in j


def pick(candidates, id_, slc):
    entries = [e for e in enumerate(candidates) if e[1]['id'] == id_]
    if isinstance(slc, int):
        return entries[slc:slc + 1]
    return sorted(entries[slc], key=lambda e: e[0])  # document order


def evaluate(j, comps):
    sep, id_, slc = comps[0]
    if sep == '/':
        if 'members' not in j:
            raise OracleError('no child nodes')
        if is_replication(j):
            blocks = j['members']  # one list per repetition
            if not blocks:
                return []
            positions = [p for p, _ in pick(blocks[0], id_, slc)]
            envelope = []
            for block in blocks:
                r = proceed([block[p] for p in positions], comps)
                if r:
                    envelope.append(r)
            return [envelope] if envelope else []  # one envelope per replication
        return proceed([n for _, n in pick(j['members'], id_, slc)], comps)
    if 'factor' not in j and 'attributes' not in j:
        raise OracleError('no attribute nodes')
    candidates = ([j['factor']] if 'factor' in j else []) + j.get('attributes', [])
    return proceed([n for _, n in pick(candidates, id_, slc)], comps)


def proceed(jnodes, comps):
    if len(comps) == 1:
        return jnodes
    out = []
    for n in jnodes:
        out += evaluate(n, comps[1:])
    return out


def to_values(x):
    out = []
    for e in x:
        if isinstance(e, list):
            out.append(to_values(e))
        elif 'value' in e:
            out.append(e['value'])
        else:
            raise OracleError('valueless')
    return out


def oracle(nested_subsets, comps, subset_indices):
    return [to_values(evaluate({'id': 'TEMPLATE', 'members': nested_subsets[i]}, comps))
            for i in subset_indices]


def slice_text(slc):
    if isinstance(slc, int):
        return '[{}]'.format(slc)
    if slc == slice(None):
        return ''
    return '[{}:{}:{}]'.format(*['' if v is None else v for v in (slc.start, slc.stop, slc.step)])


def expr_of(comps, subset=''):
    return subset + ''.join(sep + id_ + slice_text(slc) for sep, id_, slc in comps)


def as_parsed(slc):
    # a written negative index means "that one from the end"
    if isinstance(slc, int) and slc < 0:
        return slice(slc, slc + 1 if slc != -1 else None, None)
    return slc


def enumerate_paths(nested_subsets, max_depth=6):
    """All distinct chains of (separator, id), ending at a node with a value."""
    found = set()

    def walk(j, prefix):
        if len(prefix) >= max_depth:
            return
        kids = []
        if 'members' in j:
            members = j['members']
            if is_replication(j):
                members = [n for block in members for n in block]
            kids += [('/', n) for n in members]
        if 'factor' in j:
            kids.append(('.', j['factor']))
        kids += [('.', n) for n in j.get('attributes', [])]
        for sep, n in kids:
            p = prefix + ((sep, n['id']),)
            if 'value' in n:
                found.add(p)
            walk(n, p)

    for subset in nested_subsets:
        walk({'id': 'TEMPLATE', 'members': subset}, ())
    return sorted(found)


SLICES = [slice(None), 0, 1, 2, -1, -2, 7, slice(1, None, None), slice(None, None, 2),
          slice(None, None, -1), slice(-2, None, None), slice(0, 5, 3), slice(3, 1, -1), slice(5, 2, None)]


def sweep(name, rnd, n_variants=4, selectors=('', '@[-1]', '@[::3]', '@[1:2]'), message=None, nested=None):
    """Compare DataQuerent with the oracle for every path of the message, with
    bare IDs and with random slices at every step. Return (n_queries, n_errors)."""
    message = message or load(name)
    nested = nested or nested_json(message)
    n_subsets = message.n_subsets.value
    every = list(range(n_subsets))
    picks = {'': every, '@[-1]': every[-1:], '@[::3]': every[::3], '@[1:2]': every[1:2]}
    n_queries = n_errors = 0
    for path in enumerate_paths(nested[:3] + nested[-1:]):
        variants = [[(s, i, slice(None)) for s, i in path]]
        for _ in range(n_variants):
            variants.append([(s, i, rnd.choice(SLICES)) for s, i in path])
        for comps in variants:
            parsed = [(s, i, as_parsed(c)) for s, i, c in comps]
            for selector in selectors:
                if n_subsets > 8 and selector == '':
                    continue  # keep the demo quick
                expr = expr_of(comps, selector)
                try:
                    expected = oracle(nested, parsed, picks[selector])
                except OracleError:
                    assert raises(QueryError, QUERENT.query, message, expr), expr
                    n_errors += 1
                    continue
                result = QUERENT.query(message, expr)
                assert result.subset_indices() == picks[selector], (name, expr)
                assert result.all_values() == expected, (name, expr)
                n_queries += 1
    return n_queries, n_errors


# --------------------------------------------------------------------------
# Tiny hand-made node trees for calling the filter methods directly
# --------------------------------------------------------------------------
class FakeDescriptor(object):
    def __init__(self, id_, n_members=None):
        self.id_ = id_
        if n_members is not None:
            self.n_members = n_members

    def __str__(self):
        return self.id_


_index_counter = [0]


def V(id_, attributes=None):
    node = ValueDataNode(FakeDescriptor(id_), _index_counter[0])
    _index_counter[0] += 1
    for a in attributes or []:
        node.add_attribute(a)
    return node


def S(id_, members):
    node = SequenceNode(FakeDescriptor(id_))
    node.members = members
    return node


def R(id_, n_members, members):
    node = FixedReplicationNode(FakeDescriptor(id_, n_members))
    node.members = members
    return node


def D(id_, n_members, factor, members):
    node = DelayedReplicationNode(FakeDescriptor(id_, n_members))
    node.factor = factor
    node.members = members
    return node


def PC(sep, id_, slc=slice(None)):
    return PathComponent(sep, id_, slc)


def ids(nested_nodes):
    return [ids(n) if isinstance(n, list) else str(n.descriptor) for n in nested_nodes]


# ==========================================================================
# Demo 3 - filter_for_sub_nodes (dispatch on the separator) and
#          filter_for_attribute_sub_nodes (factor / attribute steps)
# ==========================================================================
def flat_values_with_id(message, id_, i_subset):
    td = message.template_data.value
    return [v for d, v in zip(td.decoded_descriptors_all_subsets[i_subset],
                              td.decoded_values_all_subsets[i_subset]) if str(d) == id_]


def attribute_ids(nested_subsets):
    """IDs that are attached (also) as attributes somewhere, and IDs of replication
    factors: a descendant step visits the members of a replication before its
    factor, so nested factors do not come in the order of the flat data."""
    found = set()

    def walk(j):
        for a in j.get('attributes', []):
            found.add(a['id'])
            walk(a)
        if 'factor' in j:
            found.add(j['factor']['id'])
            walk(j['factor'])
        for n in j.get('members', []):
            for x in (n if isinstance(n, list) else [n]):
                walk(x)

    for subset in nested_subsets:
        walk({'members': subset})
    return found


def main():
    q = QUERENT

    # ---- a small tree: value nodes with attributes, a delayed replication whose
    # factor carries an attribute itself
    qa1, qa2, qa3 = V('QA'), V('QA'), V('QB')
    a = V('A', attributes=[qa1, qa3, qa2])
    b = V('B')
    factor = V('031001', attributes=[V('QF')])
    rep = D('101000', 1, factor, [V('C', attributes=[V('QC')]), V('C', attributes=[V('QC')])])
    root = S('TEMPLATE', [a, b, rep, S('300001', [V('A', attributes=[V('QA')])])])

    def sub(node, *comps):
        return ids(q.filter_for_sub_nodes(node, list(comps)))

    def attrib(node, *comps):
        return ids(q.filter_for_attribute_sub_nodes(node, list(comps)))

    # dispatch: '/' children, '.' attributes and factor, anything else descendants
    assert sub(root, PC('/', 'A')) == ['A']
    assert sub(root, PC('/', 'QA')) == []
    assert sub(a, PC('.', 'QA')) == ['QA', 'QA']
    assert sub(root, PC('>', 'A')) == ['A', 'A']
    assert sub(root, PC('>', 'QA')) == ['QA', 'QA', 'QA']
    assert sub(root, PC('>', 'C')) == [[['C'], ['C']]]
    assert sub(root, PC('>', '031001')) == ['031001']
    assert sub(root, PC('>', 'QF')) == ['QF']
    assert sub(root, PC('>', 'QC')) == [[['QC'], ['QC']]]
    assert sub(root, PC('/', '101000'), PC('.', '031001'), PC('.', 'QF')) == ['QF']
    assert sub(root, PC('/', '101000'), PC('/', 'C'), PC('.', 'QC')) == [[['QC'], ['QC']]]
    assert sub(root, PC('/', 'A'), PC('.', 'QA', 1)) == ['QA']
    assert q.filter_for_sub_nodes(root, [PC('/', 'A'), PC('.', 'QA', 1)]) == [qa2]
    assert q.filter_for_sub_nodes(root, [PC('/', 'A'), PC('.', 'QA', slice(None, None, -1))]) == [qa1, qa2]
    assert sub(root, PC('>', 'A'), PC('.', 'QA', 0)) == ['QA', 'QA']
    assert sub(root, PC('/', '300001'), PC('>', 'QA')) == ['QA']
    # an unknown separator of a hand-made component counts as "descendant" at the
    # dispatch, whatever its type; the selected nodes are then taken as they are
    assert q.filter_for_sub_nodes(root, [PC(None, 'A')]) == [a]
    assert q.filter_for_sub_nodes(root, [PC('?', 'B')]) == [b]
    assert q.filter_for_sub_nodes(root, [PC(['/'], 'B')]) == [b]
    assert q.filter_for_sub_nodes(a, [PC(None, 'QB')]) == [qa3]
    # the result is a list of the caller's own
    r1 = q.filter_for_sub_nodes(root, [PC('/', 'A')])
    r1.append('junk')
    assert q.filter_for_sub_nodes(root, [PC('/', 'A')]) == [a] and len(a.attributes) == 3
    assert len(root.members) == 4

    # attribute steps
    assert attrib(a, PC('.', 'QA')) == ['QA', 'QA']
    assert attrib(a, PC('.', 'QB')) == ['QB']
    assert attrib(a, PC('.', 'QA', 2)) == []
    assert attrib(a, PC('.', 'Q?')) == []
    assert attrib(a, PC('.', 'Q?'), PC('.', 'X')) == []
    assert q.filter_for_attribute_sub_nodes(a, [PC('.', 'QA', slice(1, None))]) == [qa2]
    assert attrib(rep, PC('.', '031001')) == ['031001']
    assert attrib(rep, PC('.', '031001', 0)) == ['031001']
    assert attrib(rep, PC('.', '031001', 1)) == []
    assert attrib(rep, PC('.', 'C')) == []       # members are not attributes
    assert attrib(rep, PC('.', '031001'), PC('.', 'QF')) == ['QF']
    assert attrib(factor, PC('.', 'QF')) == ['QF']
    assert attrib(rep, PC('>', 'QF')) == ['QF']      # descend through the factor
    assert attrib(a, PC('>', 'QA')) == ['QA', 'QA']
    # a delayed replication whose hand-made attributes share the factor's ID:
    # the slice applies to the factor and to the attributes separately
    odd = D('101000', 1, V('F'), [])
    odd.attributes = [V('F'), V('F')]
    got = q.filter_for_attribute_sub_nodes(odd, [PC('.', 'F', 0)])
    assert got == [odd.factor, odd.attributes[0]]
    got = q.filter_for_attribute_sub_nodes(odd, [PC('.', 'F', slice(1, None))])
    assert got == [odd.attributes[1]]
    # "factor" without being a delayed replication: accepted but nothing to offer
    class Odd(ValueDataNode):
        factor = None
    assert q.filter_for_attribute_sub_nodes(Odd(FakeDescriptor('O'), 0), [PC('.', 'F')]) == []

    # error cases
    assert raises(QueryError, q.filter_for_attribute_sub_nodes, b, [PC('.', 'QA')])
    assert raises(QueryError, q.filter_for_attribute_sub_nodes, root, [PC('.', 'QA')])
    assert raises(QueryError, q.filter_for_attribute_sub_nodes, b, [])      # the check precedes the path
    assert raises(IndexError, q.filter_for_attribute_sub_nodes, a, [])
    assert raises(IndexError, q.filter_for_sub_nodes, a, [])
    assert raises(TypeError, q.filter_for_sub_nodes, a, None)
    assert raises(AttributeError, q.filter_for_sub_nodes, a, [None])
    assert raises(QueryError, q.filter_for_sub_nodes, b, [PC('/', 'X')])
    assert raises(QueryError, q.filter_for_sub_nodes, b, [PC('.', 'X')])
    assert raises(QueryError, q.filter_for_sub_nodes, b, [PC('>', 'X')])
    assert raises(QueryError, q.filter_for_sub_nodes, root, [PC('/', 'A'), PC('.', 'QA'), PC('.', 'X')])
    broken = D('101000', 1, None, [])
    assert raises(AttributeError, q.filter_for_attribute_sub_nodes, broken, [PC('.', '031001')])

    # ---- messages rich in attributes (associated fields, quality info, statistics,
    # factors) against the oracle
    rnd = random.Random(1603)
    total = errors = 0
    for name in ('jaso_214.bufr', 'amv2_87.bufr', 'asr3_190.bufr', 'b005_89.bufr', 'g2nd_208.bufr',
                 'rado_250.bufr', 'contrived.bufr', 'prepbufr.bufr'):
        n, e = sweep(name, rnd, n_variants=4)
        total += n
        errors += e
    assert total > 3000 and errors > 0, (total, errors)

    # ---- the bare ID of an ordinary element returns every value with that ID of the flat data
    n_bare = 0
    for name in ('contrived.bufr', 'ISMD01_OKPR.bufr', 'jaso_214.bufr', 'mpco_217.bufr', '207003.bufr',
                 'IUSK73_AMMC_182300.bufr', 'amv2_87.bufr'):
        m = load(name)
        nested = nested_json(m)
        n_subsets = m.n_subsets.value
        subsets = sorted({0, n_subsets // 2, n_subsets - 1})
        not_ordinary = attribute_ids(nested[:2] + nested[-1:])
        ordinary = sorted({p[-1][1] for p in enumerate_paths(nested[:2] + nested[-1:])} - not_ordinary)
        assert ordinary
        for id_ in ordinary:
            for i_subset in subsets:
                r = q.query(m, '@[{}] > {}'.format(i_subset, id_))
                assert r.subset_indices() == [i_subset]
                assert r.all_values(flat=True) == [flat_values_with_id(m, id_, i_subset)], (name, id_)
                n_bare += 1
            if n_subsets <= 8:
                r = q.query(m, id_)
                assert r.all_values(flat=True) == [flat_values_with_id(m, id_, i) for i in range(n_subsets)]
    assert n_bare > 500, n_bare

    # ---- literal expectations
    m = load('jaso_214.bufr')
    assert q.query(m, '@[0]/123002/021062[0].A21062.031021').all_values() == [[[[1], [1]]]]
    assert q.query(m, '@[:2]/002173.A02173').all_values() == [[0], [0]]
    m = load('207003.bufr')
    assert q.query(m, '/310060/104000.031002').all_values() == [[5], [5]]
    assert raises(QueryError, q.query, m, '/310060/301021/006001.031002')
    m = load('asr3_190.bufr')
    assert q.query(m, '@[-2]/310028/101011/304037/012063.F12063.008023').all_values() == [[[[10] * 6] * 11]]
    print('demo 3 ok: {} queries agree with the oracle, {} expected QueryErrors, {} bare IDs'.format(
        total, errors, n_bare))


if __name__ == '__main__':
    main()
