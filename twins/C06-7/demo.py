import os, sys; sys.path.insert(0, os.getcwd())
"""
Refactor 7 - differential demonstration for TemplateData.wire / wire_members.

Messages are packed by hand, bit by bit, from a small script of raw field values
per subset.  The same script drives an independent model of BUFR (the class
Model below, which knows nothing of pybufrkit: own element table, own expansion
of the descriptors, own bitmap bookkeeping, own rules for what hangs where in
the tree).  For every scenario the demo checks

 * the flat descriptors / values / bitmap links decoded by pybufrkit against the model,
 * the wired node tree of every subset against the tree of the model,
 * that the subsets decoded together give what each one gives when decoded alone,
   and that permuting the subsets permutes the result (all orders),
 * NestedJsonRenderer output per subset (together == alone).

Then TemplateData objects are built by hand to reach the branches of wire() and
wire_members() that no decoded message reaches (SkippedLocalDescriptor member,
subclasses of the classes of the dispatch, a member of no known class,
compressed data, zero subsets, failing wiring, wiring twice).

Exits 0 on the unpatched and on the patched code.
"""
import itertools

import pybufrkit
assert os.path.dirname(os.path.dirname(os.path.abspath(pybufrkit.__file__))) == os.getcwd(), pybufrkit.__file__

from pybufrkit.decoder import Decoder
from pybufrkit.errors import PyBufrKitError
from pybufrkit.renderer import NestedJsonRenderer
from pybufrkit.descriptors import (Descriptor, ElementDescriptor, MarkerDescriptor, SkippedLocalDescriptor,
                                   AssociatedDescriptor, FixedReplicationDescriptor,
                                   DelayedReplicationDescriptor, OperatorDescriptor,
                                   SequenceDescriptor, BufrTemplate, UndefinedElementDescriptor)
from pybufrkit.templatedata import TemplateData

N_CHECKS = [0]


def check(cond, *msg):
    N_CHECKS[0] += 1
    if not cond:
        print('FAILED:', *msg)
        sys.exit(1)


def check_eq(a, b, *msg):
    N_CHECKS[0] += 1
    if a != b:
        print('FAILED:', *msg)
        print('   got     :', a)
        print('   expected:', b)
        sys.exit(1)


# --------------------------------------------------------------------------------------
# Packing a message by hand
# --------------------------------------------------------------------------------------
class Bits(object):
    def __init__(self):
        self.s = ''

    def put(self, v, n):
        assert n == 0 or 0 <= v < (1 << n), (v, n)
        if n:
            self.s += format(v, '0{}b'.format(n))

    def tobytes(self):
        s = self.s + '0' * (-len(self.s) % 8)
        return bytes(int(s[i:i + 8], 2) for i in range(0, len(s), 8))


def message(descriptors, n_subsets, bits, compressed=False):
    sec1 = bytes([0, 0, 22, 0, 0, 0, 0, 0, 0, 0, 0, 0, 0, 29, 0, 7, 230, 1, 1, 0, 0, 0])
    ds = b''.join(bytes([(d // 100000) << 6 | (d // 1000 % 100), d % 1000]) for d in descriptors)
    n3 = 7 + len(ds)
    sec3 = bytes([0, n3 >> 8, n3 & 255, 0, n_subsets >> 8, n_subsets & 255, 0x80 | (0x40 if compressed else 0)]) + ds
    data = bits.tobytes()
    n4 = 4 + len(data)
    sec4 = bytes([n4 >> 16, n4 >> 8 & 255, n4 & 255, 0]) + data
    total = 8 + len(sec1) + len(sec3) + len(sec4) + 4
    return b'BUFR' + bytes([total >> 16, total >> 8 & 255, total & 255, 4]) + sec1 + sec3 + sec4 + b'7777'


# --------------------------------------------------------------------------------------
# The independent model
# --------------------------------------------------------------------------------------
# id: (kind, nbits, scale, reference value)     [WMO table B, version 29]
ELEMENTS = {
    1001: ('num', 7, 0, 0),
    1002: ('num', 10, 0, 0),
    1015: ('str', 160, 0, 0),
    2001: ('code', 2, 0, 0),
    4024: ('num', 12, 0, -2048),
    8023: ('code', 6, 0, 0),
    8024: ('code', 6, 0, 0),
    11001: ('num', 9, 0, 0),
    11002: ('num', 12, 1, 0),
    12001: ('num', 12, 1, 0),
    31000: ('num', 1, 0, 0),
    31001: ('num', 8, 0, 0),
    31021: ('code', 6, 0, 0),
    31031: ('code', 1, 0, 0),
    33007: ('num', 7, 0, 0),
}
SEQUENCES = {301001: [1001, 1002]}
MARKER_PREFIX = {223255: 'T', 224255: 'F', 225255: 'D', 232255: 'R'}
MARKER_NODE = {223: 'SubstitutionNode', 224: 'FirstOrderStatsNode',
               225: 'DifferenceStatsNode', 232: 'ReplacementNode'}


def expand(ds):
    """The unexpanded descriptors as a tree of template items."""
    items, i = [], 0
    while i < len(ds):
        d = ds[i]
        f, x, y = d // 100000, d // 1000 % 100, d % 1000
        if f == 0:
            items.append(('E', d))
            i += 1
        elif f == 1 and y == 0:
            items.append(('D', d, ds[i + 1], expand(ds[i + 2: i + 2 + x])))
            i += 2 + x
        elif f == 1:
            items.append(('F', d, y, expand(ds[i + 1: i + 1 + x])))
            i += 1 + x
        elif f == 2:
            items.append(('O', d))
            i += 1
        else:
            items.append(('S', d, expand(SEQUENCES[d])))
            i += 1
    return items


def sid(d):
    return '{:06d}'.format(d)


class Model(object):
    """
    One application of the template to one subset.  Everything starts from
    scratch: that the subsets do not know of each other is the property.

    script: the raw content of each field of the subset, in order (unsigned
    integers as they are in the bits; bytes for strings).
    """

    def __init__(self, descriptors, script, bits):
        self.script = list(script)
        self.bits = bits
        self.flat = []  # (descriptor as text, value, is a plain element)
        self.links = {}
        self.nodes = {}  # flat index -> node of the tree
        self.tree = []
        self.into = self.tree

        self.assoc = []
        self.assoc_meaning = None
        self.dnp = 0
        self.d_nbits = self.d_scale = 0
        self.m_nbits, self.m_scale, self.m_factor = 0, 0, 1
        self.new_nbytes = 0
        self.nbits_new_refval = 0
        self.new_refvals = {}
        self.nbits_local = 0

        self.bm_state = 'NA'
        self.bm_reuse = False
        self.bm_count = 0
        self.bm_saved = None
        self.boundary = 0
        self.backrefs = None
        self.bitmapped = None
        self.qa = 'NA'  # coder side
        self.qa_waiting = False  # tree side
        self.stats1_meaning = self.stats2_meaning = None
        self.stats1_waiting = self.stats2_waiting = False

        self.walk(expand(descriptors))
        assert not self.script, ('script not used up', self.script)

    # ---- fields
    def raw(self, nbits):
        v = self.script.pop(0)
        if isinstance(v, bytes):
            assert len(v) * 8 == nbits, (v, nbits)
            for c in v:
                self.bits.put(c, 8)
        else:
            self.bits.put(v, nbits)
        return v

    def uint_or_none(self, nbits):
        v = self.raw(nbits)
        return None if nbits > 1 and v == (1 << nbits) - 1 else v

    def emit(self, text, value, plain=False):
        self.flat.append((text, value, plain))
        return len(self.flat) - 1

    def put_node(self, node, index=None):
        self.into.append(node)
        if index is not None:
            self.nodes[index] = node
        return node

    @staticmethod
    def vnode(cls, text, value):
        return ['V', cls, text, value, []]

    # ---- the walk
    def walk(self, items):
        for item in items:
            kind, d = item[0], item[1]

            if self.dnp:
                self.dnp -= 1
                if kind == 'E' and not (1 <= d // 1000 <= 9 or d // 1000 == 31):
                    self.put_node(['N', sid(d)])
                    continue

            if self.nbits_new_refval and kind == 'E' and d in ELEMENTS:
                # sign and magnitude
                v = self.raw(self.nbits_new_refval)
                half = 1 << (self.nbits_new_refval - 1)
                value = -(v - half) if v >= half else v
                self.new_refvals[d] = value
                i = self.emit(sid(d), value, plain=True)
                self.put_node(self.vnode('ValueDataNode', sid(d), value), i)
                continue

            if self.nbits_local:
                v = self.uint_or_none(self.nbits_local)
                self.nbits_local = 0
                text = 'S{:05d}'.format(d)
                i = self.emit(text, v)
                self.put_node(self.vnode('ValueDataNode', text, v), i)
                continue

            if self.bm_state != 'NA':
                self.bitmap_definition(d)

            if kind == 'E':
                self.element(d)
            elif kind == 'F':
                node = self.put_node(['F', sid(d), []])
                outer, self.into = self.into, node[2]
                for _ in range(item[2]):
                    self.walk(item[3])
                self.into = outer
            elif kind == 'D':
                node = self.put_node(['D', sid(d), None, []])
                outer, self.into = self.into, []  # the factor is no member
                factor = self.element(item[2])
                node[2] = factor
                self.into = node[3]
                for _ in range(factor[3]):
                    self.walk(item[3])
                self.into = outer
            elif kind == 'S':
                node = self.put_node(['S', sid(d), []])
                outer, self.into = self.into, node[2]
                self.walk(item[2])
                self.into = outer
            else:
                self.operator(d)

    def bitmap_definition(self, d):
        if self.bm_state == 'INDICATOR':
            if d == 237000:
                self.bm_state = 'NA'
            else:
                self.bm_reuse = d == 236000
                self.bm_state, self.bm_count = 'WAITING', 0
        elif self.bm_state == 'WAITING':
            if d == 31031:
                self.bm_state, self.bm_count = 'COUNTING', self.bm_count + 1
        else:
            if d == 31031:
                self.bm_count += 1
            else:
                bitmap = [v for (_, v, _) in self.flat[-self.bm_count:]]
                if self.bm_reuse:
                    self.bm_saved = bitmap
                self.use_bitmap(bitmap)
                self.bm_state = 'NA'

    def use_bitmap(self, bitmap):
        if not self.backrefs:
            plain = [i for i in range(self.boundary) if self.flat[i][2]]
            self.backrefs = plain[len(plain) - len(bitmap):] if bitmap else []
        assert len(self.backrefs) == len(bitmap)
        self.bitmapped = [i for bit, i in zip(bitmap, self.backrefs) if bit == 0]

    def read_as(self, d, extra_nbits=0, refval=None):
        """The value of an element of table B under the operators in force."""
        kind, nbits, scale, ref = ELEMENTS[d]
        if kind == 'str':
            return self.raw(8 * self.new_nbytes if self.new_nbytes else nbits)
        if kind == 'code':
            return self.uint_or_none(nbits + extra_nbits)
        if refval is not None:
            ref = refval
        elif d in self.new_refvals:
            ref = self.new_refvals[d]
        v = self.uint_or_none(nbits + extra_nbits + self.d_nbits + self.m_nbits)
        if v is None:
            return None
        v += ref * self.m_factor
        scale += self.d_scale + self.m_scale
        return v / (1.0 * 10 ** scale) if scale else v

    def element(self, d):
        x = d // 1000
        assoc_node = None
        if self.assoc and x != 31:
            text = 'A{:05d}'.format(d)
            v = self.uint_or_none(sum(self.assoc))
            i = self.emit(text, v)
            assoc_node = self.vnode('AssociatedFieldNode', text, v)
            assoc_node[4].append(self.assoc_meaning)

        linked = None
        if x == 33:
            if self.qa == 'WAITING':
                self.qa = 'PROCESSING'
            if self.qa == 'PROCESSING':
                linked = self.bitmapped.pop(0)
                self.links[len(self.flat)] = linked
        elif self.qa == 'PROCESSING':
            self.qa = 'NA'

        value = self.read_as(d)
        i = self.emit(sid(d), value, plain=True)

        if assoc_node is not None:
            node = self.vnode('ValueDataNode', sid(d), value)
            node[4].append(assoc_node)
            return self.put_node(node, i)

        if x == 33 and self.qa_waiting:
            if linked is not None:
                node = self.put_node(self.vnode('QualityInfoNode', sid(d), value), i)
                self.nodes[linked][4].append(node)
                return node
            self.qa_waiting = False
            return self.put_node(self.vnode('ValueDataNode', sid(d), value), i)

        node = self.put_node(self.vnode('ValueDataNode', sid(d), value), i)
        if d == 31021 and self.assoc:
            self.assoc_meaning = node
        elif d == 8023 and self.stats1_waiting:
            self.stats1_meaning, self.stats1_waiting = node, False
        elif d == 8024 and self.stats2_waiting:
            self.stats2_meaning, self.stats2_waiting = node, False
        return node

    def constant(self, d):
        i = self.emit(sid(d), 0)
        return self.put_node(self.vnode('ValueDataNode', sid(d), 0), i)

    def operator(self, d):
        code, operand = d // 1000, d % 1000
        if code == 201:
            self.d_nbits = operand - 128 if operand else 0
            self.put_node(['N', sid(d)])
        elif code == 202:
            self.d_scale = operand - 128 if operand else 0
            self.put_node(['N', sid(d)])
        elif code == 203:
            self.nbits_new_refval = 0 if operand == 255 else operand
            if operand == 0:
                self.new_refvals = {}
            self.put_node(['N', sid(d)])
        elif code == 204:
            if operand:
                self.assoc.append(operand)
            else:
                self.assoc.pop()
            self.put_node(['N', sid(d)])
        elif code == 205:
            v = self.raw(8 * operand)
            i = self.emit(sid(d), v)
            self.put_node(self.vnode('ValueDataNode', sid(d), v), i)
        elif code == 206:
            self.nbits_local = operand
            self.put_node(['N', sid(d)])
        elif code == 207:
            self.m_nbits, self.m_scale, self.m_factor = (
                ((10 * operand + 2) // 3, operand, 10 ** operand) if operand else (0, 0, 1))
            self.put_node(['N', sid(d)])
        elif code == 208:
            self.new_nbytes = operand
            self.put_node(['N', sid(d)])
        elif code == 221:
            self.dnp = operand
            self.put_node(['N', sid(d)])
        elif code in (222, 223, 224, 225, 232):
            if code != 222:
                self.qa_waiting = False
            else:
                self.qa_waiting = True
            if operand == 0:
                self.bm_state = 'INDICATOR'
                self.boundary = len(self.flat)
                self.constant(d)
                if code == 222:
                    self.qa = 'WAITING'
                elif code == 224:
                    self.stats1_waiting = True
                elif code == 225:
                    self.stats2_waiting = True
            else:
                linked = self.bitmapped.pop(0)
                self.links[len(self.flat)] = linked
                of = int(self.flat[linked][0])
                if self.qa == 'PROCESSING' and of // 1000 != 33:
                    self.qa = 'NA'
                if d == 225255:
                    value = self.read_as(of, extra_nbits=1, refval=-2 ** ELEMENTS[of][1])
                else:
                    value = self.read_as(of)
                text = '{}{:05d}'.format(MARKER_PREFIX[d], of)
                i = self.emit(text, value)
                node = self.put_node(self.vnode(MARKER_NODE[code], text, value), i)
                if code == 224:
                    node[4].append(self.stats1_meaning)
                elif code == 225:
                    node[4].append(self.stats2_meaning)
                self.nodes[linked][4].append(node)
        elif code == 235:
            self.backrefs = self.bm_saved = self.bitmapped = None
            self.qa_waiting = False
            self.put_node(['N', sid(d)])
        elif code == 236:
            self.constant(d)
        elif code == 237:
            if operand == 0:
                assert self.bm_saved is not None
                self.use_bitmap(self.bm_saved)
            else:
                self.bm_saved = None
            self.constant(d)
        else:
            raise AssertionError(d)


# --------------------------------------------------------------------------------------
# What pybufrkit made of it, in the terms of the model
# --------------------------------------------------------------------------------------
def tree_of(nodes, values):
    out = []
    for node in nodes:
        cls = type(node).__name__
        if cls == 'NoValueDataNode':
            out.append(['N', str(node.descriptor)])
        elif cls == 'FixedReplicationNode':
            out.append(['F', str(node.descriptor), tree_of(node.members, values)])
        elif cls == 'DelayedReplicationNode':
            out.append(['D', str(node.descriptor), tree_of([node.factor], values)[0],
                        tree_of(node.members, values)])
        elif cls == 'SequenceNode':
            out.append(['S', str(node.descriptor), tree_of(node.members, values)])
        else:
            out.append(['V', cls, str(node.descriptor), values[node.index],
                        tree_of(getattr(node, 'attributes', []), values)])
    return out


def decode(descriptors, scripts):
    bits = Bits()
    models = [Model(descriptors, script, bits) for script in scripts]
    bufr_message = Decoder().process(message(descriptors, len(scripts), bits))
    template_data = bufr_message.template_data.value
    template_data.wire()
    return models, template_data


def observed(template_data, i):
    flat = list(zip([str(d) for d in template_data.decoded_descriptors_all_subsets[i]],
                    template_data.decoded_values_all_subsets[i]))
    types = [type(d) is ElementDescriptor for d in template_data.decoded_descriptors_all_subsets[i]]
    return (flat, types, template_data.bitmap_links_all_subsets[i],
            tree_of(template_data.decoded_nodes_all_subsets[i], template_data.decoded_values_all_subsets[i]))


def expected(model):
    return ([(t, v) for (t, v, _) in model.flat], [p for (_, _, p) in model.flat], model.links, model.tree)


def scenario(name, descriptors, scripts, permute=True):
    models, together = decode(descriptors, scripts)
    jsons = NestedJsonRenderer().render(together)
    check_eq(together.n_subsets, len(scripts), name)
    check(together._is_wired and not hasattr(together, 'index_to_node'), name, 'wired, index released')
    for i, model in enumerate(models):
        check_eq(observed(together, i), expected(model), name, 'subset', i, 'of', len(scripts), 'against the model')
        # a subset alone
        _, alone = decode(descriptors, [scripts[i]])
        check_eq(observed(alone, 0), observed(together, i), name, 'subset', i, 'alone / together')
        check_eq(NestedJsonRenderer().render(alone), [jsons[i]], name, 'subset', i, 'nested JSON alone / together')
    # what wire() leaves bound is the last subset
    check(together.decoded_nodes is together.decoded_nodes_all_subsets[-1], name, 'last subset bound')
    check(together.decoded_values is together.decoded_values_all_subsets[-1], name, 'last subset bound')
    if permute:
        base = [observed(together, i) for i in range(len(scripts))]
        for order in itertools.permutations(range(len(scripts))):
            _, permuted = decode(descriptors, [scripts[i] for i in order])
            check_eq([observed(permuted, k) for k in range(len(order))], [base[i] for i in order],
                     name, 'order', order)
    return models, together


def count(tree, what):
    n = 0
    for node in tree:
        if node[0] == 'V':
            n += (node[1] == what) + count(node[4], what)
        else:
            n += node[0] == what
            if node[0] == 'D':
                n += count([node[2]], what)
            if node[0] in 'FDS':
                n += count(node[-1], what)
    return n


MISSING12 = (1 << 12) - 1

# ---- 1. structure: sequence, delayed and fixed replication, nesting, zero counts
D1 = [301001, 101000, 31001, 12001, 102002, 11001, 11002, 104000, 31001, 2001, 101000, 31000, 4024]
S1 = [
    [1, 2, 0, 10, 20, 30, 40, 0],
    [3, 4, 3, 2731, MISSING12, 2800, 11, 21, 31, 41, 2, 1, 1, 2048, 2, 0],
    [127, 1023, 1, 0, 0, 0, 0, 0, 1, 3, 1, 0],
    [5, 6, 2, 1, 2, 359, 1, 0, 4094, 3, 0, 0, 1, 1, 4000, 2, 0],
]
models, _ = scenario('structure', D1, S1)
check_eq(models[1].tree[1], ['D', '101000', ['V', 'ValueDataNode', '031001', 3, []], [
    ['V', 'ValueDataNode', '012001', 273.1, []], ['V', 'ValueDataNode', '012001', None, []],
    ['V', 'ValueDataNode', '012001', 280.0, []]]], 'the model itself, spot check')
check_eq(models[0].tree[3], ['D', '104000', ['V', 'ValueDataNode', '031001', 0, []], []], 'zero count')
check_eq(models[1].tree[3][3][1], ['D', '101000', ['V', 'ValueDataNode', '031000', 1, []],
                                   [['V', 'ValueDataNode', '004024', 0, []]]], 'nested, spot check')

# ---- 2. 221 YYY: the count runs over elements, replications, operators and sequences alike
D2 = [221004, 1001, 12001, 101002, 11001, 12001,
      221004, 301001, 12001, 11001,
      221002, 201129, 12001, 201000, 12001,
      221001, 31001, 221000, 11001]
S2 = [
    [7, 100, 200, 1, 2, 300, 400, 9, 500],
    [8, 101, MISSING12, 3, 4, 301, 401, 0, 501],
    [9, 102, 202, 127, 1023, 302, 402, 255, 502],
]
models, _ = scenario('data not present', D2, S2)
for model in models:
    check_eq(count(model.tree, 'N'), 4 + 1 + 1 + 1 + 3 + 1, 'nodes without value (operators and skipped elements)')
check_eq(models[0].tree[:4], [
    ['N', '221004'], ['V', 'ValueDataNode', '001001', 7, []], ['N', '012001'],
    ['F', '101002', [['N', '011001'], ['V', 'ValueDataNode', '011001', 100, []]]]], '221004, spot check')
check_eq(models[0].tree[6:9], [
    ['S', '301001', [['V', 'ValueDataNode', '001001', 1, []], ['V', 'ValueDataNode', '001002', 2, []]]],
    ['N', '012001'], ['V', 'ValueDataNode', '011001', 300, []]], '221004 over a sequence, spot check')

# ---- 3. 204 YYY associated fields (nested), class 31 elements have none
D3 = [204007, 31021, 12001, 101000, 31001, 11001, 204002, 31021, 11002, 204000, 12001, 204000, 12001]
S3 = [
    [1, 100, 2731, 0, 2, (3 << 7) | 5, 100, 6, 2800, 2900],
    [63, 127, MISSING12, 2, 0, 10, 1, 20, 7, 511, 111, 50, 2801, 2901],
    [2, 3, 1, 1, 4, 350, 8, 1, 222, 51, 2802, 0],
]
models, _ = scenario('associated fields', D3, S3)
check_eq(models[1].tree[2], ['V', 'ValueDataNode', '012001', None, [
    ['V', 'AssociatedFieldNode', 'A12001', None, [['V', 'ValueDataNode', '031021', None, []]]]]], 'spot check')
check_eq(models[0].tree[6][4][0][4], [['V', 'ValueDataNode', '031021', 2, []]], 'the later 031021 is the meaning')

# ---- 4. bitmaps: delayed replication before the bitmap, quality information, statistics,
#         substituted and replaced values, reuse, cancellation, a second bitmap of another length
D4 = [1001, 101000, 31001, 12001, 11001,
      222000, 236000, 101000, 31001, 31031, 101000, 31001, 33007,
      224000, 237000, 8023, 101000, 31001, 224255,
      225000, 237000, 8024, 101000, 31001, 225255,
      223000, 237000, 101000, 31001, 223255,
      232000, 237000, 101000, 31001, 232255,
      237255, 235000,
      222000, 101000, 31001, 31031, 101000, 31001, 33007,
      1001, 33007]


def bitmap_script(block, temps, wind, bits1, qa, st1, st2, sub, rep, bits2, qa2, tail):
    zeros1, zeros2 = bits1.count(0), bits2.count(0)
    assert len(qa) == len(st1) == len(st2) == len(sub) == len(rep) == zeros1 and len(qa2) == zeros2
    return ([block, len(temps)] + temps + [wind] +
            [len(bits1)] + bits1 + [zeros1] + qa +
            [4, zeros1] + st1 + [2, zeros1] + st2 + [zeros1] + sub + [zeros1] + rep +
            [len(bits2)] + bits2 + [zeros2] + qa2 + [5, tail])


S4 = [
    # bitmap over 012001 012001 011001; then over the last two plain elements before the second 222000
    bitmap_script(1, [2731, 2741], 90, [0, 1, 0], [50, 60], [2700, 91], [4096 + 5, 512 - 3], [2732, 92], [2733, 93],
                  [0, 0], [70, 71], 99),
    # no temperature at all: the bitmap reaches back over 011001, the factor 031001 and 001001
    bitmap_script(2, [], 180, [0, 0, 0], [1, 2, 3], [5, 0, 181], [129, 256, 128], [6, 1, 182], [7, 2, 183],
                  [1, 0, 1, 0], [72, 73], 98),
    # a bitmap that selects nothing (every replication of marker operators has a count of zero)
    bitmap_script(3, [2500], 270, [1, 1], [], [], [], [], [], [0], [55], 97),
    bitmap_script(4, [2601, 2602, 2603], 0, [0, 0, 0, 0], [10, 20, 30, 127], [1, 2, 3, 4], [8191, 0, 4096, 1],
                  [MISSING12, 2, 3, 4], [5, 6, 7, 8], [0], [100], 127),
]
models, _ = scenario('bitmaps', D4, S4, permute=False)
_, _ = scenario('bitmaps, three subsets in all orders', D4, S4[:3])
# spot checks of the model
t = models[0].tree
check_eq([n[1] for n in t[1][3][0][4]], ['QualityInfoNode', 'FirstOrderStatsNode', 'DifferenceStatsNode',
                                         'SubstitutionNode', 'ReplacementNode'], 'attributes of the first 012001')
check_eq(t[1][3][1][4], [], 'second 012001: bit 1, nothing attached')
check_eq([n[1] for n in t[2][4]], ['QualityInfoNode', 'FirstOrderStatsNode', 'DifferenceStatsNode',
                                         'SubstitutionNode', 'ReplacementNode'], 'attributes of 011001')
check_eq(t[1][3][0][4][2], ['V', 'DifferenceStatsNode', 'D12001', 0.5,
                            [['V', 'ValueDataNode', '008024', 2, []]]], '225255: one more bit, reference -2**12')
check_eq(t[2][4][2][3], -3, '225255 of 011001')
check_eq(models[0].links, {12: 2, 13: 4, 18: 2, 19: 4, 24: 2, 25: 4, 29: 2, 30: 4, 34: 2, 35: 4, 42: 28, 43: 33},
         'bitmap links of the first subset')
check_eq(sorted(set(models[1].links.values())), [0, 1, 2, 23, 35], 'second subset: other elements are referred to')
check_eq(models[2].links, {29: 23}, 'third subset: one link, to a replication factor')
check_eq(models[0].tree[-1], ['V', 'ValueDataNode', '033007', 99, []], 'a class 33 element after the run is ordinary')
for model in models:
    # each one is met twice: where it stands and where it is attached
    check_eq(count(model.tree, 'QualityInfoNode'), 2 * len([k for k in model.links
                                                            if model.flat[k][0] == '033007']), 'QA nodes')

# ---- 5. operators that only change how a field is read: 201, 202, 203, 205, 206, 207, 208
D5 = [201130, 12001, 201000, 202129, 12001, 202000, 207001, 4024, 207000,
      203012, 4024, 203255, 4024, 203000, 4024,
      205002, 206009, 63255, 208002, 1015, 208000, 1015, 102000, 31001, 206003, 63001]
NAME = b'STATION NAME 20 BYTE'
S5 = [
    [10000, 2731, 1000, 100, 10, 0, b'ab', 300, b'XY', NAME, 2, 1, 7],
    [(1 << 14) - 1, MISSING12, (1 << 16) - 1, 2048 + 100, 0, 4094, b'  ', 511, b'\xff\xff', NAME[::-1], 0],
    [1, 2, 3, 2047, MISSING12, 5, b'cd', 0, b'Z ', b' ' * 20, 1, 0],
]
models, _ = scenario('operators', D5, S5)
check_eq([v for (_, v, _) in models[0].flat],
         [1000.0, 27.31, -1948.0, 100, 110, -2048, b'ab', 300, b'XY', NAME, 2, 1, None], 'values, spot check')
check_eq([v for (_, v, _) in models[1].flat][:6], [None, None, None, -100, -100, 2046], 'values, spot check')
check_eq(models[0].tree[16:19], [['N', '206009'], ['V', 'ValueDataNode', 'S63255', 300, []], ['N', '208002']],
         'skipped local descriptor, spot check')

# ---- 6. templates that end inside an operator construct
D6 = [12001, 11001, 222000, 101000, 31001, 31031]  # the bitmap is never used
S6 = [[1, 2, 2, 0, 1], [3, 4, 0], [5, 6, 1, 0], [7, 8, 2, 1, 1]]
scenario('ends while the bits are counted', D6, S6)
D7 = [12001, 204003, 31021, 201130, 12001, 221005, 11001]  # 204, 201 and 221 still in force at the end
S7 = [[1, 2, 5, 3], [4, 63, 7, 6], [MISSING12, 0, 0, (1 << 14) - 1]]
scenario('ends with operators in force', D7, S7)
D8 = [1001, 203010, 12001]  # still defining reference values at the end
S8 = [[1, 5], [2, 512 + 5], [3, 0]]
models, _ = scenario('ends while reference values are defined', D8, S8)
check_eq([m.flat[1][1] for m in models], [5, -5, 0], 'sign and magnitude')
D9 = [1001, 206008]  # 206 YYY with nothing after it
scenario('ends after 206YYY', D9, [[1], [2], [3]])

# --------------------------------------------------------------------------------------
# TemplateData built by hand: the branches no decoded message reaches
# --------------------------------------------------------------------------------------
E = {d: ElementDescriptor(d, 'name of {}'.format(d), 'K', s, r, n, 'C', 0, 0)
     for d, (_, n, s, r) in ELEMENTS.items()}


def flat_of(ds, n):
    return [list(ds) for _ in range(n)]


# SkippedLocalDescriptor and UndefinedElementDescriptor members, subclasses of the dispatch classes:
# MarkerDescriptor (an ElementDescriptor) and BufrTemplate (a SequenceDescriptor)
marker = MarkerDescriptor.from_element_descriptor(E[12001], 224255)
inner = BufrTemplate(members=[E[1002]])
skipped = SkippedLocalDescriptor(63001, 5)
undefined = UndefinedElementDescriptor(63002)
template = BufrTemplate(members=[E[1001], skipped, undefined, marker, inner,
                                 FixedReplicationDescriptor(101002, [E[11001]]),
                                 DelayedReplicationDescriptor(101000, [E[11002]], E[31001]),
                                 OperatorDescriptor(201130), SequenceDescriptor(301001, 'seq', [E[1001], E[1002]])])
flat = [E[1001], skipped, skipped, marker, E[1002], E[11001], E[11001], E[31001], E[11002], E[1001], E[1002]]
values = [[1, 2, 3, 4, 5, 6, 7, 1, 9, 10, 11], [11, 12, 13, 14, 15, 16, 17, 1, 19, 20, 21]]
td = TemplateData(template, False, flat_of(flat, 2), values, [{}, {}])
td.wire()
for i in range(2):
    v = values[i]
    check_eq(tree_of(td.decoded_nodes_all_subsets[i], v), [
        ['V', 'ValueDataNode', '001001', v[0], []],
        ['V', 'ValueDataNode', 'S63001', v[1], []],
        ['V', 'ValueDataNode', 'S63001', v[2], []],
        ['V', 'ValueDataNode', 'F12001', v[3], []],
        ['S', 'BufrTemplate', [['V', 'ValueDataNode', '001002', v[4], []]]],
        ['F', '101002', [['V', 'ValueDataNode', '011001', v[5], []], ['V', 'ValueDataNode', '011001', v[6], []]]],
        ['D', '101000', ['V', 'ValueDataNode', '031001', 1, []], [['V', 'ValueDataNode', '011002', v[8], []]]],
        ['N', '201130'],
        ['S', '301001', [['V', 'ValueDataNode', '001001', v[9], []], ['V', 'ValueDataNode', '001002', v[10], []]]],
    ], 'hand made template, subset', i)
check(td._is_wired and not hasattr(td, 'index_to_node'), 'wired')

# 221 YYY counts members of any class; a marker descriptor of class 12 is an element and is skipped,
# a skipped local descriptor is not an element and is wired
template = BufrTemplate(members=[OperatorDescriptor(221003), skipped, marker, E[1001], E[12001]])
td = TemplateData(template, False, flat_of([skipped, E[1001], E[12001]], 1), [[1, 2, 3]], [{}])
td.wire()
check_eq(tree_of(td.decoded_nodes_all_subsets[0], [1, 2, 3]), [
    ['N', '221003'], ['V', 'ValueDataNode', 'S63001', 1, []], ['N', 'F12001'],
    ['V', 'ValueDataNode', '001001', 2, []], ['V', 'ValueDataNode', '012001', 3, []]], '221 over odd members')
check_eq(td.data_not_present_count, 0, 'count used up')

# a member of no known class: same exception, same message, and the wiring does not count as done
for odd in (AssociatedDescriptor(12001, 3), Descriptor(12001), 12001):
    template = BufrTemplate(members=[E[1001], odd])
    td = TemplateData(template, False, flat_of([E[1001], E[12001]], 2), [[1, 2], [3, 4]], [{}, {}])
    for attempt in range(2):
        try:
            td.wire()
            check(False, 'no error')
        except PyBufrKitError as e:
            check_eq(e.args, ('Cannot wire descriptor type: {}'.format(type(odd)),), 'message')
        check(not td._is_wired and hasattr(td, 'index_to_node'), 'a failed wiring is not a wiring')
        check_eq(len(td.decoded_nodes_all_subsets[0]), 1 + attempt, 'first member was wired before the failure')
        check_eq(td.decoded_nodes_all_subsets[1], [], 'the second subset was not reached')
    # ... unless 221 YYY skips it? No: only elements are skipped, the odd member is still refused
    template = BufrTemplate(members=[OperatorDescriptor(221002), odd])
    td = TemplateData(template, False, [[]], [[]], [{}])
    try:
        td.wire()
        check(False, 'no error')
    except PyBufrKitError as e:
        check_eq(e.args, ('Cannot wire descriptor type: {}'.format(type(odd)),), 'message')
    check_eq(td.data_not_present_count, 1, 'counted before it was refused')

# an operator that wire_operator_descriptor does not know: NotImplementedError passes through
td = TemplateData(BufrTemplate(members=[OperatorDescriptor(241000)]), False, [[]], [[]], [{}])
try:
    td.wire()
    check(False, 'no error')
except NotImplementedError as e:
    check_eq(str(e), 'Operator Descriptor 241000 not implemented', 'message')

# fewer decoded descriptors than the template asks for: IndexError, in the subset where it happens
template = BufrTemplate(members=[E[1001], E[1002]])
td = TemplateData(template, False, [[E[1001], E[1002]], [E[1001]]], [[1, 2], [3]], [{}, {}])
try:
    td.wire()
    check(False, 'no error')
except IndexError:
    pass
check(not td._is_wired, 'not wired')
check_eq(tree_of(td.decoded_nodes_all_subsets[0], [1, 2]),
         [['V', 'ValueDataNode', '001001', 1, []], ['V', 'ValueDataNode', '001002', 2, []]], 'first subset done')
check_eq(tree_of(td.decoded_nodes_all_subsets[1], [3]), [['V', 'ValueDataNode', '001001', 3, []]], 'second: partly')
check(td.decoded_nodes is td.decoded_nodes_all_subsets[1] and td.decoded_values is td.decoded_values_all_subsets[1]
      and td.decoded_descriptors is td.decoded_descriptors_all_subsets[1]
      and td.bitmap_links is td.bitmap_links_all_subsets[1], 'bound to the subset that failed')

# the containers of one subset are missing: IndexError after the earlier containers were bound
td = TemplateData(template, False, [[E[1001], E[1002]]] * 2, [[1, 2]], [{}, {}])
try:
    td.wire()
    check(False, 'no error')
except IndexError:
    pass
check(td.decoded_nodes is td.decoded_nodes_all_subsets[1]
      and td.decoded_descriptors is td.decoded_descriptors_all_subsets[1]
      and td.decoded_values is td.decoded_values_all_subsets[0], 'nodes and descriptors bound, values not')
check_eq([len(n) for n in td.decoded_nodes_all_subsets], [2, 0], 'first subset wired only')

# wiring twice wires once
td = TemplateData(template, False, flat_of([E[1001], E[1002]], 3), [[1, 2], [3, 4], [5, 6]], [{}, {}, {}])
td.wire()
td.wire()
check_eq([len(n) for n in td.decoded_nodes_all_subsets], [2, 2, 2], 'wired once')
check_eq(td.next_index(), 2, 'the counter of the last subset is where the wiring left it')

# compressed: one wiring, shared by all subsets; whatever the number of subsets the first one is wired
shared = [E[1001], E[1002]]
td = TemplateData(template, True, [shared] * 3, [[1, 2], [3, 4], [5, 6]], [{}] * 3)
td.wire()
check(all(n is td.decoded_nodes_all_subsets[0] for n in td.decoded_nodes_all_subsets), 'shared nodes')
check_eq(len(td.decoded_nodes_all_subsets[0]), 2, 'wired once')
td = TemplateData(template, True, [], [], [])
try:
    td.wire()
    check(False, 'no error')
except IndexError:
    pass
check(not td._is_wired, 'compressed, no subset: IndexError')

# uncompressed, no subset: nothing to do, and done
td = TemplateData(template, False, [], [], [])
td.wire()
check(td._is_wired and td.decoded_nodes == [] and not hasattr(td, 'next_index'), 'no subset')

# the methods are looked up on the object when a member is wired: a subclass that overrides them is served
calls = []


class Spy(TemplateData):
    def wire_element_descriptor(self, descriptor):
        calls.append(('element', str(descriptor)))
        super(Spy, self).wire_element_descriptor(descriptor)

    def wire_sequence_descriptor(self, descriptor):
        calls.append(('sequence', str(descriptor)))
        super(Spy, self).wire_sequence_descriptor(descriptor)

    def wire_skippable_local_descriptor(self):
        calls.append(('local',))
        super(Spy, self).wire_skippable_local_descriptor()

    def wire_members(self, members):
        calls.append(('members', len(members)))
        super(Spy, self).wire_members(members)


template = BufrTemplate(members=[inner, skipped, undefined])
td = Spy(template, False, flat_of([E[1002], skipped, skipped], 2), [[1, 2, 3], [4, 5, 6]], [{}, {}])
td.wire()
check_eq(calls, [('members', 3), ('sequence', 'BufrTemplate'), ('members', 1), ('element', '001002'),
                 ('local',), ('local',)] * 2, 'overridden methods are the ones called, in this order')

print('OK: {} checks'.format(N_CHECKS[0]))
