import os, sys; sys.path.insert(0, os.getcwd())
"""
Differential demonstration for refactor 8 (NestedJsonRenderer: template data nodes rendered node by
node, repetitions of a replication rendered by a helper, loops written as comprehensions).

The nested JSON rendering is what the paths of property C16 are evaluated over, so it is compared with
references that are computed here and do not use the renderer:

A. for templates without operators: a walk of the *template* (descriptor objects) over the flat
   descriptors / values of the subset (knows nothing of the node tree),
B. for every message: a walk of the wired node tree with an explicit work list (iterative, written from
   the description of the format: id / description / value / virtual / attributes / factor / members),
C. a literal for a small message made by hand (zero-count delayed replication, fixed replication,
   sequence), including the order of the keys,
D. the link to the property: child / attribute paths evaluated over the rendering give what
   DataQuerent returns,
E. hand-made nodes and doctored values that reach the corners: no-value node without members, fixed
   replication with no repetition, counts larger than what was wired (empty trailing repetitions),
   count None (TypeError), values cut short (IndexError), node classes that the tree knows only by
   name (description from the class name), markers, attributes of attributes.

Run from the worktree root: /venv/bin/python _out/8/demo.py
"""
import json
import logging

from pybufrkit.decoder import Decoder
from pybufrkit.encoder import Encoder
from pybufrkit.renderer import FlatJsonRenderer, NestedJsonRenderer
from pybufrkit.dataquery import DataQuerent, NodePathParser
from pybufrkit.errors import QueryError
from pybufrkit.utils import JSON_DUMPS_KWARGS
from pybufrkit.descriptors import (ElementDescriptor, FixedReplicationDescriptor, DelayedReplicationDescriptor,
                                   OperatorDescriptor, SequenceDescriptor, AssociatedDescriptor, MarkerDescriptor)
from pybufrkit.templatedata import (NoValueDataNode, SequenceNode, FixedReplicationNode, DelayedReplicationNode,
                                    ValueDataNode, AssociatedFieldNode, QualityInfoNode, SubstitutionNode)

logging.disable(logging.CRITICAL)

DATA_DIR = os.path.join('tests', 'data')
decoder = Decoder()
renderer = NestedJsonRenderer()
querent = DataQuerent(NodePathParser())
n_checks = [0]


def check(cond, *what):
    n_checks[0] += 1
    if not cond:
        print('MISMATCH', *[str(w)[:600] for w in what])
        sys.exit(1)


def dumps(x):
    return json.dumps(x, **JSON_DUMPS_KWARGS)


def same(a, b):
    """Equal, with the keys in the same order and values of the same types."""
    return a == b and dumps(a) == dumps(b)


def decode_file(name):
    with open(os.path.join(DATA_DIR, name), 'rb') as ins:
        return decoder.process(ins.read())


_FLAT = json.loads(dumps(FlatJsonRenderer().render(decode_file('contrived.bufr'))))


def build(descriptors, subsets, compressed):
    sections = json.loads(json.dumps(_FLAT))
    sections[2][2] = len(subsets)
    sections[2][4] = compressed
    sections[2][6] = descriptors
    sections[3][2] = subsets
    return decoder.process(Encoder().process(json.dumps(sections)).serialized_bytes)


# ---------------------------------------------------------------------------------------------------
# A. reference from the template and the flat data
# ---------------------------------------------------------------------------------------------------
def has_operators(members):
    for m in members:
        if isinstance(m, OperatorDescriptor) or not isinstance(
                m, (ElementDescriptor, FixedReplicationDescriptor, DelayedReplicationDescriptor, SequenceDescriptor)):
            return True
        if getattr(m, 'members', None) and has_operators(m.members):
            return True
    return False


class FlatCursor(object):
    def __init__(self, descriptors, values):
        self.descriptors, self.values, self.pos = descriptors, values, 0

    def take(self, expected_id):
        d, v = self.descriptors[self.pos], self.values[self.pos]
        assert d.id == expected_id, (d, expected_id)
        self.pos += 1
        return d, v


def ref_from_template(members, cursor):
    out = []
    for m in members:
        if isinstance(m, ElementDescriptor):
            d, v = cursor.take(m.id)
            out.append({'id': '{:06d}'.format(m.id), 'description': m.name, 'value': v})
        elif isinstance(m, SequenceDescriptor):
            out.append({'id': '{:06d}'.format(m.id), 'description': '{:06d} {}'.format(m.id, m.name),
                        'members': ref_from_template(m.members, cursor)})
        elif isinstance(m, FixedReplicationDescriptor):
            out.append({'id': '{:06d}'.format(m.id), 'description': '{:06d}'.format(m.id),
                        'members': [ref_from_template(m.members, cursor) for _ in range(m.id % 1000)]})
        else:
            d, count = cursor.take(m.factor.id)
            n = {'id': '{:06d}'.format(m.id), 'description': '{:06d}'.format(m.id),
                 'factor': {'id': '{:06d}'.format(d.id), 'description': d.name, 'value': count}}
            n['members'] = [ref_from_template(m.members, cursor) for _ in range(count)]
            out.append(n)
    return out


# ---------------------------------------------------------------------------------------------------
# B. reference from the node tree, iterative
# ---------------------------------------------------------------------------------------------------
def ref_value(node, descriptors, values, is_attribute):
    d = descriptors[node.index]
    if isinstance(d, MarkerDescriptor):
        description = '%06d' % d.marker_id
    elif hasattr(d, 'name'):
        description = d.name
    else:
        description = type(node).__name__[:-len('Node')]
    j = {'id': str(d), 'description': description, 'value': values[node.index]}
    if is_attribute and not isinstance(d, AssociatedDescriptor):
        j['virtual'] = True
    return j


def ref_from_nodes(nodes, descriptors, values):
    top = []
    # work list of (target list, node, is_attribute); document order is kept by filling lists that
    # already sit in their parents
    work = [(top, n, False) for n in nodes]
    work.reverse()
    while work:
        target, node, is_attribute = work.pop()
        pending = []
        if hasattr(node, 'index'):
            j = ref_value(node, descriptors, values, is_attribute)
            target.append(j)
            if hasattr(node, 'attributes'):
                j['attributes'] = []
                pending += [(j['attributes'], a, True) for a in node.attributes]
        else:
            j = {'id': str(node.descriptor)}
            j['description'] = j['id'] + (' ' + node.descriptor.name if hasattr(node.descriptor, 'name') else '')
            target.append(j)
            if type(node) is SequenceNode:
                j['members'] = []
                pending += [(j['members'], m, False) for m in node.members]
            elif type(node) in (FixedReplicationNode, DelayedReplicationNode):
                if type(node) is DelayedReplicationNode:
                    count = values[node.factor.index]
                    holder = []
                    pending.append((holder, node.factor, False))
                    j['factor'] = holder  # replaced by its only entry below
                else:
                    count = node.descriptor.id % 1000
                width = len(node.descriptor.members)
                j['members'] = [[] for _ in range(count)]
                for k, m in enumerate(node.members):
                    if width and k // width < count:
                        pending.append((j['members'][k // width], m, False))
        pending.reverse()
        work += pending
    unwrap_factors(top)
    return top


def unwrap_factors(jnodes):
    stack = [jnodes]
    while stack:
        for j in stack.pop():
            if 'factor' in j:
                stack.append(j['factor'])
                j['factor'] = j['factor'][0]
            if 'attributes' in j:
                stack.append(j['attributes'])
            if 'members' in j:
                if j['members'] and isinstance(j['members'][0], list) or ('value' not in j and j['id'][0] == '1'):
                    stack.extend(j['members'])
                else:
                    stack.append(j['members'])


# ---------------------------------------------------------------------------------------------------
# D. paths over the rendering
# ---------------------------------------------------------------------------------------------------
class RefError(Exception):
    pass


def is_replication(j):
    return j['id'][0] == '1' and 'value' not in j and 'members' in j


def ref_eval(jnodes, steps):
    sep, id_ = steps[0]
    picked = [n for n in jnodes if n['id'] == id_]
    if len(steps) == 1:
        if any('value' not in n for n in picked):
            raise RefError()
        return [n['value'] for n in picked]
    out = []
    for n in picked:
        if steps[1][0] == '/':
            if 'members' not in n:
                raise RefError()
            if is_replication(n):
                envelope = [r for r in (ref_eval(rep, steps[1:]) for rep in n['members']) if r]
                out += [envelope] if envelope else []
            else:
                out += ref_eval(n['members'], steps[1:])
        else:
            if 'attributes' not in n and 'factor' not in n:
                raise RefError()
            out += ref_eval(([n['factor']] if 'factor' in n else []) + n.get('attributes', []), steps[1:])
    return out


def all_paths(jnodes, depth):
    seen, out = set(), []

    def walk(n, p):
        if p not in seen:
            seen.add(p)
            out.append(p)
        if len(p) >= depth:
            return
        for m in ([x for rep in n['members'] for x in rep] if is_replication(n) else n.get('members', [])):
            walk(m, p + (('/', m['id']),))
        if 'factor' in n:
            walk(n['factor'], p + (('.', n['factor']['id']),))
        for a in n.get('attributes', []):
            walk(a, p + (('.', a['id']),))

    for n in jnodes:
        walk(n, (('/', n['id']),))
    return out


def compare_paths(name, msg, jsubsets, max_paths):
    paths = []
    for js in (jsubsets[:1] if msg.is_compressed.value else jsubsets):
        for p in all_paths(js, 6):
            if p not in paths:
                paths.append(p)
    if len(paths) > max_paths:
        paths = paths[::len(paths) // max_paths + 1] + paths[-3:]
    for p in paths:
        expr = ''.join(sep + id_ for sep, id_ in p)
        try:
            expected = [ref_eval(js, p) for js in jsubsets]
        except RefError:
            expected = RefError
        try:
            got = querent.query(msg, expr).all_values()
        except QueryError:
            got = RefError
        check(got == expected, name, expr, 'query over the rendering', got, expected)


# ---------------------------------------------------------------------------------------------------
def check_message(name, msg, max_paths=40):
    td = msg.template_data.value
    jsubsets = renderer.render(td)
    check(isinstance(jsubsets, list) and len(jsubsets) == td.n_subsets, name, 'one entry per subset')

    for i in range(td.n_subsets):
        descriptors, values = td.decoded_descriptors_all_subsets[i], td.decoded_values_all_subsets[i]
        expected = ref_from_nodes(td.decoded_nodes_all_subsets[i], descriptors, values)
        check(same(jsubsets[i], expected), name, i, 'node tree reference', dumps(jsubsets[i]), dumps(expected))
        if not has_operators(td.template.members):
            cursor = FlatCursor(descriptors, values)
            expected = ref_from_template(td.template.members, cursor)
            check(cursor.pos == len(values), name, i, 'flat data used up')
            check(same(jsubsets[i], expected), name, i, 'template reference', dumps(jsubsets[i]), dumps(expected))
        # the pieces, called the way the renderer calls them
        check(same(renderer._render_template_data_nodes(td.decoded_nodes_all_subsets[i], descriptors, values),
                   jsubsets[i]), name, i, 'nodes of one subset')

    # the message as a whole: sections of {'name', 'value'}, the template data among them
    jmsg = renderer.render(msg)
    found = [p for section in jmsg for p in section if p['name'] == 'template_data']
    check(len(found) == 1 and same(found[0]['value'], jsubsets), name, 'message rendering')
    check(list(found[0].keys()) == ['name', 'value'], name, 'parameter keys')
    # fresh objects on every call
    again = renderer.render(td)
    check(again is not jsubsets and same(again, jsubsets), name, 'rendered twice')
    check(all(a is not b for a, b in zip(again, jsubsets)), name, 'fresh lists')

    compare_paths(name, msg, jsubsets, max_paths)
    return jsubsets


def literal():
    msg = build([301001, 101000, 31001, 8002, 102002, 8002, 20011, 4001],
                [[94, 461, 0, 1, 2, 3, 4, 2016], [94, 462, 0, 5, 6, 7, 8, 2017]], True)
    vs, ca = 'VERTICAL SIGNIFICANCE (SURFACE OBSERVATIONS)', 'CLOUD AMOUNT'
    expected = [
        [
            {"id": "301001", "description": "301001 (WMO block and station numbers)", "members": [
                {"id": "001001", "description": "WMO BLOCK NUMBER", "value": 94},
                {"id": "001002", "description": "WMO STATION NUMBER", "value": number}]},
            {"id": "101000", "description": "101000",
             "factor": {"id": "031001", "description": "DELAYED DESCRIPTOR REPLICATION FACTOR", "value": 0},
             "members": []},
            {"id": "102002", "description": "102002", "members": [
                [{"id": "008002", "description": vs, "value": a}, {"id": "020011", "description": ca, "value": b}],
                [{"id": "008002", "description": vs, "value": c}, {"id": "020011", "description": ca, "value": d}]]},
            {"id": "004001", "description": "YEAR", "value": year},
        ]
        for number, a, b, c, d, year in ((461, 1, 2, 3, 4, 2016), (462, 5, 6, 7, 8, 2017))
    ]
    got = renderer.render(msg.template_data.value)
    check(same(got, expected), 'literal', dumps(got), dumps(expected))
    check(dumps(got[0][1]) == '{"id": "101000", "description": "101000", "factor": {"id": "031001", "description": '
                              '"DELAYED DESCRIPTOR REPLICATION FACTOR", "value": 0}, "members": []}', 'key order')
    return msg


class Named(object):
    """A stand-in for a descriptor with a name."""

    def __init__(self, id_, name):
        self.id, self.name = id_, name

    def __str__(self):
        return '{:06d}'.format(self.id)


class Bare(object):
    """A stand-in for a descriptor without name (skipped local descriptors, operators)."""

    def __init__(self, id_):
        self.id = id_

    def __str__(self):
        return '{:06d}'.format(self.id)


def corners():
    render_nodes = renderer._render_template_data_nodes

    # values: 0..9 ; descriptors by index
    descriptors = [Named(1001, 'A'), Named(1002, 'B'), Bare(206008), Named(31001, 'F'), Named(8002, 'C'),
                   Named(8002, 'C'), Named(33007, 'Q'), AssociatedDescriptor(1001, 4), Named(31021, 'M'),
                   MarkerDescriptor.from_element_descriptor(
                       ElementDescriptor(12001, 'T', 'K', 1, 0, 12, 'C', 1, 4), 223255)]
    values = [10, 11, b'xx', 2, 13, 14, 70, 5, 1, 99]

    # no-value node without members; value node without name takes the class name minus 'Node'
    op = NoValueDataNode(OperatorDescriptor(201129))
    skipped = ValueDataNode(descriptors[2], 2)
    got = render_nodes([op, skipped], descriptors, values)
    check(same(got, [{'id': '201129', 'description': '201129'},
                     {'id': '206008', 'description': 'ValueData', 'value': b'xx'}]), 'valueless / nameless', got)
    substitution = SubstitutionNode(descriptors[2], 2)
    got = render_nodes([substitution], descriptors, values)
    check(got == [{'id': '206008', 'description': 'Substitution', 'value': b'xx'}], 'class name', got)

    # marker: the id carries the letter of the operator, the description is the operator
    marker = SubstitutionNode(descriptors[9], 9)
    got = render_nodes([marker], descriptors, values)
    check(same(got, [{'id': 'T12001', 'description': '223255', 'value': 99}]), 'marker', got)

    # attributes: associated field (not virtual) with its own attribute (virtual), quality info (virtual)
    element = ValueDataNode(descriptors[0], 0)
    assoc = AssociatedFieldNode(descriptors[7], 7)
    assoc.add_attribute(ValueDataNode(descriptors[8], 8))
    element.add_attribute(assoc)
    element.add_attribute(QualityInfoNode(descriptors[6], 6))
    got = render_nodes([element], descriptors, values)
    expected = [{'id': '001001', 'description': 'A', 'value': 10, 'attributes': [
        {'id': 'A01001', 'description': 'AssociatedField', 'value': 5, 'attributes': [
            {'id': '031021', 'description': 'M', 'value': 1, 'virtual': True}]},
        {'id': '033007', 'description': 'Q', 'value': 70, 'virtual': True}]}]
    check(same(got, expected), 'attributes', dumps(got), dumps(expected))

    # sequence with a name, without members
    seq = SequenceNode(SequenceDescriptor(301001, '(S)', []))
    check(same(render_nodes([seq], descriptors, values),
               [{'id': '301001', 'description': '301001 (S)', 'members': []}]), 'empty sequence')

    # fixed replication: no repetition at all; more repetitions than wired members; members beyond the count
    c1, c2 = ValueDataNode(descriptors[4], 4), ValueDataNode(descriptors[5], 5)
    jc1, jc2 = ({'id': '008002', 'description': 'C', 'value': v} for v in (13, 14))
    fixed0 = FixedReplicationNode(FixedReplicationDescriptor(101000, [descriptors[4]]))  # repeats nothing
    fixed0.members = [c1]
    check(same(render_nodes([fixed0], descriptors, values), [{'id': '101000', 'description': '101000', 'members': []}]),
          'fixed, zero repeats')
    fixed3 = FixedReplicationNode(FixedReplicationDescriptor(101003, [descriptors[4]]))
    fixed3.members = [c1, c2]
    check(same(render_nodes([fixed3], descriptors, values),
               [{'id': '101003', 'description': '101003', 'members': [[jc1], [jc2], []]}]), 'fixed, short of members')
    fixed1 = FixedReplicationNode(FixedReplicationDescriptor(101001, [descriptors[4]]))
    fixed1.members = [c1, c2]
    check(same(render_nodes([fixed1], descriptors, values),
               [{'id': '101001', 'description': '101001', 'members': [[jc1]]}]), 'fixed, surplus members')
    fixed_wide = FixedReplicationNode(FixedReplicationDescriptor(102002, [descriptors[4], descriptors[5]]))
    fixed_wide.members = [c1, c2, c1]
    check(same(render_nodes([fixed_wide], descriptors, values),
               [{'id': '102002', 'description': '102002', 'members': [[jc1, jc2], [jc1]]}]), 'fixed, ragged')
    # no members in the descriptor: every repetition is the empty slice
    fixed_none = FixedReplicationNode(FixedReplicationDescriptor(101002, []))
    fixed_none.members = [c1]
    check(same(render_nodes([fixed_none], descriptors, values),
               [{'id': '101002', 'description': '101002', 'members': [[], []]}]), 'fixed, zero width')

    # delayed replication: the count is the value of the factor, whatever was wired
    def delayed(members):
        node = DelayedReplicationNode(DelayedReplicationDescriptor(101000, [descriptors[4]], descriptors[3]))
        node.factor = ValueDataNode(descriptors[3], 3)
        node.members = members
        return node

    jf = {'id': '031001', 'description': 'F', 'value': 2}
    check(same(render_nodes([delayed([c1, c2])], descriptors, values),
               [{'id': '101000', 'description': '101000', 'factor': jf, 'members': [[jc1], [jc2]]}]), 'delayed')
    check(same(render_nodes([delayed([c1])], descriptors, values),
               [{'id': '101000', 'description': '101000', 'factor': jf, 'members': [[jc1], []]}]), 'delayed, short')
    for count, members in ((0, []), (0, [c1]), (-1, [c1]), (False, [c1]), (True, [c1, c2])):
        vals = list(values)
        vals[3] = count
        expected = [{'id': '101000', 'description': '101000',
                     'factor': {'id': '031001', 'description': 'F', 'value': count},
                     'members': [[jc1]] if count is True else []}]
        check(same(render_nodes([delayed(members)], descriptors, vals), expected), 'delayed, count', count)
    # the factor with an attribute (quality information attached to 031001)
    node = delayed([c1, c2])
    node.factor.add_attribute(QualityInfoNode(descriptors[6], 6))
    got = render_nodes([node], descriptors, values)
    check(same(got, [{'id': '101000', 'description': '101000',
                      'factor': {'id': '031001', 'description': 'F', 'value': 2, 'attributes': [
                          {'id': '033007', 'description': 'Q', 'value': 70, 'virtual': True}]},
                      'members': [[jc1], [jc2]]}]), 'factor with attribute', got)

    # error behaviour
    def raises(exc, nodes, descs, vals):
        try:
            render_nodes(nodes, descs, vals)
        except exc as e:
            check(type(e) is exc, 'exact type', exc)
        else:
            check(False, 'expected', exc)

    vals = list(values)
    vals[3] = None
    raises(TypeError, [delayed([c1, c2])], descriptors, vals)       # range(None)
    vals[3] = 1.0
    raises(TypeError, [delayed([c1, c2])], descriptors, vals)       # range(1.0)
    raises(IndexError, [delayed([c1, c2])], descriptors, values[:3])  # count not there
    raises(IndexError, [delayed([c1, c2])], descriptors, values[:4])  # count there, member values not
    raises(IndexError, [element], descriptors, values[:6])            # attribute value not there
    raises(IndexError, [c1], descriptors[:2], values)                 # descriptor not there
    raises(AttributeError, [DelayedReplicationNode(descriptors[3])], descriptors, values)  # factor None
    raises(AttributeError, [object()], descriptors, values)          # not a node
    # a delayed replication descriptor on a fixed node has no n_repeats
    from pybufrkit.errors import PyBufrKitError
    raises(PyBufrKitError, [FixedReplicationNode(DelayedReplicationDescriptor(101000, [], descriptors[3]))],
           descriptors, values)
    # a failure in a later node comes after the earlier ones were rendered: nothing is returned
    raises(IndexError, [c1, ValueDataNode(descriptors[5], 50)], descriptors, values)

    # generators and tuples of nodes are taken as they come
    check(same(render_nodes((n for n in [c1, c2]), descriptors, values), [jc1, jc2]), 'generator of nodes')
    check(same(render_nodes((), descriptors, values), []), 'no nodes')


def doctored(msg):
    """The decoded values of a real message changed after wiring: the count is read from the values."""
    td = msg.template_data.value
    nodes, descriptors = td.decoded_nodes_all_subsets[0], td.decoded_descriptors_all_subsets[0]
    values = list(td.decoded_values_all_subsets[0])
    base = renderer._render_template_data_nodes(nodes, descriptors, values)
    check(base[1]['id'] == '101000' and base[1]['members'] == [] and base[1]['factor']['value'] == 0, 'zero count')
    values[2] = 3
    got = renderer._render_template_data_nodes(nodes, descriptors, values)
    expected = json.loads(json.dumps(base))
    expected[1]['factor']['value'] = 3
    expected[1]['members'] = [[], [], []]
    check(same(got, expected), 'count raised after wiring', dumps(got), dumps(expected))


def main():
    msg = literal()
    doctored(msg)
    corners()

    descriptors = [301001, 101000, 31001, 8002, 103002, 8002, 20011, 20011]
    subsets = [[94, 461, 0, 1, 2, 3, 4, 5, 6], [94, 462, 0, 7, 8, 9, 10, 11, 12], [94, 463, 0, 1, 2, 3, 4, 5, 6]]
    check_message('plain', build(descriptors, subsets, False))
    check_message('compressed', build(descriptors, subsets, True))
    check_message('uneven', build([301001, 105000, 31001, 8002, 102000, 31001, 20011, 8002, 4001], [
        [1, 2, 2, 11, 2, 1, 21, 2, 22, 12, 0, 2016], [3, 4, 0, 2017], [5, 6, 1, 13, 1, 3, 23, 2018]], False))
    check_message('even', build([301001, 101000, 31001, 8002, 104000, 31001, 8002, 102002, 20011, 8002, 4001], [
        [1, 2, 0, 2, 11, 1, 21, 2, 22, 12, 3, 23, 4, 24, 2016],
        [3, 4, 0, 2, 31, 5, 41, 6, 42, 32, 7, 43, 8, 44, 2017]], True))

    n_template_refs = 0
    for name in ('contrived.bufr', 'jaso_214.bufr', '207003.bufr', 'g2nd_208.bufr', 'uegabe.bufr', 'b005_89.bufr',
                 'b002_95.bufr', 'profiler_european.bufr', 'ISMD01_OKPR.bufr', 'mpco_217.bufr', 'amv2_87.bufr',
                 'asr3_190.bufr', 'rado_250.bufr', 'IUSK73_AMMC_182300.bufr', 'prepbufr.bufr'):
        msg = decode_file(name)
        n_template_refs += not has_operators(msg.template_data.value.template.members)
        check_message(name, msg, max_paths=25)
    check(n_template_refs >= 2, 'sample files without operators', n_template_refs)

    print('OK: {} checks'.format(n_checks[0]))


if __name__ == '__main__':
    main()
